"""C20 -- ffi.new zero-fills and initialises exactly like assignment.

llsym on direct_newp, allocate_with_allocator, allocate_owning_object, convert_struct_from_object
(both passes), convert_vfield_from_object, add_varsize_length, get_new_array_length and the
convert_from_object kernels they reach.
Obligations:
 sizing   : add_varsize_length(offset, itemsize, n, &size) accepts iff offset + itemsize*n fits
            Py_ssize_t and then records max(old, that size) -- never a wrapped value; same for
            ffi.new('T[]', n): datasize == n*sizeof(T) or OverflowError.
 zero     : memory of ffi.new(T) / ffi.new('T[]', n) is all zero (calloc, or memset for custom allocators).
 same-as-assignment : for structs (incl. a trailing flexible array and a nested var-sized struct given as
            cdata) ffi.new('X *', init) succeeds iff ffi.new('X *') followed by p[0] = init does, and leaves
            the same bytes; the allocation covers offset_of_flexible_member + len*itemsize and the recorded
            size is the allocated one.
"""
import json
import z3
from vf import common, irgen, llsym, pystubs, hutil
from vf.llsym import bv, simp, mask, is_c
from vf.pystubs import W, V_const

SMAX = (1 << 63) - 1

REPLAY = r'''
# Replay for C20 against the real cffi build.
import sys, json, cffi
case = json.loads(%r)
ffi = cffi.FFI()
bad = []
k = case['kind']
if k == 'array-size':
    n, isz = case['n'], case['itemsize']
    t = {1: 'char', 2: 'short', 4: 'int', 8: 'long long', 12: 'struct s12'}[isz]
    ffi.cdef('struct s12 { int a[3]; };')
    fits = n * isz <= 2**63 - 1
    try:
        p = ffi.new(t + '[]', n); ok = True
    except OverflowError:
        ok = False
    except MemoryError:
        ok = None
    if ok is not None and ok != fits:
        bad.append('ffi.new(%%r, %%d): accepted=%%s but size fits=%%s' %% (t + '[]', n, ok, fits))
elif k == 'flex':
    ffi.cdef('struct s { int a; short arr[]; };')
    vals = case['vals']
    p = ffi.new('struct s *', [case['a'], vals])
    q = ffi.new('struct s *', [0, len(vals)]); q[0] = [case['a'], vals] if False else q[0]
    if ffi.sizeof(p[0]) < 4 + 2 * len(vals) or list(p.arr[0:len(vals)]) != vals or p.a != case['a']:
        bad.append('struct with flexible array: %%r' %% ((ffi.sizeof(p[0]), p.a, list(p.arr[0:len(vals)])),))
for b in bad:
    print('VIOLATED:', b)
sys.exit(1 if bad else 0)
'''


def make_replay(chk):
    def replay(case):
        path = chk.write_replay(case['kind'], REPLAY % json.dumps(case))
        rc, out = common.run_replay(path)
        return common.replay_verdict(rc, out), path
    return replay


def worker(args):
    prop, tier, what = args
    chk = hutil.sub_check(prop, tier)
    mod = irgen.backend()
    L = pystubs.CffiLayout(mod)
    F = L.flags
    replay = make_replay(chk)
    label = ':'.join(str(w) for w in what)

    def _alloc(ex, size, zero, name):
        size = simp(size)
        req = size
        if not is_c(size):
            # small requests get a region of exactly that size (any stray access is reported); larger ones a
            # 256-byte window (allocation failure / MemoryError is outside the claim)
            if ex.decide(z3.ULE(size, 40)):
                size = ex.concretize(size, 64, 64, name + ' size')
            else:
                size = 256
        elif size > (1 << 20):
            raise llsym.PathEnd()
        r = ex.mem.alloc(size, name, 'heap', fill=0 if zero else None)
        ex.ghost.setdefault('allocs', {})[r.base] = (name, req, r)
        return r.base

    def calloc(ex, n, m):
        return _alloc(ex, bv(n, 64) * bv(m, 64), True, 'calloc')

    def malloc(ex, n):
        return _alloc(ex, n, False, 'malloc')
    st = pystubs.stubs(calloc=calloc, malloc=malloc, free=lambda ex, p: None)
    ex = llsym.Executor(mod, st, loop_bound=16)

    def on_oob(ex, what_, model):
        chk.report_failure('%s: access outside the allocation: %s' % (label, what_), {}, None, None)
    ex.on_oob = on_oob

    def int_type(ex, size=4):
        return pystubs.new_ctype(ex, L, size, F['CT_PRIMITIVE_SIGNED'] | F['CT_PRIMITIVE_FITS_LONG'], length=size)

    if what[0] == 'add_varsize':
        isz = what[1]

        def h(ex):
            py = pystubs.PyEnv(ex)
            off, n, old = z3.BitVec('offset', 64), z3.BitVec('n', 64), z3.BitVec('old', 64)
            ex.assume(z3.And(off >= 0, n >= 0, old >= 0))
            cell = ex.mem.alloc(8, 'optvarsize', 'input')
            ex.mem.store(cell.base, old, 8)
            r = simp(ex.call('add_varsize_length', [off, isz, n, cell.base]))
            exact = z3.ZeroExt(64, off) + z3.ZeroExt(64, n) * isz
            fits = exact <= V_const(SMAX)
            now = bv(ex.mem.load(cell.base, 8), 64)
            inputs = {'offset': off, 'n': n, 'old': old}
            if r == 0:
                hutil.witness(chk, ex, label + ':accepted')
                hutil.discharge(chk, ex, label + ':accepted=>no-wrap', fits, inputs)
                want = z3.If(z3.Extract(63, 0, exact) > old, z3.Extract(63, 0, exact), old)
                hutil.discharge(chk, ex, label + ':recorded==max(old,offset+itemsize*n)', now == want, inputs)
            else:
                hutil.witness(chk, ex, label + ':rejected')
                hutil.discharge(chk, ex, label + ':rejected=>really-overflows', z3.Not(fits), inputs)
                hutil.discharge(chk, ex, label + ':rejected=>OverflowError+unchanged',
                                z3.And(z3.BoolVal(py.exc == 'PyExc_OverflowError'), now == old), inputs)
    elif what[0] == 'new-array':
        isz, mode = what[1], what[2]

        def h(ex):
            py = pystubs.PyEnv(ex)
            item = int_type(ex, isz) if isz in (1, 2, 4, 8) else pystubs.new_ctype(ex, L, isz, F['CT_STRUCT'], length=4)
            ptr = pystubs.new_ctype(ex, L, 8, F['CT_POINTER'], itemdescr=item)
            arr = pystubs.new_ctype(ex, L, mask(64), F['CT_ARRAY'], itemdescr=item, stuff=ptr, length=mask(64))
            V = z3.BitVec('n', W)
            alloc = ex.gaddr('default_allocator')
            inputs = {'n': V}
            if mode == 'length':
                init = py.new_int(V)
                r = simp(ex.call('direct_newp', [arr, init, alloc]))
                exact = V * isz
                valid = z3.And(V >= 0, V <= V_const(SMAX), exact <= V_const(SMAX))

                def rp(c):
                    return replay({'kind': 'array-size', 'n': llsym.signed(c['n'], W), 'itemsize': isz})
                if is_c(r) and r != 0 and py.exc is None:
                    m = hutil.witness(chk, ex, label + ':allocated')
                    hutil.discharge(chk, ex, label + ':accepted=>n*itemsize-fits', valid, inputs, replay=rp)
                    n64 = simp(ex.mem.load(r + 40, 8))
                    hutil.discharge(chk, ex, label + ':recorded-length==n', bv(n64, 64) == z3.Extract(63, 0, V), inputs, replay=rp)
                    data = simp(ex.mem.load(r + 24, 8))
                    reg = ex.mem.region_of(data)
                    name_, req, _ = ex.ghost['allocs'][reg.base]
                    hdr = data - reg.base
                    hutil.discharge(chk, ex, label + ':allocation-covers-n*itemsize',
                                    bv(req, 64) == z3.Extract(63, 0, V) * isz + hdr, inputs, replay=rp)
                    hutil.discharge(chk, ex, label + ':allocated-with-calloc', name_ == 'calloc', inputs)
                    size = reg.base + reg.size - data
                    zero = all(is_c(simp(ex.mem.byte_expr(a))) and simp(ex.mem.byte_expr(a)) == 0 for a in range(data, data + size))
                    hutil.discharge(chk, ex, label + ':memory-is-zero', zero, inputs)
                else:
                    hutil.witness(chk, ex, label + ':rejected')
                    hutil.discharge(chk, ex, label + ':rejected=>negative-or-overflow', z3.Not(valid), inputs, replay=rp)
            else:
                k = mode
                vals = [z3.BitVec('x%d' % j, 8 * isz) for j in range(k)]
                for j, v in enumerate(vals):
                    inputs['x%d' % j] = v
                init = py.new_list([py.new_int(z3.SignExt(W - 8 * isz, v)) for v in vals])
                r = simp(ex.call('direct_newp', [arr, init, alloc]))
                okk = is_c(r) and r != 0 and py.exc is None
                hutil.witness(chk, ex, label)
                hutil.discharge(chk, ex, label + ':list-initializer-accepted', okk, inputs)
                if okk:
                    data = simp(ex.mem.load(r + 24, 8))
                    reg = ex.mem.region_of(data)
                    hutil.discharge(chk, ex, label + ':allocation==len*itemsize', reg.base + reg.size - data == k * isz, inputs)
                    got = [bv(ex.mem.load(data + isz * j, isz), 8 * isz) for j in range(k)]
                    hutil.discharge(chk, ex, label + ':items-in-order', z3.And(*[g == v for g, v in zip(got, vals)]) if k else True, inputs)
    elif what[0] == 'struct':
        # struct { int a; <tail> }: tail = flexible short[] / nested var-sized struct
        variant, k = what[1], what[2]

        def build_struct(ex, py):
            """struct s { int a; short arr[]; } with its field list"""
            i32, i16 = int_type(ex, 4), int_type(ex, 2)
            p16 = pystubs.new_ctype(ex, L, 8, F['CT_POINTER'], itemdescr=i16)
            arr = pystubs.new_ctype(ex, L, mask(64), F['CT_ARRAY'], itemdescr=i16, stuff=p16, length=mask(64))
            s = pystubs.new_ctype(ex, L, 4, F['CT_STRUCT'], length=4, stuff=py.new_opaque('dict', items=[]))
            ex.mem.store(s + L.ct['ct_flags_mut'], F['CT_WITH_VAR_ARRAY'], 4)
            BS_REGULAR, BS_EMPTY = mask(16), (mask(16) - 1)
            fa = pystubs.new_cfield(ex, L, i32, 0, BS_REGULAR, mask(16))
            fb = pystubs.new_cfield(ex, L, arr, 4, BS_EMPTY, mask(16))
            ex.mem.store(fa + L.cf['cf_next'], fb, 8)
            ex.mem.store(s + L.ct['ct_extra'], fa, 8)
            sp = pystubs.new_ctype(ex, L, 8, F['CT_POINTER'] | F['CT_IS_PTR_TO_OWNED'], itemdescr=s)
            return s, sp

        def h(ex):
            py = pystubs.PyEnv(ex)
            alloc = ex.gaddr('default_allocator')
            s, sp = build_struct(ex, py)
            A = z3.BitVec('a', 32)
            vals = [z3.BitVec('x%d' % j, 16) for j in range(k)]
            inputs = {'a': A}
            for j, v in enumerate(vals):
                inputs['x%d' % j] = v
            mk_a = lambda: py.new_int(z3.SignExt(W - 32, A))
            mk_vals = lambda: py.new_list([py.new_int(z3.SignExt(W - 16, v)) for v in vals])
            if variant == 'flex':
                target_t, target_p = s, sp
                mk_init = lambda: py.new_list([mk_a(), mk_vals()])
                base_size = 4
            elif variant == 'flexunion':
                # union u { short tag; short arr[]; } initialised with {'arr': [...]}: unions carry a flexible array too
                i16 = int_type(ex, 2)
                p16 = pystubs.new_ctype(ex, L, 8, F['CT_POINTER'], itemdescr=i16)
                arr = pystubs.new_ctype(ex, L, mask(64), F['CT_ARRAY'], itemdescr=i16, stuff=p16, length=mask(64))
                f1 = pystubs.new_cfield(ex, L, i16, 0, mask(16), mask(16))
                f2 = pystubs.new_cfield(ex, L, arr, 0, mask(16) - 1, mask(16), flags=F['BF_IGNORE_IN_CTOR'])
                ex.mem.store(f1 + L.cf['cf_next'], f2, 8)
                names = {'tag': py.new_unicode([ord(c) for c in 'tag'], 1), 'arr': py.new_unicode([ord(c) for c in 'arr'], 1)}
                d_ = py.new_opaque('dict', 'PyDict_Type', items=[[names['tag'], f1], [names['arr'], f2]])
                u = pystubs.new_ctype(ex, L, 2, F['CT_UNION'], length=2, stuff=d_, extra=f1)
                ex.mem.store(u + L.ct['ct_flags_mut'], F['CT_WITH_VAR_ARRAY'], 4)
                up = pystubs.new_ctype(ex, L, 8, F['CT_POINTER'] | F['CT_IS_PTR_TO_OWNED'], itemdescr=u)
                target_t, target_p = u, up
                mk_init = lambda: py.new_opaque('dict', 'PyDict_Type', items=[[py.new_unicode([ord(c) for c in 'arr'], 1), mk_vals()]])
                base_size = 0
            else:
                # struct outer { int n; struct s inner; } with inner given as a struct cdata
                i32 = int_type(ex, 4)
                outer = pystubs.new_ctype(ex, L, 8, F['CT_STRUCT'], length=4, stuff=py.new_opaque('dict', items=[]))
                ex.mem.store(outer + L.ct['ct_flags_mut'], F['CT_WITH_VAR_ARRAY'], 4)
                f1 = pystubs.new_cfield(ex, L, i32, 0, mask(16), mask(16))
                f2 = pystubs.new_cfield(ex, L, s, 4, mask(16), mask(16))
                ex.mem.store(f1 + L.cf['cf_next'], f2, 8)
                ex.mem.store(outer + L.ct['ct_extra'], f1, 8)
                op = pystubs.new_ctype(ex, L, 8, F['CT_POINTER'] | F['CT_IS_PTR_TO_OWNED'], itemdescr=outer)
                inner_mem = ex.mem.alloc(4, 'inner struct value', 'input')
                ex.mem.store(inner_mem.base, z3.BitVec('inner_a', 32), 4)
                inner_cd = pystubs.new_cdata(ex, L, s, inner_mem.base)
                target_t, target_p = outer, op
                mk_init = lambda: py.new_list([mk_a(), inner_cd])
                base_size = 8
                inputs['inner_a'] = z3.BitVec('inner_a', 32)
            none = ex.gaddr('_Py_NoneStruct')
            # (1) ffi.new(T, init)
            r1 = simp(ex.call('direct_newp', [target_p, mk_init(), alloc]))
            ok1 = is_c(r1) and r1 != 0 and py.exc is None
            exc1 = py.exc
            py.exc = None
            # (2) ffi.new(T) sized for the same array, then p[0] = init
            if variant == 'flex':
                r2 = simp(ex.call('direct_newp', [target_p, py.new_list([py.new_int(V_const(0)), py.new_int(V_const(k))]), alloc]))
            elif variant == 'flexunion':
                r2 = simp(ex.call('direct_newp', [target_p, py.new_opaque('dict', 'PyDict_Type', items=[
                    [py.new_unicode([ord(c) for c in 'arr'], 1), py.new_int(V_const(k))]]), alloc]))
            else:
                r2 = simp(ex.call('direct_newp', [target_p, none, alloc]))
            ok2 = is_c(r2) and r2 != 0 and py.exc is None
            if ok2:
                d2 = simp(ex.mem.load(r2 + 24, 8))
                rr = simp(ex.call('convert_from_object', [d2, target_t, mk_init()]))
                ok2 = (rr == 0) and py.exc is None
            hutil.witness(chk, ex, label)
            hutil.discharge(chk, ex, label + ':new(T,init)-succeeds-iff-new+assign-does', ok1 == ok2, inputs)
            if not (ok1 and ok2):
                if ok1 != ok2:
                    return
                hutil.discharge(chk, ex, label + ':initializer-accepted', False, inputs)
                return
            d1 = simp(ex.mem.load(r1 + 24, 8))
            reg1 = ex.mem.region_of(d1)
            size1 = reg1.base + reg1.size - d1
            need = max(base_size + (2 * k if variant in ('flex', 'flexunion') else 0), 2 if variant == 'flexunion' else 0)
            hutil.discharge(chk, ex, label + ':allocation-covers-the-initializer', size1 >= need, inputs)
            structobj = simp(ex.mem.load(r1 + 40, 8))       # CDataObject_own_structptr.structobj
            if variant in ('flex', 'flexunion'):
                hutil.discharge(chk, ex, label + ':recorded-size==allocated-size',
                                simp(ex.mem.load(structobj + 40, 8)) == size1, inputs)
                # ffi.sizeof(p[0]): p[0] of an owning struct/union pointer is that very object
                sz = simp(ex.call('direct_sizeof_cdata', [structobj]))
                hutil.discharge(chk, ex, label + ':sizeof(p[0])==allocated-size', bv(sz, 64) == size1, inputs)
            same = [ex.mem.byte_expr(d1 + j) for j in range(need)]
            other = [ex.mem.byte_expr(d2 + j) for j in range(need)]
            hutil.discharge(chk, ex, label + ':same-bytes-as-new+assign',
                            z3.And(*[bv(x, 8) == bv(y, 8) for x, y in zip(same, other)]), inputs)
            if variant == 'flexunion':
                want = []
                for v in vals:
                    want += [z3.Extract(7, 0, v), z3.Extract(15, 8, v)]
                want += [z3.BitVecVal(0, 8)] * (need - len(want))
                hutil.discharge(chk, ex, label + ':bytes==items-rest-zero',
                                z3.And(*[bv(x, 8) == w for x, w in zip(same, want)]), inputs)
            if variant == 'flex':
                want = [z3.Extract(8 * b + 7, 8 * b, A) for b in range(4)]
                for v in vals:
                    want += [z3.Extract(7, 0, v), z3.Extract(15, 8, v)]
                hutil.discharge(chk, ex, label + ':bytes==fields-then-items',
                                z3.And(*[bv(x, 8) == w for x, w in zip(same, want)]), inputs)

    if what[0] == 'aggregate':
        variant, order = what[1], what[2]

        def h(ex):
            py = pystubs.PyEnv(ex)
            alloc = ex.gaddr('default_allocator')
            i32, i16 = int_type(ex, 4), int_type(ex, 2)
            BS_REGULAR = mask(16)
            is_union = variant == 'union'
            if is_union:
                layout = [('a', i32, 0, 4), ('b', i16, 0, 2)]
                total = 4
            else:
                layout = [('a', i32, 0, 4), ('b', i16, 4, 2), ('c', i32, 8, 4)]
                total = 12
            fields = []
            for i, (nm, ct, off, sz) in enumerate(layout):
                fl = F['BF_IGNORE_IN_CTOR'] if (is_union and i > 0) else 0       # as b_complete_struct_or_union sets it (C01)
                fields.append(pystubs.new_cfield(ex, L, ct, off, BS_REGULAR, mask(16), flags=fl))
            for a_, b_ in zip(fields, fields[1:]):
                ex.mem.store(a_ + L.cf['cf_next'], b_, 8)
            names = dict((nm, py.new_unicode([ord(nm)], 1)) for nm, _, _, _ in layout)
            d = py.new_opaque('dict', 'PyDict_Type', items=[[names[nm], f] for (nm, _, _, _), f in zip(layout, fields)])
            t = pystubs.new_ctype(ex, L, total, F['CT_UNION'] if is_union else F['CT_STRUCT'], length=4, stuff=d, extra=fields[0])
            tp = pystubs.new_ctype(ex, L, 8, F['CT_POINTER'] | F['CT_IS_PTR_TO_OWNED'], itemdescr=t)
            vals = dict((nm, z3.BitVec('v_' + nm, 8 * sz)) for nm, _, _, sz in layout)
            inputs = dict(('v_' + nm, v) for nm, v in vals.items())
            mk = lambda nm: py.new_int(z3.SignExt(W - vals[nm].size(), vals[nm]))
            chosen = []
            if variant == 'dict':
                keys = [nm for nm, _, _, _ in layout]
                if order == 'reversed':
                    keys = keys[::-1]
                for nm in keys:
                    if ex.decide(z3.Bool('init_has_' + nm)):
                        chosen.append(nm)
                    inputs['init_has_' + nm] = z3.Bool('init_has_' + nm)
                unknown = ex.decide(z3.Bool('init_has_unknown_key'))
                inputs['init_has_unknown_key'] = z3.Bool('init_has_unknown_key')

                def mk_init():
                    items = [[py.new_unicode([ord(nm)], 1), mk(nm)] for nm in chosen]     # fresh key objects: lookup is by content
                    if unknown:
                        items.append([py.new_unicode([ord('z')], 1), py.new_int(V_const(1))])
                    return py.new_opaque('dict', 'PyDict_Type', items=items)
                expect_ok = not unknown
            else:
                k = order
                seq = [nm for nm, _, _, _ in layout][:k] if not is_union else (['a', 'b'][:k])
                chosen = seq[:1] if is_union else seq

                def mk_init():
                    return py.new_list([mk(nm) for nm in seq])
                expect_ok = (k <= 1) if is_union else True
            none = ex.gaddr('_Py_NoneStruct')
            r1 = simp(ex.call('direct_newp', [tp, mk_init(), alloc]))
            ok1 = is_c(r1) and r1 != 0 and py.exc is None
            exc1 = py.exc
            py.exc = None
            r2 = simp(ex.call('direct_newp', [tp, none, alloc]))
            ok2 = is_c(r2) and r2 != 0 and py.exc is None
            if ok2:
                d2 = simp(ex.mem.load(r2 + 24, 8))
                rr = simp(ex.call('convert_from_object', [d2, t, mk_init()]))
                ok2 = (rr == 0) and py.exc is None
            exc2 = py.exc
            hutil.witness(chk, ex, label + (':accepted' if ok1 else ':rejected'))
            hutil.discharge(chk, ex, label + ':new(T,init)-succeeds-iff-new+assign-does-with-the-same-exception', ok1 == ok2 and (ok1 or exc1 == exc2), inputs)
            hutil.discharge(chk, ex, label + ':accepted-iff-the-initializer-is-valid', ok1 == expect_ok, inputs)
            if not ok1:
                want_exc = 'PyExc_KeyError' if variant == 'dict' else 'PyExc_ValueError'
                hutil.discharge(chk, ex, label + ':rejected-with-' + want_exc[6:], exc1 == want_exc, inputs)
                return
            d1 = simp(ex.mem.load(r1 + 24, 8))
            reg1 = ex.mem.region_of(d1)
            hutil.discharge(chk, ex, label + ':allocation-is-sizeof(T)', reg1.base + reg1.size - d1 == total, inputs)
            want = [z3.BitVecVal(0, 8)] * total
            for nm, _, off, sz in layout:
                if nm in chosen:
                    for b_ in range(sz):
                        want[off + b_] = z3.Extract(8 * b_ + 7, 8 * b_, vals[nm])
            got1 = [bv(ex.mem.byte_expr(d1 + j), 8) for j in range(total)]
            hutil.discharge(chk, ex, label + ':bytes==named-fields-set-everything-else-zero', z3.And(*[g == w_ for g, w_ in zip(got1, want)]), inputs)
            if ok2:
                got2 = [bv(ex.mem.byte_expr(d2 + j), 8) for j in range(total)]
                hutil.discharge(chk, ex, label + ':same-bytes-as-new+assign', z3.And(*[g == h_ for g, h_ in zip(got1, got2)]), inputs)

    res = ex.explore(h, max_paths=5000)
    hutil.finish_explore(chk, ex, res, label)
    chk.functions = irgen.func_info(mod, sorted(ex.called))
    return hutil.export(chk)


def run(chk):
    quick = chk.tier == 'quick'
    P = (chk.prop, chk.tier)
    cases = []
    for isz in (1, 2, 4, 8, 12):
        cases.append(P + (('add_varsize', isz),))
        cases.append(P + (('new-array', isz, 'length'),))
    for k in range(0, 3 if quick else 5):
        cases.append(P + (('new-array', 4, k),))
        cases.append(P + (('struct', 'flex', k),))
        cases.append(P + (('struct', 'flexunion', k),))
    cases.append(P + (('struct', 'nested-cdata', 0),))
    cases.append(P + (('aggregate', 'dict', 'declared'),))
    cases.append(P + (('aggregate', 'dict', 'reversed'),))
    for k in range(0, 4):
        cases.append(P + (('aggregate', 'seq', k),))
    for k in range(0, 3):
        cases.append(P + (('aggregate', 'union', k),))
    chk.bounds = {'sizing': 'any offset, length, previous size (64-bit); item sizes {1,2,4,8,12}',
                  'ffi.new("T[]", n)': 'any Python int n; allocation performed for n*itemsize <= 1 MiB',
                  'initializers': 'lists of 0..%d items; struct {int; short[]}, union {short; short[]} (dict initializer) and '
                  'struct {int; struct-with-flexible-array} given as cdata' % (2 if quick else 4)}
    chk.bounds['aggregates'] = 'struct {int a; short b; int c}: dict initializers with every subset of the fields in two orders (+ an unknown key), sequences of 0..3 items; union {int a; short b}: sequences of 0..2 items; every value'
    chk.outside = ['deeper nesting of initializers', 'custom allocators (ffi.new_allocator)', 'allocation failure (MemoryError)']
    chk.assume('calloc returns zeroed memory, malloc arbitrary memory (libc); CPython contracts of vf/pystubs.py')
    irgen.backend()
    hutil.run_cases(chk, cases, worker)
