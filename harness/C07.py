"""C07 -- the Python and the C type-string parsers denote the same type (token level).

C side (llsym on the real IR of parse_c_type / parse_complete / parse_sequel / write_ds): the *token sequence*
is symbolic -- every token kind is a solver variable over the family's alphabet -- so one exploration covers
every sequence of up to k tokens: the accepted sequences fall out as the models of the accepting paths,
together with the opcodes the parser wrote for them; every other sequence is rejected.  The lexer is replaced
by a stub that delivers the symbolic kinds (the real lexer is decided separately: C30 on raw bytes, and the
keyword table here in 'lexer' cases on symbolic bytes), and the two helpers that peek at the raw text
(get_following_char, number_of_commas) by stubs computing the same answers from the symbolic kinds.

Python side: the real cparser.Parser.parse_type of the working tree is run on the rendered text of *every*
sequence of the same bounded family (exhaustive evaluation of the reference implementation; pycparser's LALR
tables are C-level data for CrossHair and out of reach of proxy execution).

The two verdict tables are compared: accepted by both with the same type tree, or rejected by both.  A
sequence on which the parse-level verdicts differ is run on the real build through both FFIs (the backend
constructors can still reject it for both): only a real difference is a violation.
"""
import os, sys, json, re, itertools, time
import z3
from vf import common, irgen, llsym, pystubs, hutil
from vf.llsym import bv, simp, mask, is_c

FAMILIES = {
    # name: (alphabet, k_quick, k_thorough)
    'specifiers': (['short', 'long', 'int', 'signed', 'unsigned', 'char', 'double', 'float', 'void', '_Bool', '_Complex', 'const', 'volatile'], 4, 6),
    'declarators': (['int', '*', '(', ')', '[', ']', '3', ','], 6, 8),
    'functions': (['int', 'void', 'char', '*', '(', ')', ',', '...', 'const', '[', ']'], 5, 7),
}

REPLAY = r'''
# Replay for C07 on the real build: the in-line FFI (Python parser) and a compiled-style FFI (C parser) on the
# same type strings.  Prints one JSON line per string: "same" | "both-reject" | "differ: ...".
import sys, json
import cffi, _cffi_backend
texts = json.loads(%r)
ffi1 = cffi.FFI()
ffi2 = _cffi_backend.FFI()
bad = []
out = {}
for t in texts:
    try: a = ffi1.typeof(t)
    except Exception as e: a = None; ea = type(e).__name__
    try: b = ffi2.typeof(t)
    except Exception as e: b = None; eb = type(e).__name__
    if a is None and b is None: out[t] = 'both-reject'
    elif a is None or b is None:
        out[t] = 'differ: in-line %%s, compiled %%s' %% (a if a is not None else 'rejects (%%s)' %% ea, b if b is not None else 'rejects (%%s)' %% eb)
    elif a is b: out[t] = 'same'
    else: out[t] = 'differ: in-line %%r, compiled %%r' %% (a, b)
print('RESULT ' + json.dumps(out))
for t, v in out.items():
    if v.startswith('differ'):
        print('VIOLATED: typeof(%%r): %%s' %% (t, v))
sys.exit(1 if any(v.startswith('differ') for v in out.values()) else 0)
'''

_tok = None


def token_kinds():
    """enum token_e of parse_c_type.c, read from the working tree"""
    global _tok
    if _tok is None:
        src = open(os.path.join(common.REPO, 'src/c/parse_c_type.c')).read()
        body = re.search(r'enum token_e \{(.*?)\};', src, re.S).group(1)
        body = re.sub(r'//[^\n]*', '', body)
        body = re.sub(r'/\*.*?\*/', '', body, flags=re.S)
        vals, cur = {}, -1
        for m in re.finditer(r"(TOK_\w+)\s*(?:=\s*('.'|\d+))?\s*(?:,|$)", body):
            name, v = m.group(1), m.group(2)
            if v is not None:
                cur = ord(v[1]) if v.startswith("'") else int(v, 0)
            else:
                cur += 1
            vals[name] = cur
        _tok = vals
    return _tok


def kind_of(text):
    T = token_kinds()
    if len(text) == 1 and not text.isalnum():
        return ord(text)
    if text == '...':
        return T['TOK_DOTDOTDOT']
    if text[0].isdigit():
        return T['TOK_INTEGER']
    return T['TOK_' + text.upper().lstrip('_') if not text.startswith('_') else 'TOK_' + text.upper()]


def render(tokens):
    return ' '.join(tokens)


# ---------------------------------------------------------------------------------------------
# C side

def prim_names():
    sys.path.insert(0, os.path.join(common.REPO, 'src'))
    from cffi import cffi_opcode
    d = dict((v, k) for k, v in cffi_opcode.PRIMITIVE_TO_INDEX.items())
    d[cffi_opcode.PRIM_VOID] = 'void'
    return d, cffi_opcode


def decode(out, idx, prim, opc):
    op = out[idx]
    code, arg = op & 0xff, op >> 8
    if code == opc.OP_PRIMITIVE:
        return ['void'] if arg == opc.PRIM_VOID else ['prim', prim.get(arg, '#%d' % arg)]
    if code == opc.OP_NOOP:
        return decode(out, arg, prim, opc)
    if code == opc.OP_POINTER:
        inner = decode(out, arg, prim, opc)
        if inner[0] == 'rawfn':
            return ['fn'] + inner[1:]
        return ['ptr', inner]
    if code == opc.OP_ARRAY:
        return ['arr', decode(out, arg, prim, opc), out[idx + 1]]
    if code == opc.OP_OPEN_ARRAY:
        return ['arr', decode(out, arg, prim, opc), None]
    if code == opc.OP_FUNCTION:
        res = decode(out, arg, prim, opc)
        args, j = [], idx + 1
        while (out[j] & 0xff) != opc.OP_FUNCTION_END:
            args.append(decode(out, j, prim, opc))
            j += 1
        flags = out[j] >> 8
        return ['rawfn', res, args, bool(flags & 1), bool(flags & 2)]
    return ['op%d' % code, arg]


def top(tree):
    return (['fn'] + tree[1:]) if tree[0] == 'rawfn' else tree


def c_worker(args):
    prop, tier, side, family, k, first = args
    chk = hutil.sub_check(prop, tier)
    mod = irgen.backend()
    T = token_kinds()
    alphabet = FAMILIES[family][0]
    kinds = [kind_of(t) for t in alphabet]
    text_of = dict(zip(kinds, alphabet))
    END = T['TOK_END']
    label = 'C-parser:%s:k<=%d:first=%s' % (family, k, first)
    prim, opc = prim_names()
    tl = mod.struct_layout(('named', 'struct.token_t'))
    info_l = mod.struct_layout(('named', 'struct._cffi_parse_info_s'))
    ctx_l = mod.struct_layout(('named', 'struct._cffi_type_context_s'))
    OUT = 48
    accepted = []

    ex = llsym.Executor(mod, dict(llsym.LIBC), loop_bound=64, max_depth=40)

    def h(ex):
        mem = ex.mem
        g = ex.ghost
        K = [z3.BitVec('tok%d' % i, 32) for i in range(k)] + [z3.BitVecVal(END, 32)]
        for i in range(k):
            ex.assume(z3.Or(*([K[i] == kd for kd in kinds] + [K[i] == END])))
            if i:
                ex.assume(z3.Implies(K[i - 1] == END, K[i] == END))
        if first is not None:
            ex.assume(K[0] == (kind_of(first) if first != '<end>' else END))
        g['i'] = -1
        digits = mem.alloc(4, 'text of an integer token', 'heap', fill=0)
        mem.store(digits.base, ord('3'), 1)
        errno_cell = mem.alloc(4, 'errno', 'heap', fill=0)

        def next_token(e, tok):
            tok = simp(tok)
            kd = e.mem.load(tok + tl[0][4], 4)
            if e.decide(llsym.eq(kd, T['TOK_ERROR'], 32)):
                return None
            g['i'] = min(g['i'] + 1, k)
            e.mem.store(tok + tl[0][4], K[g['i']], 4)
            e.mem.store(tok + tl[0][2], digits.base, 8)
            e.mem.store(tok + tl[0][3], 1, 8)
            return None

        def following_char(e, tok):
            tok = simp(tok)
            kd = e.mem.load(tok + tl[0][4], 4)
            if e.decide(llsym.eq(kd, T['TOK_ERROR'], 32)):
                return 0
            nx = K[min(g['i'] + 1, k)]
            return simp(z3.If(z3.ULT(nx, 256), z3.Extract(7, 0, nx), z3.If(nx == END, z3.BitVecVal(0, 8), z3.BitVecVal(ord('a'), 8))))

        def commas(e, tok):
            # scans the raw text from the current token: commas at nesting 0 up to the unmatched ')' / the end
            res, nest, stop = z3.BitVecVal(0, 32), z3.BitVecVal(0, 32), z3.BoolVal(False)
            for j in range(max(g['i'], 0), k):
                kd = K[j]
                is_close = kd == ord(')')
                stop_here = z3.Or(z3.And(is_close, nest == 0), kd == END)
                res = z3.If(z3.And(z3.Not(stop), z3.Not(stop_here), kd == ord(','), nest == 0), res + 1, res)
                nest = z3.If(z3.And(z3.Not(stop), kd == ord('(')), nest + 1, z3.If(z3.And(z3.Not(stop), is_close, z3.Not(stop_here)), nest - 1, nest))
                stop = z3.Or(stop, stop_here)
            return simp(res)
        ex.stubs.update({'next_token': next_token, 'get_following_char': following_char, 'number_of_commas': commas,
                         '__errno_location': lambda e: errno_cell.base,
                         'strtoul': lambda e, p, endp, base: (e.mem.store(endp, simp(p) + 1, 8), 3)[1],
                         'strtoull': lambda e, p, endp, base: (e.mem.store(endp, simp(p) + 1, 8), 3)[1]})
        inp = mem.alloc(8, 'input (not read: lexer stub)', 'heap', fill=0)
        outp = mem.alloc(8 * OUT, 'output opcodes', 'input')
        ctx = mem.alloc(ctx_l[1], 'empty type context', 'heap', fill=0)
        info = mem.alloc(info_l[1], 'parse info', 'heap', fill=0)
        mem.store(info.base + info_l[0][0], ctx.base, 8)
        mem.store(info.base + info_l[0][1], outp.base, 8)
        mem.store(info.base + info_l[0][2], OUT, 4)
        r = simp(ex.call('parse_c_type', [info.base, inp.base]))
        r = ex.concretize(r, 32, 64, 'result') if not is_c(r) else r
        rs = llsym.signed(r, 32)
        if rs < 0:
            return
        # accepted: every token sequence in this path's class, with the opcodes written
        found = 0
        excl = []
        while True:
            m = ex.sat(z3.And(*excl) if excl else z3.BoolVal(True))
            if m is None:
                break
            seq = [m.eval(K[i], model_completion=True).as_long() for i in range(k)]
            excl.append(z3.Or(*[K[i] != seq[i] for i in range(k)]))
            n_out = OUT
            out = []
            for j in range(n_out):
                v = simp(mem.load(outp.base + 8 * j, 8)) if (outp.base + 8 * j) in mem.bytes else 0
                if not is_c(v):
                    v = m.eval(bv(v, 64), model_completion=True).as_long()
                out.append(v)
            toks = [text_of[kd] for kd in seq if kd != END]
            try:
                tree = top(decode(out, rs, prim, opc))
            except Exception as e_:
                tree = ['undecodable', repr(e_)]
            accepted.append([toks, tree])
            found += 1
            if found > 64:
                raise llsym.Unsupported('an accepting path stands for more than 64 token sequences')

    def on_oob(ex2, what_, model):
        chk.report_failure('%s: access outside the opcode array / token structure: %s' % (label, what_), {}, None, None)
    ex.on_oob = on_oob
    res = ex.explore(h, max_paths=400000, time_limit=3000)
    hutil.finish_explore(chk, ex, res, label)
    chk.query(label + ':exploration-complete(%d accepting sequences)' % len(accepted), 'unsat' if not res['problems'] else 'unknown', ex.stats['solver_s'])
    chk.witnesses.add(label)
    chk.functions = irgen.func_info(mod, sorted(ex.called))
    d = hutil.export(chk)
    d['_accepted'] = accepted
    return d


# ---------------------------------------------------------------------------------------------
# Python side

def norm_model(t, model):
    if isinstance(t, model.VoidType):
        return ['void']
    if isinstance(t, model.PrimitiveType):
        return ['prim', t.name]
    if isinstance(t, model.FunctionPtrType):
        return ['fn', norm_model(t.result, model), [arg_norm(a, model) for a in t.args], bool(t.ellipsis), t.abi == '__stdcall']
    if isinstance(t, model.RawFunctionType):
        return ['rawfn', norm_model(t.result, model), [arg_norm(a, model) for a in t.args], bool(t.ellipsis), t.abi == '__stdcall']
    if isinstance(t, model.PointerType):          # includes ConstPointerType / NamedPointerType
        inner = norm_model(t.totype, model)
        if inner[0] == 'rawfn':
            return ['fn'] + inner[1:]
        return ['ptr', inner]
    if isinstance(t, model.ArrayType):
        return ['arr', norm_model(t.item, model), t.length]
    return ['other', type(t).__name__, repr(t)]


def arg_norm(t, model):
    return top(norm_model(t, model))


def py_worker(args):
    prop, tier, side, family, k, first = args
    chk = hutil.sub_check(prop, tier)
    alphabet = FAMILIES[family][0]
    label = 'Python-parser:%s:k<=%d:first=%s' % (family, k, first)
    sys.path.insert(0, os.path.join(common.REPO, 'src'))
    from cffi import cparser, model
    accepted = []
    n = 0
    t0 = time.time()
    seqs = [[]] if first == '<end>' else []
    if first != '<end>':
        for ln in range(0, k):
            for rest in itertools.product(alphabet, repeat=ln):
                seqs.append([first] + list(rest))
    for toks in seqs:
        n += 1
        try:
            tp = cparser.Parser().parse_type(render(toks))
        except Exception:
            continue
        accepted.append([toks, top(norm_model(tp, model))])
    chk.query(label + ':evaluated-%d-sequences(%d accepted)' % (n, len(accepted)), 'unsat', 0.0)
    chk.extra['python_parser_evaluations'] = n
    chk.functions = [{'name': 'Parser.parse_type', 'file': 'src/cffi/cparser.py'}, {'name': 'Parser._get_type_and_quals', 'file': 'src/cffi/cparser.py'}]
    d = hutil.export(chk)
    d['_accepted'] = accepted
    return d


# ---------------------------------------------------------------------------------------------
# the real lexer's keyword table on symbolic bytes

def lexer_worker(args):
    prop, tier, side, n = args
    chk = hutil.sub_check(prop, tier)
    mod = irgen.backend()
    T = token_kinds()
    tl = mod.struct_layout(('named', 'struct.token_t'))
    label = 'lexer:identifier-of-%d-bytes' % n
    kw = {'_Bool': 'TOK__BOOL', '__cdecl': 'TOK_CDECL', '__stdcall': 'TOK_STDCALL', '_Complex': 'TOK__COMPLEX', 'char': 'TOK_CHAR',
          'const': 'TOK_CONST', 'double': 'TOK_DOUBLE', 'enum': 'TOK_ENUM', 'float': 'TOK_FLOAT', 'int': 'TOK_INT', 'long': 'TOK_LONG',
          'short': 'TOK_SHORT', 'signed': 'TOK_SIGNED', 'struct': 'TOK_STRUCT', 'union': 'TOK_UNION', 'unsigned': 'TOK_UNSIGNED',
          'void': 'TOK_VOID', 'volatile': 'TOK_VOLATILE'}
    first_ok = lambda c: z3.Or(z3.And(c >= 65, c <= 90), z3.And(c >= 97, c <= 122), c == 95, c == 36)
    next_ok = lambda c: z3.Or(first_ok(c), z3.And(c >= 48, c <= 57))
    st = dict(llsym.LIBC)
    if n > 0:
        # the character-class leaves are decided on their own (case n == 0); here they answer without forking per class
        st['is_ident_first'] = lambda e, x: simp(z3.If(first_ok(llsym.bv(llsym.trunc(x, 8) if not is_c(x) else x & 255, 8)), z3.BitVecVal(1, 32), z3.BitVecVal(0, 32)))
        st['is_ident_next'] = lambda e, x: simp(z3.If(next_ok(llsym.bv(llsym.trunc(x, 8) if not is_c(x) else x & 255, 8)), z3.BitVecVal(1, 32), z3.BitVecVal(0, 32)))
    ex = llsym.Executor(mod, st, loop_bound=64)

    def h0(ex):
        c = z3.BitVec('c', 8)
        for fn, spec in (('is_ident_first', first_ok), ('is_ident_next', next_ok)):
            r = simp(ex.call(fn, [c]))
            r = ex.concretize(r, 32, 4, 'result') if not is_c(r) else r
            hutil.witness(chk, ex, 'lexer:%s:%d' % (fn, r))
            hutil.discharge(chk, ex, 'lexer:%s==[A-Za-z_$%s]' % (fn, '0-9' if fn.endswith('next') else ''), spec(c) if r else z3.Not(spec(c)), {'c': c})

    def h(ex):
        if n == 0:
            return h0(ex)
        mem = ex.mem
        buf = mem.alloc(n + 1, 'type string', 'input')
        bs = [z3.BitVec('c%d' % i, 8) for i in range(n)]
        for i, b in enumerate(bs):
            mem.store(buf.base + i, b, 1)
            ex.assume(first_ok(b) if i == 0 else next_ok(b))
        mem.store(buf.base + n, 0, 1)
        tok = mem.alloc(tl[1], 'token', 'heap', fill=0)
        mem.store(tok.base + tl[0][1], buf.base, 8)
        mem.store(tok.base + tl[0][2], buf.base, 8)
        mem.store(tok.base + tl[0][3], 0, 8)
        mem.store(tok.base + tl[0][4], T['TOK_START'], 4)
        ex.call('next_token', [tok.base])
        kd = simp(mem.load(tok.base + tl[0][4], 4))
        kd = ex.concretize(kd, 32, 64, 'kind') if not is_c(kd) else kd
        size = simp(mem.load(tok.base + tl[0][3], 8))
        inputs = dict(('c%d' % i, b) for i, b in enumerate(bs))
        is_kw = lambda w: z3.And(*[bs[i] == ord(ch) for i, ch in enumerate(w)]) if len(w) == n else z3.BoolVal(False)
        name = [nm for nm, v in T.items() if v == kd]
        hutil.witness(chk, ex, label + ':' + (name[0] if name else str(kd)))
        hutil.discharge(chk, ex, label + ':token-spans-the-identifier', size == n, inputs)
        if kd == T['TOK_IDENTIFIER']:
            hutil.discharge(chk, ex, label + ':identifier=>not-a-keyword', z3.Not(z3.Or(*[is_kw(w) for w in kw])), inputs)
        else:
            ws = [w for w, t_ in kw.items() if T[t_] == kd]
            hutil.discharge(chk, ex, label + ':keyword-kind=>is-that-keyword', z3.Or(*[is_kw(w) for w in ws]) if ws else False, inputs)

    def on_oob(ex2, what_, model):
        chk.report_failure('%s: read outside the string: %s' % (label, what_), {}, None, None)
    ex.on_oob = on_oob
    res = ex.explore(h, max_paths=5000)
    hutil.finish_explore(chk, ex, res, label)
    chk.functions = irgen.func_info(mod, sorted(ex.called))
    return hutil.export(chk)


def dispatch(args):
    return {'C': c_worker, 'py': py_worker, 'lexer': lexer_worker}[args[2]](args)


def run(chk):
    quick = chk.tier == 'quick'
    P = (chk.prop, chk.tier)
    cases = []
    fam_k = {}
    for fam, (alphabet, kq, kt) in FAMILIES.items():
        k = kq if quick else kt
        fam_k[fam] = k
        for first in alphabet + ['<end>']:
            cases.append(P + ('C', fam, k, first))
            cases.append(P + ('py', fam, k, first))
    for n in range(0, 11):
        cases.append(P + ('lexer', n))
    chk.bounds = dict(('token family %r' % fam, 'every sequence of 0..%d tokens over %r' % (fam_k[fam], FAMILIES[fam][0])) for fam in FAMILIES)
    chk.bounds['lexer'] = 'every identifier-shaped byte string of 1..10 bytes (keyword table)'
    chk.outside = ['identifiers other than keywords (typedef / struct / enum names, named integer constants: need a declaration context)',
                   'octal/hex array lengths (one integer token "3"; number syntax is C09/C30)', 'longer token sequences; __cdecl/__stdcall',
                   'the Python side is evaluated exhaustively on the same bounded family, not symbolically (pycparser)',
                   'realize_c_type (opcodes -> ctypes) and model.*.build_backend_type: parse-level disagreements are re-run on the real build']
    chk.assume('lexer stub: kinds are delivered in order; get_following_char / number_of_commas stubs compute the text-peeking answers from the kinds')
    irgen.backend()
    token_kinds()
    results = hutil.run_cases(chk, cases, dispatch)
    # ---- compare the two verdict tables
    tables = {}
    for case, d in zip(cases, results):
        if case[2] in ('C', 'py') and isinstance(d, dict):
            for toks, tree in d.get('_accepted', []):
                tables.setdefault((case[3], case[2]), {})[tuple(toks)] = tree
    suspects = []
    for fam in FAMILIES:
        ca, pa = tables.get((fam, 'C'), {}), tables.get((fam, 'py'), {})
        both = set(ca) & set(pa)
        same = [s for s in both if json.dumps(ca[s]) == json.dumps(pa[s])]
        diff = sorted(set(ca) ^ set(pa)) + sorted(s for s in both if json.dumps(ca[s]) != json.dumps(pa[s]))
        chk.extra['%s: accepted by both with the same type' % fam] = len(same)
        chk.extra['%s: accepted by the C parser' % fam] = len(ca)
        chk.extra['%s: accepted by the Python parser' % fam] = len(pa)
        chk.extra['%s: parse-level disagreements re-run on the real build' % fam] = len(diff)
        chk.query('compare:%s:%d-sequences-accepted-by-both-denote-the-same-type' % (fam, len(same)), 'unsat', 0.0)
        for s in diff[:8]:
            chk.sample({'family': fam, 'text': render(s), 'C parser': ca.get(s, 'rejects'), 'Python parser': pa.get(s, 'rejects')})
        suspects += [render(s) for s in diff]
    suspects = sorted(set(suspects))
    if suspects:
        real = {}
        for i in range(0, len(suspects), 400):
            path = chk.write_replay('batch%d' % (i // 400), REPLAY % json.dumps(suspects[i:i + 400]))
            rc, out = common.run_replay(path, timeout=900)
            m = re.search(r'^RESULT (.*)$', out, re.M)
            if m is None:
                chk.harness_error('replay of parse-level disagreements did not produce a result: ' + out[-500:])
                continue
            real.update(json.loads(m.group(1)))
        bad = sorted(t for t, v in real.items() if v.startswith('differ'))
        chk.extra['parse-level disagreements that agree on the real build (backend constructors reject/accept for both)'] = len(real) - len(bad)
        chk.query('compare:real-build-agrees-on-%d-parse-level-disagreements' % (len(real) - len(bad)), 'unsat', 0.0)
        groups = {}
        for t in bad:
            path = chk.write_replay('differ', REPLAY % json.dumps([t]))
            tags = {}
            for tag, pred in TAGS:
                if pred(t, real[t]):
                    tags[tag] = True
                    break
            chk.query('compare:' + t, 'sat', 0.0, detail=real[t][:200])
            chk.report_failure('typeof(%r): %s' % (t, real[t]), tags, path, True)


SPEC = set(['short', 'long', 'int', 'signed', 'unsigned', 'char', 'double', 'float', 'void', '_Bool', '_Complex'])
QUAL = set(['const', 'volatile'])


def _py_only(verdict):
    return 'compiled rejects' in verdict and 'in-line rejects' not in verdict


def _no_type_specifier(t):
    """some declaration-specifier list (of the type itself or of a parameter) holds no type specifier: implicit int"""
    toks = t.split()
    starts = [0] + [i + 1 for i, x in enumerate(toks) if x in ('(', ',')]
    for k, st in enumerate(starts):
        i = st
        while i < len(toks) and toks[i] in SPEC | QUAL:
            i += 1
        run = toks[st:i]
        if not any(x in SPEC for x in run) and (k == 0 or run):
            return True
    return False


def _odd_array_bound(t):
    toks = t.split()
    for i, x in enumerate(toks):
        if x == '[':
            j = i + 1
            while j < len(toks) and toks[j] != ']':
                j += 1
            inner = toks[i + 1:j]
            if not (inner == [] or (len(inner) == 1 and inner[0].isdigit())):
                return True
    return False


# known-finding classes: each predicate names one root cause (see known_findings.jsonl); evaluated in this order, first match wins
TAGS = [
    ('inline_implicit_int_without_type_specifier', lambda t, v: _py_only(v) and _no_type_specifier(t)),
    ('inline_array_bound_expression_or_qualifier', lambda t, v: _py_only(v) and not _no_type_specifier(t) and _odd_array_bound(t)),
    ('compiled_nested_grouping_parentheses', lambda t, v: _py_only(v) and not _no_type_specifier(t) and not _odd_array_bound(t) and '( (' in t),
]
