"""C32 -- verify() module names are deterministic and input-sensitive.

pysym on the real ffiplatform.flatten/_flatten and Verifier.__init__ (key construction and k1/k2
name formatting).  String leaves are `Tok` values: real str-subclass instances carrying a sentinel
that stands for a symbolic string (every ASCII string of a given length), so that the real
'%ds%s' % formatting, str.join, sorted() (through overridden comparisons) all run; the produced text
is expanded back into a symbolic character list and compared by z3.
Obligations
  (1) flatten is injective on bounded value shapes: for every pair of shapes, equal flattenings imply
      equal values (shape and every leaf);
  (2) flatten(dict) is independent of insertion order (every permutation of <= 3 keys);
  (3) the key is injective in (preamble, cdef sources) for components without NUL;
  (4) the name is injective in the two CRC values (formatting executed on symbolic 32-bit values).
CRC32 itself is uninterpreted (fresh symbolic 32-bit values).
"""
import os, sys, json, itertools
import z3
from vf import common, llsym, pysym, symstr, hutil
from vf.symstr import Tok, SymStr, expand
from harness.C23 import sym_eq

INTS = [0, 7, -1, 10, 123]


def shapes(quick):
    """shape descriptors: ('s', n) str of length n | ('i', value) | ('l', [shapes]) | ('t', [shapes]) |
    ('d', [(keylen, shape)])"""
    leaves = [('s', 0), ('s', 1), ('s', 2), ('i', 0), ('i', 7), ('i', -1), ('i', 10)]
    if not quick:
        leaves += [('s', 3), ('i', 123)]
    out = list(leaves)
    small = [('s', 0), ('s', 1), ('i', 7), ('i', 10)]
    out.append(('l', []))
    for a in leaves:
        out.append(('l', [a]))
    for a in small:
        for b in small:
            out.append(('l', [a, b]))
    out.append(('d', []))
    for a in small:
        out.append(('d', [(1, a)]))
    out.append(('d', [(1, ('s', 1)), (1, ('s', 0))]))
    out.append(('l', [('l', [('s', 1)])]))
    out.append(('l', [('d', [(1, ('s', 0))])]))
    return out


def build(ex, shape, prefix):
    """-> (python value with Tok leaves, list of leaf SymStr in order)"""
    k = shape[0]
    if k == 's':
        s = SymStr.fresh(ex, prefix, shape[1]) if shape[1] else SymStr(ex, [])
        return Tok(s), [s]
    if k == 'i':
        return shape[1], []
    if k in ('l', 't'):
        vals, leaves = [], []
        for j, sub in enumerate(shape[1]):
            v, lv = build(ex, sub, '%s.%d' % (prefix, j))
            vals.append(v)
            leaves += lv
        return (vals if k == 'l' else tuple(vals)), leaves
    d, leaves = {}, []
    keys = []
    for j, (kl, sub) in enumerate(shape[1]):
        ks = SymStr.fresh(ex, '%s.k%d' % (prefix, j), kl)
        for c in ks.chars:
            ex.assume(z3.Or(c == 97, c == 98, c == 99))       # keys over {a,b,c}: they are hashed
        v, lv = build(ex, sub, '%s.v%d' % (prefix, j))
        keys.append(ks)
        d[Tok(ks)] = v
        leaves += [ks] + lv
    for a, b in itertools.combinations(keys, 2):
        ex.assume(z3.Not(a._eq_term(b)))
    return d, leaves


def flat_worker(args):
    prop, tier, kind, ia, ib = args
    sys.path.insert(0, os.path.join(common.REPO, 'src'))
    chk = hutil.sub_check(prop, tier)
    from cffi import ffiplatform
    quick = tier == 'quick'
    S = shapes(quick)
    ex = pysym.PyExplorer()
    # ia: index of the first shape; this worker handles all pairs (ia, j >= ia)
    A = S[ia]
    label = 'flatten-shape%d' % ia

    def h(ex):
        Tok.reset()
        j = ex.ghost_j
        B = S[j]
        x, lx = build(ex, A, 'x')
        y, ly = build(ex, B, 'y')
        fx = expand(ex, ffiplatform.flatten(x))
        fy = expand(ex, ffiplatform.flatten(y))
        name = '%s-vs-%d' % (label, j)
        same_shape = (A == B)
        eq_out = sym_eq(fx, fy)
        if same_shape:
            leaves_eq = llsym.b_and(*[a._eq_term(b) for a, b in zip(lx, ly)]) if lx else True
            hutil.witness(chk, ex, name + ':same-shape')
            if A[0] == 'd' and len(A[1]) > 1:
                # equal dicts may list their keys in a different order: compare as mappings
                return
            hutil.discharge(chk, ex, name + ':equal-flattening=>equal-leaves',
                            llsym.b_or(llsym.b_not(eq_out), leaves_eq), {})
        else:
            hutil.witness(chk, ex, name + ':different-shapes')
            hutil.discharge(chk, ex, name + ':different-shapes=>different-flattening', llsym.b_not(eq_out), {})

    for j in range(ia, len(S)):
        ex.ghost_j = j
        res = ex.explore(h, max_paths=5000)
        hutil.finish_explore(chk, ex, res, '%s-vs-%d' % (label, j))
    return hutil.export(chk)


def order_worker(args):
    prop, tier, kind, nkeys, perm = args
    sys.path.insert(0, os.path.join(common.REPO, 'src'))
    chk = hutil.sub_check(prop, tier)
    from cffi import ffiplatform
    ex = pysym.PyExplorer()
    label = 'dict-order-%d-keys-%s' % (nkeys, ''.join(map(str, perm)))

    def h(ex):
        Tok.reset()
        keys = []
        for j in range(nkeys):
            ks = SymStr.fresh(ex, 'k%d' % j, 2)
            for c in ks.chars:
                ex.assume(z3.Or(c == 97, c == 98))
            keys.append(ks)
        for a, b in itertools.combinations(keys, 2):
            ex.assume(z3.Not(a._eq_term(b)))
        vals = [Tok(SymStr.fresh(ex, 'v%d' % j, 1)) for j in range(nkeys)]
        toks = [Tok(k) for k in keys]
        d1 = {}
        for j in range(nkeys):
            d1[toks[j]] = vals[j]
        d2 = {}
        for j in perm:
            d2[toks[j]] = vals[j]
        f1 = expand(ex, ffiplatform.flatten({'kw': d1, 'z': [d1]}))
        f2 = expand(ex, ffiplatform.flatten({'z': [d2], 'kw': d2}))
        m = hutil.witness(chk, ex, label)
        if m is not None and len(chk.samples) < 4:
            chk.sample({'keys': [k.concrete(m) for k in keys], 'flattened': f1.concrete(m) if isinstance(f1, SymStr) else f1})
        hutil.discharge(chk, ex, label + ':same-text-for-every-insertion-order', sym_eq(f1, f2), {})

    res = ex.explore(h, max_paths=20000)
    hutil.finish_explore(chk, ex, res, label)
    return hutil.export(chk)


def key_worker(args):
    prop, tier, kind, shapeA, shapeB = args
    sys.path.insert(0, os.path.join(common.REPO, 'src'))
    chk = hutil.sub_check(prop, tier)
    from cffi import verifier, ffiplatform
    ex = pysym.PyExplorer()
    label = 'key-%s-vs-%s' % (shapeA, shapeB)

    class Engine(object):
        _class_key = 'x'

        def __init__(self, v):
            pass

        def patch_extension_kwds(self, kwds):
            pass

    def run_one(ex, pre_len, src_lens, tag, symbolic_crc):
        comps = []
        pre = SymStr.fresh(ex, tag + '.preamble', pre_len) if pre_len else SymStr(ex, [])
        srcs = [SymStr.fresh(ex, '%s.src%d' % (tag, j), n) if n else SymStr(ex, []) for j, n in enumerate(src_lens)]
        calls = []

        class Bin(object):
            @staticmethod
            def crc32(data):
                calls.append(data)
                if not symbolic_crc:
                    return 0x1234 + len(calls)
                v = ex.sym_int('%s.crc%d' % (tag, len(calls)), 'bv')
                ex.assume(z3.And(v.t >= 0, v.t < (1 << 32)))       # crc32() returns an unsigned 32-bit value
                return v

        class FFIStub(object):
            class _parser(object):
                _uses_new_feature = None
            _cdefsources = [Tok(s) for s in srcs]
        saved = (verifier._locate_engine_class, verifier.binascii, verifier._get_so_suffixes)
        verifier._locate_engine_class = lambda ffi, force: Engine
        verifier.binascii = Bin
        verifier._get_so_suffixes = lambda: ['.so']
        verifier.hex = symstr.sym_hex
        try:
            v = verifier.Verifier(FFIStub, Tok(pre), tmpdir='/t')
        finally:
            verifier._locate_engine_class, verifier.binascii, verifier._get_so_suffixes = saved
            del verifier.hex
        even, odd = calls
        raw = bytearray(len(even) + len(odd))
        raw[0::2] = even
        raw[1::2] = odd
        key = expand(ex, bytes(raw).decode('utf-8'))
        name = expand(ex, os.path.basename(v.sourcefilename)[:-2])
        crcs = [ex.sym_int('%s.crc%d' % (tag, j + 1), 'bv').t for j in range(2)]
        return [pre] + srcs, key, name, crcs

    def h(ex):
        Tok.reset()
        name_mode = (shapeA == 'name')
        sa, sb = ((0, ()), (0, ())) if name_mode else (shapeA, shapeB)
        ca, keya, namea, crca = run_one(ex, sa[0], sa[1], 'A', name_mode)
        cb, keyb, nameb, crcb = run_one(ex, sb[0], sb[1], 'B', name_mode)
        if name_mode:
            hutil.witness(chk, ex, 'name:%d-chars' % (len(namea) if isinstance(namea, SymStr) else len(namea)))
            neq = sym_eq(namea, nameb)
            hutil.discharge(chk, ex, 'name:equal-name=>equal-crc-pair',
                            llsym.b_or(llsym.b_not(neq), z3.And(crca[0] == crcb[0], crca[1] == crcb[1])), {})
            return
        has_nul = llsym.b_or(*[c == 0 for s in ca + cb for c in s.chars]) if any(s.chars for s in ca + cb) else False
        same_inputs = (shapeA == shapeB) and llsym.b_and(*[a._eq_term(b) for a, b in zip(ca, cb)])
        if same_inputs is False or shapeA != shapeB:
            same_inputs = False
        hutil.witness(chk, ex, label)
        keq = sym_eq(keya, keyb)
        # (3) injective for NUL-free components
        hutil.discharge(chk, ex, label + ':no-NUL:equal-key=>equal-inputs',
                        llsym.b_or(has_nul, llsym.b_not(keq), same_inputs), {})
        # the NUL case is a known finding when it is satisfiable
        import time
        t0 = time.time()
        m = ex.sat(llsym.b_and(keq, llsym.b_not(same_inputs)))
        chk.query(label + ':with-NUL:equal-key=>equal-inputs', 'unsat' if m is None else 'sat', time.time() - t0)
        if m is not None:
            inst = {'A': [s.concrete(m) for s in ca], 'B': [s.concrete(m) for s in cb]}
            tags = {'nul_inside_key_component': True} if any('\x00' in s for s in inst['A'] + inst['B']) else {}
            ok, script = key_replay(chk, inst)
            chk.report_failure('%s: different inputs %r give the same key' % (label, inst), tags, script, ok)

    res = ex.explore(h, max_paths=20000)
    hutil.finish_explore(chk, ex, res, label)
    return hutil.export(chk)


KEY_REPLAY = r'''
# Replay for C32: two different verify() inputs whose hashed keys coincide.
import sys, json
import cffi
from cffi import verifier
inst = json.loads(%r)
names = []
for comps in (inst['A'], inst['B']):
    ffi = cffi.FFI()
    ffi._cdefsources = list(comps[1:])
    v = verifier.Verifier(ffi, comps[0], tmpdir='/tmp/verif-c32')
    names.append(v.get_module_name())
if inst['A'] != inst['B'] and names[0] == names[1]:
    print('VIOLATED: inputs %%r and %%r share the module name %%s without a CRC collision' %% (inst['A'], inst['B'], names[0]))
    sys.exit(1)
sys.exit(0)
'''


def key_replay(chk, inst):
    path = chk.write_replay('key', KEY_REPLAY % json.dumps(inst))
    rc, out = common.run_replay(path)
    return common.replay_verdict(rc, out), path


def equiv_worker(args):
    """flatten() identifies some distinct inputs by construction: recorded as known findings"""
    prop, tier, kind = args
    sys.path.insert(0, os.path.join(common.REPO, 'src'))
    chk = hutil.sub_check(prop, tier)
    from cffi import ffiplatform
    ex = pysym.PyExplorer()

    def h(ex):
        Tok.reset()
        s = SymStr.fresh(ex, 's', 1)
        a = expand(ex, ffiplatform.flatten({'k': [Tok(s)]}))
        b = expand(ex, ffiplatform.flatten({'k': (Tok(s),)}))
        import time
        for nm, x, y, tag, what in (('list-vs-tuple', a, b, 'list_and_tuple_identified', "{'k': [s]} and {'k': (s,)}"),
                                    ('True-vs-1', ffiplatform.flatten({'k': True}), ffiplatform.flatten({'k': 1}),
                                     'bool_and_int_identified', "{'k': True} and {'k': 1}")):
            t0 = time.time()
            m = ex.sat(sym_eq(x, y))
            chk.query('flatten-%s-distinguished' % nm, 'unsat' if m is None else 'sat', time.time() - t0)
            hutil.witness(chk, ex, 'flatten-' + nm)
            if m is not None:
                chk.report_failure('flatten() gives the same text for the different inputs %s' % what, {tag: True}, None, True)

    res = ex.explore(h, max_paths=100)
    hutil.finish_explore(chk, ex, res, 'flatten-identified-inputs')
    return hutil.export(chk)


def dispatch(args):
    return {'flat': flat_worker, 'order': order_worker, 'key': key_worker, 'equiv': equiv_worker}[args[2]](args)


def run(chk):
    quick = chk.tier == 'quick'
    P = (chk.prop, chk.tier)
    S = shapes(quick)
    cases = [P + ('flat', i, None) for i in range(len(S))]
    for n in (2, 3):
        for perm in itertools.permutations(range(n)):
            cases.append(P + ('order', n, perm))
    comp = [(0, ()), (1, ()), (0, (1,)), (1, (1,)), (0, (1, 1)), (0, (3,)), (2, ()), (0, (2,)), (0, (0, 1)), (3, ()), (1, (0, 1)), (3, (1,))]
    if quick:
        comp = comp[:8]
    for a, b in itertools.combinations_with_replacement(comp, 2):
        cases.append(P + ('key', a, b))
    cases.append(P + ('key', 'name', 'name'))
    cases.append(P + ('equiv',))
    chk.bounds = {'flatten injectivity': '%d value shapes (strs of length <= %d, ints from %r, lists <= 2 items, dicts <= 2 keys, '
                  'one nesting level), all pairs' % (len(S), 2 if quick else 3, INTS), 'string leaves': 'every ASCII string of the length',
                  'dict order': 'every insertion order of 2 and 3 keys (2-character keys over {a,b})',
                  'key': 'preamble <= 3 characters, <= 2 cdef sources of <= 3 characters; kwds fixed to {}',
                  'name': 'any two 32-bit CRC values per input'}
    chk.outside = ['CRC32 itself (uninterpreted)', 'int leaves are taken from a fixed small set (CPython formats them without a hook)',
                   'non-ASCII strings', 'hash-seed independence beyond the sorted() of dict keys', 'the Python version / cffi version components of the key (constants)']
    chk.assume('str leaves are str-subclass tokens: real formatting/join/sort code runs, content decisions go through z3')
    chk.functions = [{'name': 'flatten / _flatten', 'file': 'src/cffi/ffiplatform.py'}, {'name': 'Verifier.__init__', 'file': 'src/cffi/verifier.py'}]
    hutil.run_cases(chk, cases, dispatch)
