"""C26 -- ffi.init_once runs the initializer once under any interleaving.

Rely/guarantee (DESIGN.md 2.4): ONE thread's real code is executed (the Python FFI.init_once through
pysym, the C ffi_init_once through llsym) against an environment that, at every point where another
thread could run, moves the shared state of the tag to ANY state reachable by steps the rely R allows.
Shared state per tag:  absent | pending(L) | done(r);  holder(L) in {none, me, other}.
R (what other threads may do):  absent -> pending(L');  pending(L) -> done(r') only while *I* do not hold
L;  take L when nobody holds it / release their own hold;  a done entry and the lock of a pending entry
never change.
Obligations on my thread: f starts only while I hold L(tag) and the entry is pending(L);  I publish
done(x) only while holding L, over pending(L), with x my own f's result (the *guarantee*: my writes
are R-steps, so R holds for any number of threads and any schedule);  a normal return gives the entry's
done result;  if my f raised the exception propagates and I published nothing;  the lock is released on
every exit path.  Liveness beyond "every acquired lock is released" is by fairness of the locks.
"""
import os, sys, json
import z3
from vf import common, irgen, llsym, pysym, pystubs, hutil
from vf.llsym import bv, simp, mask, is_c


DELETE_REPLAY = r'''
# Replay for C26: the entry of a tag must stay (with its lock) once created.  Real threads, real init_once:
# A's initializer fails while B waits on the tag lock; B takes over; C arrives while B's initializer runs.
import sys, threading, time
which = %r
if which == 'c':
    import _cffi_backend
    ffi = _cffi_backend.FFI()
else:
    import cffi
    ffi = cffi.FFI()
class MyErr(Exception): pass
mu = threading.Lock(); running = [0]; most = [0]; results = {}
a_in, a_fail, b_in, b_go = (threading.Event() for _ in range(4))
def enter():
    with mu:
        running[0] += 1; most[0] = max(most[0], running[0])
def leave():
    with mu: running[0] -= 1
def fA():
    enter(); a_in.set(); a_fail.wait(10); leave(); raise MyErr()
def fB():
    enter(); b_in.set(); b_go.wait(10); leave(); return 'B'
def fC():
    enter(); time.sleep(0.3); leave(); return 'C'
def run(name, f):
    try: results[name] = ffi.init_once(f, 'tag')
    except MyErr: results[name] = 'raised'
tA = threading.Thread(target=run, args=('A', fA)); tA.start(); a_in.wait(10)
tB = threading.Thread(target=run, args=('B', fB)); tB.start(); time.sleep(0.5)
a_fail.set(); b_in.wait(10)
tC = threading.Thread(target=run, args=('C', fC)); tC.start(); time.sleep(1.0)
b_go.set()
for t in (tA, tB, tC): t.join(20)
bad = []
if most[0] > 1: bad.append('%%d initializers of one tag ran at the same time' %% most[0])
if results.get('B') != results.get('C'): bad.append('two callers got different results: %%r' %% (results,))
for b in bad: print('VIOLATED:', b)
sys.exit(1 if bad else 0)
'''


class Env(object):
    """shared state of one tag + the environment's moves"""

    def __init__(self, ex, mk_env_lock, mk_env_result):
        self.ex = ex
        self.entry = None            # None | ('pending', lock) | ('done', result)
        self.holder = 'none'         # who holds the pending entry's lock: none | me | other
        self.lock = None             # the lock of the (first) pending entry: never changes afterwards
        self.n = 0
        self.mk_env_lock, self.mk_env_result = mk_env_lock, mk_env_result
        self.f_running = False
        self.events = []
        self.violations = []

    def choice(self, what):
        self.n += 1
        return self.ex.decide(z3.Bool('env%d_%s' % (self.n, what)))

    def havoc(self, need_free=False):
        """any R-reachable successor; need_free: I am blocked in acquire until the lock is free"""
        e = self.entry
        mine = self.holder == 'me'
        if e is None:
            if self.choice('creates_pending'):
                self.lock = self.mk_env_lock()
                self.entry = ('pending', self.lock)
                self.holder = 'other' if self.choice('holds_lock') else 'none'
        e = self.entry
        if e is not None and e[0] == 'pending' and not mine:
            if self.choice('publishes_done'):
                self.entry = ('done', self.mk_env_result())
                self.holder = 'none' if need_free or self.choice('released') else 'other'
            else:
                self.holder = 'none' if need_free else ('other' if self.choice('holds_lock2') else 'none')
        elif not mine and self.lock is not None:
            # done entry: others may still take/release the (now useless) lock
            self.holder = 'none' if need_free else ('other' if self.choice('holds_lock3') else 'none')

    def bad(self, what):
        self.violations.append(what)

    def deleted(self):
        """the caller removes the tag's entry: other threads blocked on its lock are no longer excluded from
        threads that arrive later and create a new entry"""
        self.events.append('delete')
        self.bad('entry-removed: removes the tag entry (and with it the lock other threads wait on)')
        self.entry = None


_replayed = {}


def check_env(chk, ex, env, label, outcome, my_result, returned, which='py'):
    """obligations at the end of one call"""
    inputs = {}
    for v in env.violations:
        chk.query(label + ':' + v.split(':')[0], 'sat', 0.0, detail=v)
        path, ok = None, None
        if v.startswith('entry-removed'):
            if which not in _replayed:
                path = chk.write_replay('entry-removed', DELETE_REPLAY % which)
                rc, out = common.run_replay(path, timeout=120)
                _replayed[which] = (path, common.replay_verdict(rc, out))
            path, ok = _replayed[which]
        chk.report_failure('%s: %s (events: %s)' % (label, v, ' / '.join(env.events)), {}, path, ok)
    if not env.violations:
        chk.query(label + ':guarantee+mutual-exclusion', 'unsat', 0.0)
    ok_lock = env.holder != 'me'
    chk.query(label + ':lock-released-on-exit', 'unsat' if ok_lock else 'sat', 0.0)
    if not ok_lock:
        chk.report_failure('%s: returns while still holding the tag lock (events: %s)' % (label, ' / '.join(env.events)), {}, None, None)
    if outcome == 'returned':
        ok = env.entry is not None and env.entry[0] == 'done' and returned(env.entry[1])
        chk.query(label + ':returns-the-completed-result', 'unsat' if ok else 'sat', 0.0)
        if not ok:
            chk.report_failure('%s: normal return with entry %r (events: %s)' % (label, env.entry and env.entry[0], ' / '.join(env.events)), {}, None, None)
    elif outcome == 'raised':
        ok = ('f-raised' in env.events) and not any(e.startswith('publish') for e in env.events)
        chk.query(label + ':own-exception-propagates-nothing-cached', 'unsat' if ok else 'sat', 0.0)
        if not ok:
            chk.report_failure('%s: exception outcome inconsistent (events: %s)' % (label, ' / '.join(env.events)), {}, None, None)


def py_worker(args):
    prop, tier, kind = args
    sys.path.insert(0, os.path.join(common.REPO, 'src'))
    chk = hutil.sub_check(prop, tier)
    from cffi import api
    ex = pysym.PyExplorer()
    label = 'python-init_once'

    class MyErr(Exception):
        pass

    def h(ex):
        class Lock(object):
            def __init__(self, owner):
                self.owner = owner

            def acquire(self, *a):
                env.events.append('acquire')
                if env.lock is not self:
                    env.bad('wrong-lock: acquires a lock that is not the tag\'s lock')
                env.havoc(need_free=True)
                env.holder = 'me'
                return True

            def release(self):
                env.events.append('release')
                if env.holder != 'me':
                    env.bad('release-unheld: releases a lock it does not hold')
                env.holder = 'none'

            def __enter__(self):
                self.acquire()
                return self

            def __exit__(self, *a):
                self.release()
                return False

        env = Env(ex, lambda: Lock('env'), lambda: ('env-result', object()))

        class Cache(object):
            def _tuple(self):
                e = env.entry
                return (False, e[1]) if e[0] == 'pending' else (True, e[1])

            def __getitem__(self, tag):
                env.havoc()
                env.events.append('get')
                if env.entry is None:
                    raise KeyError(tag)
                return self._tuple()

            def setdefault(self, tag, value):
                env.havoc()
                env.events.append('setdefault')
                if env.entry is None:
                    if value[0] is not False:
                        env.bad('guarantee: creates a non-pending entry')
                    env.lock = value[1]
                    env.entry = ('pending', value[1])
                return self._tuple()

            def __setitem__(self, tag, value):
                env.havoc()
                env.events.append('publish')
                if not (value[0] is True):
                    env.bad('guarantee: overwrites the entry with a non-result')
                if env.holder != 'me':
                    env.bad('guarantee: publishes the result without holding the tag lock')
                if env.entry is None or env.entry[0] != 'pending':
                    env.bad('guarantee: publishes over an entry that is not pending')
                if value[1] is not my_result:
                    env.bad('guarantee: publishes something else than its own f() result')
                env.entry = ('done', value[1])

            def __delitem__(self, tag):
                env.havoc()
                env.deleted()

            def pop(self, tag, *default):
                env.havoc()
                e = env.entry
                env.deleted()
                return self._tuple_of(e) if e is not None else (default[0] if default else None)

            def _tuple_of(self, e):
                return (False, e[1]) if e[0] == 'pending' else (True, e[1])

        my_result = ('my-result', object())
        raises = ex.decide(z3.Bool('f_raises'))

        def f():
            env.events.append('f-start')
            if env.holder != 'me':
                env.bad('mutual-exclusion: f starts without holding the tag lock')
            if env.entry is None or env.entry[0] != 'pending':
                env.bad('once: f starts although the entry is %s' % (env.entry and env.entry[0]))
            env.havoc()          # other threads run while f runs
            if raises:
                env.events.append('f-raised')
                raise MyErr()
            env.events.append('f-done')
            return my_result

        ffi = api.FFI.__new__(api.FFI)
        ffi._init_once_cache = Cache()
        saved = api.allocate_lock
        api.allocate_lock = lambda: Lock('me')
        try:
            try:
                r = ffi.init_once(f, 'tag')
                outcome = 'returned'
            except MyErr:
                r, outcome = None, 'raised'
        finally:
            api.allocate_lock = saved
        env.havoc()
        name = '%s:%s:%s' % (label, outcome, 'f-ran' if 'f-start' in env.events else 'f-not-run')
        hutil.witness(chk, ex, name)
        if len(chk.samples) < 8:
            chk.sample({'schedule (my operations, environment moves interleaved)': list(env.events), 'outcome': outcome})
        check_env(chk, ex, env, name, outcome, my_result, lambda res: r is res)

    res = ex.explore(h, max_paths=50000)
    hutil.finish_explore(chk, ex, res, label)
    chk.functions = [{'name': 'FFI.init_once', 'file': 'src/cffi/api.py'}]
    return hutil.export(chk)


def c_worker(args):
    prop, tier, kind = args
    chk = hutil.sub_check(prop, tier)
    mod = irgen.backend()
    L = pystubs.CffiLayout(mod)
    label = 'C-ffi_init_once'
    ex = llsym.Executor(mod, pystubs.stubs(), loop_bound=16)

    def h(ex):
        py = pystubs.PyEnv(ex)
        T, Fa = ex.gaddr('_Py_TrueStruct'), ex.gaddr('_Py_FalseStruct')
        locks = {}

        def new_lock(owner):
            r = ex.mem.alloc(8, 'PyThread lock (%s)' % owner, 'heap', fill=0)
            cap = py.new_opaque('capsule', lock=r.base)
            locks[r.base] = cap
            return cap

        def env_lock():
            return new_lock('env')
        env = Env(ex, env_lock, lambda: py.new_opaque('env-result'))
        tuples = {}

        def entry_tuple():
            e = env.entry
            key = (e[0], e[1])
            if key not in tuples:
                tuples[key] = py.new_tuple([Fa if e[0] == 'pending' else T, e[1]])
            return tuples[key]

        def lock_of(cap):
            return py.info(cap)['lock']
        func = py.new_opaque('callable')
        tag = py.new_opaque('tag')
        cache = py.new_opaque('dict')
        my_result = py.new_opaque('my-result')
        raises = ex.decide(z3.Bool('f_raises'))
        ffi = py.new_obj('ffi', 'FFI_Type', 256)
        # locate init_once_cache in FFIObject through the IR type
        offs = mod.struct_layout(('named', 'struct.FFIObject_s'))[0]
        ftypes = mod.resolve(('named', 'struct.FFIObject_s'))[1]
        g = ex.ghost
        g['cache_slot'] = None

        def parse(ex2, a_, k_, fmt, kw, *outs):
            ex2.mem.store(outs[0], func, 8)
            ex2.mem.store(outs[1], tag, 8)
            return 1

        def getitem_err(ex2, d, k):
            env.havoc()
            env.events.append('get')
            return 0 if env.entry is None else entry_tuple()

        def getitem(ex2, d, k):
            return getitem_err(ex2, d, k)

        def callmethod(ex2, obj, name, fmt, *a):
            env.havoc()
            env.events.append('setdefault')
            tagarg, x = simp(a[0]), simp(a[1])
            if env.entry is None:
                items = py.info(x)['items']
                if simp(items[0]) != Fa:
                    env.bad('guarantee: creates a non-pending entry')
                env.lock = simp(items[1])
                env.entry = ('pending', env.lock)
                tuples[('pending', env.lock)] = x
                ex2.mem.store(x, simp(ex2.mem.load(x, 8)) + 1, 8)      # new reference
                return x
            t = entry_tuple()
            ex2.mem.store(t, simp(ex2.mem.load(t, 8)) + 1, 8)
            return t

        def setitem(ex2, d, k, v):
            env.havoc()
            env.events.append('publish')
            items = [simp(x) for x in py.info(v)['items']]
            if items[0] != T:
                env.bad('guarantee: overwrites the entry with a non-result')
            if env.holder != 'me':
                env.bad('guarantee: publishes the result without holding the tag lock')
            if env.entry is None or env.entry[0] != 'pending':
                env.bad('guarantee: publishes over an entry that is not pending')
            if items[1] != my_result:
                env.bad('guarantee: publishes something else than its own f() result')
            env.entry = ('done', items[1])
            tuples[('done', items[1])] = simp(v)
            return 0

        def alloc_lock(ex2):
            cap = new_lock('me')
            g['my_lock'] = lock_of(cap)
            g['my_cap'] = cap
            return lock_of(cap)

        def capsule_new(ex2, ptr, name, destr):
            return locks[simp(ptr)]

        def capsule_get(ex2, cap, name):
            return lock_of(simp(cap))

        def acquire(ex2, lock, wait):
            env.events.append('acquire')
            if env.lock is None or lock_of(env.lock) != simp(lock):
                env.bad('wrong-lock: acquires a lock that is not the tag\'s lock')
            env.havoc(need_free=True)
            env.holder = 'me'
            return 1

        def release(ex2, lock):
            env.events.append('release')
            if env.holder != 'me':
                env.bad('release-unheld: releases a lock it does not hold')
            env.holder = 'none'

        def call_f(ex2, fn, fmt, *a):
            env.events.append('f-start')
            if env.holder != 'me':
                env.bad('mutual-exclusion: f starts without holding the tag lock')
            if env.entry is None or env.entry[0] != 'pending':
                env.bad('once: f starts although the entry is %s' % (env.entry and env.entry[0]))
            env.havoc()
            if raises:
                env.events.append('f-raised')
                py.exc = 'MyErr'
                return 0
            env.events.append('f-done')
            ex2.mem.store(my_result, simp(ex2.mem.load(my_result, 8)) + 1, 8)
            return my_result

        def delitem(ex2, d, k):
            env.havoc()
            if env.entry is None:
                py.exc = 'PyExc_KeyError'
                return mask(32)
            env.deleted()
            return 0

        def tuple_pack(ex2, n_, *objs):
            return py.new_tuple([simp(o) for o in objs[:simp(n_)]])
        ex.stubs.update({'_PyArg_ParseTupleAndKeywords_SizeT': parse, 'PyDict_GetItemWithError': getitem_err,
                         'PyDict_GetItem': getitem, '_PyObject_CallMethod_SizeT': callmethod, 'PyDict_SetItem': setitem,
                         'PyThread_allocate_lock': alloc_lock, 'PyThread_free_lock': lambda e, l: None,
                         'PyCapsule_New': capsule_new, 'PyCapsule_GetPointer': capsule_get,
                         'PyThread_acquire_lock': acquire, 'PyThread_release_lock': release,
                         '_PyObject_CallFunction_SizeT': call_f, 'PyTuple_Pack': tuple_pack, 'PyDict_DelItem': delitem,
                         'PyEval_SaveThread': lambda e: (env.havoc() if env.holder != 'me' else None) or 0,
                         'PyEval_RestoreThread': lambda e, t: None,
                         'PyDict_New': lambda e: cache})
        # FFIObject.init_once_cache: find the field by scanning for the store performed on a NULL slot
        for off in range(16, 256, 8):
            ex.mem.store(ffi + off, 0, 8)
        r = simp(ex.call('ffi_init_once', [ffi, 0, 0]))
        env.havoc()
        outcome = 'raised' if (r == 0) else 'returned'
        name = '%s:%s:%s' % (label, outcome, 'f-ran' if 'f-start' in env.events else 'f-not-run')
        hutil.witness(chk, ex, name)
        if len(chk.samples) < 8:
            chk.sample({'schedule (my operations, environment moves interleaved)': list(env.events), 'outcome': outcome})
        if outcome == 'raised' and py.exc != 'MyErr':
            chk.report_failure('%s: fails with %s although f did not raise (events: %s)' % (name, py.exc, ' / '.join(env.events)), {}, None, None)
        check_env(chk, ex, env, name, outcome, my_result, lambda res: r == res, which='c')

    res = ex.explore(h, max_paths=50000)
    hutil.finish_explore(chk, ex, res, label)
    chk.functions = irgen.func_info(mod, sorted(ex.called))
    return hutil.export(chk)


def dispatch(args):
    return {'py': py_worker, 'c': c_worker}[args[2]](args)


def run(chk):
    P = (chk.prop, chk.tier)
    chk.bounds = {'threads': 'one thread of the real code against an arbitrary R-conforming environment (any number of other '
                  'threads, any schedule)', 'initializer': 'returns or raises', 'tags': 'one tag (tags are independent entries)'}
    chk.outside = ['termination beyond "every acquired lock is released on every path" (lock fairness is assumed, as the statement does)',
                   'dict/lock implementations of CPython (modelled by their atomicity contracts)',
                   'tags with a user-defined __eq__/__hash__ that re-enter init_once']
    chk.assume('rely R: others create only pending entries over an absent one, publish done only over pending(L) while holding L, '
               'never change a done entry or the lock of a pending entry')
    chk.assume('dict operations (get, setdefault, setitem) are atomic (GIL / per-object lock); environment moves happen between them, '
               'at lock acquisition and while f runs')
    irgen.backend()
    hutil.run_cases(chk, [P + ('py',), P + ('c',)], dispatch)
