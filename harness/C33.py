"""C33 -- verify() gives the same library behaviour as set_source() (partial: conversions, constants, layout hand-over).

The two builds are produced AT RUN TIME by the working tree from the same (cdef, C source):
  * the C text of the verify() CPython engine (Verifier.write_source -> vengine_cpy, with its own header of conversion
    macros) and of the generic engine (vengine_gen), and
  * the C text of set_source()/emit_c_code (Recompiler, _cffi_include.h),
are compiled to LLVM IR with the backend's flags and executed side by side by llsym against the same backend IR.

  cpy:func    for every function of an identity family (17 integer types/typedefs, _Bool, float, double, two multi-argument
              functions) and EVERY Python argument object (int of any size / double): the vengine_cpy wrapper and the
              Recompiler wrapper accept the same objects, hand the C function the same value, return the same Python value
              and raise the same exception class.
  cpy:const   integer constants whose compiler value is symbolic memory (10 types x checked '#define K <v>' / unchecked
              '#define K ...' / 'static const T K'): vengine_cpy's _cffi_const_K and the Recompiler's _cffi_const_K +
              realize_global_int produce the same Python int, and the checked forms fail in exactly the same cases.
  gen:const   the generic engine: _cffi_const_K(long long *) (llsym) hands out (wrapped value, sign flag) from which the real
              VGenericEngine._load_constant (pysym, symbolic ints) rebuilds exactly the compiler's value -- the value
              set_source() reports (cpy:const's reference).
  gen:func    the generic engine calls its plain C shim through the backend's libffi path; that path against the Recompiler
              wrapper is C13's wrapper obligation, run here on the same family (cross-inclusion).
  layout      partial structs ('...;'): the numbers the C compiler reports (sizeof, alignof, offsets, sizes) reach the
              backend unchanged on both routes: vengine_cpy/_gen `_loaded_*_struct` (pysym on the real Python code with a
              symbolic layout list) sets tp.fixedlayout to exactly those numbers, as do_realize_lazy_struct does for the
              Recompiler (C12); complete structs (layout-check): verify() raises VerificationError iff some reported number
              differs from what cffi computed (symbolic numbers on both sides) -- the condition under which set_source()'s
              module raises (C12).
"""
import os, sys, json, subprocess
import z3
from vf import common, irgen, llsym, pysym, pystubs, hutil
from vf.llsym import bv, simp, mask, is_c
from vf.pystubs import W, V_const
from harness.C13 import INT_TYPES
from harness.C12 import CTYPES, CDEF_VALUES

REPLAY = r'''
# Replay for C33 on the real build: the same cdef/source through ffi.verify() (both engines) and set_source()/compile();
# identity functions and constants must behave identically.
import sys, os, json, tempfile, atexit, shutil, importlib
import cffi
case = json.loads(%r)
d = tempfile.mkdtemp(); atexit.register(shutil.rmtree, d, True)
sys.path.insert(0, d)
T = case.get('ctype', 'int')
cdef = "%%s ident(%%s);\n#define KCHK %%d\n#define KANY ...\n" %% (T, T, case.get('cdef_value', 42))
src = "#include <stdint.h>\n#include <sys/types.h>\nstatic %%s ident(%%s x) { return x; }\n#define KCHK %%s\n#define KANY %%s\n" %% (
    T, T, case.get('compiler_text', '42'), case.get('compiler_text', '42'))
def build(kind):
    ffi = cffi.FFI(); ffi.cdef(cdef)
    try:
        if kind == 'set_source':
            ffi.set_source('_c33_replay_mod', src); ffi.compile(tmpdir=d)
            m = importlib.import_module('_c33_replay_mod'); return m.ffi, m.lib
        return ffi, ffi.verify(src, tmpdir=os.path.join(d, kind), force_generic_engine=(kind == 'generic'))
    except Exception as e:
        return None, type(e).__name__
def obs(f):
    try:
        return ('ok', f())
    except Exception as e:
        return ('exc', 'error' if type(e).__name__ in ('VerificationError', 'FFIError', 'error') else type(e).__name__)
for k in ('cpython', 'generic'):
    os.makedirs(os.path.join(d, k), exist_ok=True)
res = {}
for kind in ('set_source', 'cpython', 'generic'):
    ffi, lib = build(kind)
    if ffi is None:
        res[kind] = ('build', lib)
        continue
    r = []
    for v in case.get('values', [0, 1, -1]):
        r.append(obs(lambda: lib.ident(v)))
    r.append(obs(lambda: lib.KANY))
    r.append(obs(lambda: lib.KCHK))
    res[kind] = r
bad = []
for kind in ('cpython', 'generic'):
    if res[kind] != res['set_source']:
        bad.append('verify(%%s) -> %%r, set_source -> %%r' %% (kind, res[kind], res['set_source']))
for b in bad:
    print('VIOLATED:', b)
sys.exit(1 if bad else 0)
'''

_mods = None


def generated_modules():
    """(recompiler module, vengine_cpy module [internal names suffixed .v], vengine_gen module)"""
    global _mods
    if _mods is not None:
        return _mods
    sd = common.scratch_dir()
    cdef, src = [], []
    for i, (t, size, sg) in enumerate(INT_TYPES):
        cdef.append('%s id_i%d(%s);' % (t, i, t))
        src.append('static %s id_i%d(%s x) { return x; }' % (t, i, t))
    for t, n in [('_Bool', 'b'), ('float', 'f'), ('double', 'd')]:
        cdef.append('%s id_%s(%s);' % (t, n, t))
        src.append('static %s id_%s(%s x) { return x; }' % (t, n, t))
    cdef.append('long long mix2(short, unsigned long long);')
    src.append('static long long mix2(short a, unsigned long long b) { return a + (long long)b; }')
    cdef.append('int second3(unsigned char, int, long);')
    src.append('static int second3(unsigned char a, int b, long c) { return b; }')
    for i, (t, size, sg) in enumerate(CTYPES):
        src.append('extern %s sym_%d;' % (t, i))
        for j, v in enumerate(CDEF_VALUES):
            cdef.append('#define K%d_%d %d' % (i, j, v))
            src.append('#define K%d_%d sym_%d' % (i, j, i))
        cdef.append('#define U%d ...' % i)
        src.append('#define U%d sym_%d' % (i, i))
        cdef.append('static const %s S%d;' % (t, i))
        src.append('#define S%d sym_%d' % (i, i))
    cdef.append('enum en { EA = 42, EB = -5, EC = 0 };')
    src.append('#define EA sym_2\n#define EB sym_3\n#define EC sym_1\nenum en { EN_DUMMY };')
    code = '''
import sys
sys.path.insert(0, %r)
import cffi
from cffi.verifier import Verifier
cdef, src, sd = %r, %r, %r
ffi = cffi.FFI(); ffi.cdef(cdef)
ffi.set_source('_verif_c33r', src)
ffi.emit_c_code(sd + '/_verif_c33r.c')
for gen in (False, True):
    ffi = cffi.FFI(); ffi.cdef(cdef)
    name = '_verif_c33g' if gen else '_verif_c33v'
    v = Verifier(ffi, src, tmpdir=sd, modulename=name, force_generic_engine=gen)
    with open(sd + '/' + name + '.c', 'w') as f:
        v.write_source(file=f)
''' % (os.path.join(common.REPO, 'src'), '\n'.join(cdef) + '\n', '#include <stdint.h>\n#include <sys/types.h>\n' + '\n'.join(src) + '\n', sd)
    r = subprocess.run(['/venv/bin/python', '-c', code], stdout=subprocess.PIPE, stderr=subprocess.STDOUT)
    if r.returncode != 0:
        raise common.Inconclusive('generating the two builds failed:\n' + r.stdout.decode()[-1500:])
    inc = ['-I' + os.path.join(common.REPO, 'src/cffi')]
    rec = irgen.compile_ir(os.path.join(sd, '_verif_c33r.c'), '_verif_c33r', extra_flags=inc)
    cpy = irgen.compile_ir(os.path.join(sd, '_verif_c33v.c'), '_verif_c33v', extra_flags=inc, rename_internal='.v')
    gen = irgen.compile_ir(os.path.join(sd, '_verif_c33g.c'), '_verif_c33g', extra_flags=inc, rename_internal='.g')
    _mods = (rec, cpy, gen)
    return _mods


def bind_exports(ex, back, names):
    """what _cffi_init does in both kinds of module: copy the backend's table of exported functions"""
    src = ex.gaddr('cffi_exports')
    n = back.sizeof(back.globals['cffi_exports'].ty) // 8
    for nm in names:
        dst = ex.gaddr(nm)
        # each kind of module copies as many entries as its own table has (_CFFI_NUM_EXPORTS)
        for k in range(min(n, ex.mem.region_of(dst).size // 8)):
            ex.mem.store(dst + 8 * k, ex.mem.load(src + 8 * k, 8), 8)


def make_replay(chk, ctype='int', values=None, cdef_value=42, compiler_text='42'):
    def replay(case):
        vals = values(case) if callable(values) else (values or [0, 1, -1])
        c = {'ctype': ctype, 'values': vals, 'cdef_value': cdef_value,
             'compiler_text': compiler_text(case) if callable(compiler_text) else compiler_text}
        path = chk.write_replay('verify-vs-set_source', REPLAY % json.dumps(c))
        rc, out = common.run_replay(path, timeout=600)
        return common.replay_verdict(rc, out), path
    return replay


def same_pyvalue(ex, py, a, b):
    a, b = simp(a), simp(b)
    if a == b:
        return True
    ia, ib = py.info(a), py.info(b)
    if ia['kind'] != ib['kind']:
        return False
    if ia['kind'] == 'int':
        if ('bool' in ia) != ('bool' in ib):
            return False
        return ia['V'] == ib['V']
    if ia['kind'] == 'float':
        x, y = bv(ia['bits'], 64), bv(ib['bits'], 64)
        return z3.Or(x == y, z3.And(z3.fpIsNaN(z3.fpBVToFP(x, z3.Float64())), z3.fpIsNaN(z3.fpBVToFP(y, z3.Float64()))))
    return False


def func_worker(args):
    prop, tier, kind, fname, tname, size, signed_ = args
    chk = hutil.sub_check(prop, tier)
    back = irgen.backend()
    rec, cpy, gen = generated_modules()
    label = 'cpy:func:%s(%s)' % (fname, tname)
    ex = llsym.Executor([rec, cpy, back], pystubs.stubs(), loop_bound=16)

    def values(case):
        v = case.get('v')
        if v is None:
            return [0, 1, -1]
        return [llsym.signed(v, W)]
    replay = make_replay(chk, tname, values) if kind in ('int', 'bool') else None

    def h(ex):
        py = pystubs.PyEnv(ex)
        bind_exports(ex, back, ['_cffi_exports', '_cffi_exports.v'])
        trace = []
        ex.stubs['PyEval_SaveThread'] = lambda e: (trace.append('SaveThread'), 0x77)[1]
        ex.stubs['PyEval_RestoreThread'] = lambda e, t: trace.append('RestoreThread')
        errno_cell = ex.mem.alloc(4, 'errno', 'heap', fill=0)
        ex.stubs['__errno_location'] = lambda e: (trace.append('errno-access'), errno_cell.base)[1]
        inputs = {}
        if kind in ('int', 'bool'):
            V = z3.BitVec('v', W)
            inputs['v'] = V
            mk = lambda: py.new_int(V)
        else:
            B = z3.BitVec('bits', 64)
            inputs['bits'] = B
            mk = lambda: py.new_float(B)
        D = lambda n, c: hutil.discharge(chk, ex, label + ':' + n, c, inputs, replay=replay)
        r1 = simp(ex.call('_cffi_f_' + fname, [0, mk()]))
        e1, t1 = py.exc, list(trace)
        py.exc = None
        del trace[:]
        r2 = simp(ex.call('_cffi_f_' + fname + '.v', [0, mk()]))
        e2, t2 = py.exc, list(trace)
        ok1 = is_c(r1) and r1 != 0 and e1 is None
        ok2 = is_c(r2) and r2 != 0 and e2 is None
        hutil.witness(chk, ex, label + (':accepted' if ok1 else ':rejected'))
        D('verify-accepts-iff-set_source-accepts', ok1 == ok2)
        if ok1 and ok2:
            D('same-result-object', same_pyvalue(ex, py, r1, r2))
            D('same-errno-and-GIL-bracket', t1 == t2)
        elif not ok1 and not ok2:
            D('same-exception', e1 == e2)

    def on_oob(ex2, what_, model):
        chk.report_failure('%s: stray memory access: %s' % (label, what_), {}, None, None)
    ex.on_oob = on_oob
    res = ex.explore(h, max_paths=2000)
    hutil.finish_explore(chk, ex, res, label)
    if not chk.witnesses:
        chk.inconc(label + ': no path reached an obligation')
    chk.functions = irgen.func_info(rec, sorted(ex.called)) + irgen.func_info(cpy, sorted(ex.called)) + irgen.func_info(back, sorted(ex.called))
    return hutil.export(chk)


def routing_worker(args):
    prop, tier, kind, fname = args
    chk = hutil.sub_check(prop, tier)
    back = irgen.backend()
    rec, cpy, gen = generated_modules()
    label = 'cpy:func:%s' % fname
    nargs = {'mix2': 2, 'second3': 3}[fname]
    ex = llsym.Executor([rec, cpy, back], pystubs.stubs(), loop_bound=16)

    def h(ex):
        py = pystubs.PyEnv(ex)
        bind_exports(ex, back, ['_cffi_exports', '_cffi_exports.v'])
        errno_cell = ex.mem.alloc(4, 'errno', 'heap', fill=0)
        ex.stubs.update({'PyEval_SaveThread': lambda e: 0x77, 'PyEval_RestoreThread': lambda e, t: None,
                         '__errno_location': lambda e: errno_cell.base})

        def parse_tuple(e, args_, fmt, *outs):
            items = py.info(simp(args_))['items']
            for o, it in zip(outs, items):
                e.mem.store(o, it, 8)
            return 1
        ex.stubs['PyArg_ParseTuple'] = parse_tuple
        ex.stubs['_PyArg_ParseTuple_SizeT'] = parse_tuple
        ex.stubs['PyArg_UnpackTuple'] = lambda e, args_, name, mn, mx, *outs: parse_tuple(e, args_, 0, *outs)
        Vs = [z3.BitVec('v%d' % i, W) for i in range(nargs)]
        inputs = dict(('v%d' % i, v) for i, v in enumerate(Vs))
        D = lambda n, c: hutil.discharge(chk, ex, label + ':' + n, c, inputs)
        mk = lambda: py.new_tuple([py.new_int(V) for V in Vs])
        # the Recompiler's METH_FASTCALL-less wrappers take (self, args)
        r1 = simp(ex.call('_cffi_f_' + fname, [0, mk()]))
        e1 = py.exc
        py.exc = None
        r2 = simp(ex.call('_cffi_f_' + fname + '.v', [0, mk()]))
        e2 = py.exc
        ok1 = is_c(r1) and r1 != 0 and e1 is None
        ok2 = is_c(r2) and r2 != 0 and e2 is None
        hutil.witness(chk, ex, label + (':accepted' if ok1 else ':rejected'))
        D('verify-accepts-iff-set_source-accepts', ok1 == ok2)
        if ok1 and ok2:
            D('same-result-object', same_pyvalue(ex, py, r1, r2))
        elif not ok1 and not ok2:
            D('same-exception', e1 == e2)

    res = ex.explore(h, max_paths=4000)
    hutil.finish_explore(chk, ex, res, label)
    if not chk.witnesses:
        chk.inconc(label + ': no path reached an obligation')
    chk.functions = irgen.func_info(rec, sorted(ex.called)) + irgen.func_info(cpy, sorted(ex.called))
    return hutil.export(chk)


def const_worker(args):
    prop, tier, kind, i, form = args
    chk = hutil.sub_check(prop, tier)
    back = irgen.backend()
    rec, cpy, gen = generated_modules()
    t, size, sg = CTYPES[i]
    cname = {'U': 'U%d' % i, 'S': 'S%d' % i}.get(form) or ('K%d_%d' % (i, form))
    checked = form not in ('U', 'S')
    label = 'cpy:const:%s:%s' % (t, ('cdef=%d' % CDEF_VALUES[form]) if checked else {'U': '#define ...', 'S': 'static const'}[form])

    def ext(ex, name, g, m):
        if name.startswith('sym_'):
            k = int(name[4:])
            sz = CTYPES[k][1]
            r = ex.mem.alloc(sz, '@' + name, 'global')
            ex.mem.store(r.base, z3.BitVec('compiler_value', 8 * sz), sz)
            return r
        return pystubs.extern_global(ex, name, g, m)
    st = pystubs.stubs()
    st['@*'] = ext
    st['sprintf'] = lambda e, dst, fmt, *a: (e.mem.store(dst, 0, 1), 0)[1]
    st['snprintf'] = lambda e, dst, n, fmt, *a: (e.mem.store(dst, 0, 1), 0)[1]
    ex = llsym.Executor([rec, cpy, back], st, loop_bound=16)
    bl = back.struct_layout(('named', 'struct.builder_c_t'))
    ctxl = back.struct_layout(('named', 'struct._cffi_type_context_s'))
    gl = back.struct_layout(('named', 'struct._cffi_global_s'))

    def text(case):
        raw = case.get('compiler_value', 0)
        v = llsym.signed(raw, 8 * size) if sg else raw
        return '((%s)%d%s)' % (t, v, '' if sg else 'u') if v >= 0 else '((%s)(%d))' % (t, v)
    replay = make_replay(chk, 'int', [0], CDEF_VALUES[form] if checked else 42, text)

    def h(ex):
        py = pystubs.PyEnv(ex)
        bind_exports(ex, back, ['_cffi_exports', '_cffi_exports.v'])
        obj = ex.mem.alloc(64, 'exc:FFIError', 'pyobj', fill=0)
        ex.mem.store(obj.base, 1 << 32, 8)
        ex.mem.store(ex.gaddr('FFIError'), obj.base, 8)
        C = z3.BitVec('compiler_value', 8 * size)
        inputs = {'compiler_value': C}
        D = lambda n, c: hutil.discharge(chk, ex, label + ':' + n, c, inputs, replay=replay)
        # set_source(): generated _cffi_const_X + realize_global_int
        builder = ex.mem.alloc(bl[1], 'builder', 'heap', fill=0)
        globs = ex.mem.alloc(gl[1], 'globals[1]', 'heap', fill=0)
        nm = ex.mem.alloc(8, 'name', 'heap', fill=0)
        ex.mem.store(globs.base + gl[0][0], nm.base, 8)
        ex.mem.store(globs.base + gl[0][1], ex.faddr('_cffi_const_' + cname), 8)
        ex.mem.store(builder.base + bl[0][0] + ctxl[0][1], globs.base, 8)
        ex.mem.store(builder.base + bl[0][0] + ctxl[0][6], 1, 4)
        r1 = simp(ex.call('realize_global_int', [builder.base, 0]))
        e1 = py.exc
        ok1 = is_c(r1) and r1 != 0 and e1 is None
        py.exc = None
        # verify(): vengine_cpy's _cffi_const_X(lib) sets lib.X (the chain of constants after it is cut)
        got = []

        def setattr_(e, lib, name, o):
            got.append((llsym.c_string(e, name).decode(), simp(o)))
            return 0
        ex.stubs['PyObject_SetAttrString'] = setattr_
        for f_ in list(cpy.functions):
            if f_.startswith('_cffi_const_') and f_ != '_cffi_const_' + cname + '.v' or f_.startswith('_cffi_e_'):
                ex.stubs[f_] = lambda e, lib: 0
        ex.stubs['_cffi_setup_custom.v'] = lambda e, lib: 0
        verr = ex.mem.alloc(64, 'exc:VerificationError', 'pyobj', fill=0)
        ex.mem.store(verr.base, 1 << 32, 8)
        ex.mem.store(ex.gaddr('_cffi_VerificationError.v'), verr.base, 8)
        r2 = simp(ex.call('_cffi_const_' + cname + '.v', [py.new_opaque('lib')]))
        e2 = py.exc
        mine = [o for n_, o in got if n_ == cname]
        ok2 = is_c(r2) and llsym.signed(r2, 32) >= 0 and e2 is None and len(mine) == 1
        hutil.witness(chk, ex, label + (':value' if ok1 else ':error'))
        D('verify-fails-iff-set_source-fails', ok1 == ok2)
        if ok1 and ok2:
            D('same-python-int', same_pyvalue(ex, py, r1, mine[0]))
        elif not ok1 and not ok2:
            D('both-report-a-verification-error', e1 == 'FFIError' and e2 == 'VerificationError')

    def on_oob(ex2, what_, model):
        chk.report_failure('%s: stray memory access: %s' % (label, what_), {}, None, None)
    ex.on_oob = on_oob
    res = ex.explore(h, max_paths=1000)
    hutil.finish_explore(chk, ex, res, label)
    if not chk.witnesses:
        chk.inconc(label + ': no path reached an obligation')
    chk.functions = irgen.func_info(rec, sorted(ex.called)) + irgen.func_info(cpy, sorted(ex.called)) + irgen.func_info(back, sorted(ex.called))
    return hutil.export(chk)


def enum_worker(args):
    """enum en { EA = 42, EB = -5, EC = 0 } with three independent symbolic compiler values: verify()'s check function accepts
    iff the C source matches the cdef, and then set_source()'s enumerator constants have the same values"""
    prop, tier, kind = args
    chk = hutil.sub_check(prop, tier)
    back = irgen.backend()
    rec, cpy, gen = generated_modules()
    label = 'cpy:enum'
    SYM = {'EA': (2, 42), 'EB': (3, -5), 'EC': (1, 0)}

    def ext(ex, name, g, m):
        if name.startswith('sym_'):
            k = int(name[4:])
            sz = CTYPES[k][1]
            r = ex.mem.alloc(sz, '@' + name, 'global')
            ex.mem.store(r.base, z3.BitVec('compiler_value_%d' % k, 8 * sz), sz)
            return r
        return pystubs.extern_global(ex, name, g, m)
    st = pystubs.stubs()
    st['@*'] = ext
    st['sprintf'] = lambda e, dst, fmt, *a: (e.mem.store(dst, 0, 1), 0)[1]
    st['snprintf'] = lambda e, dst, n, fmt, *a: (e.mem.store(dst, 0, 1), 0)[1]
    ex = llsym.Executor([rec, cpy, back], st, loop_bound=16)
    bl = back.struct_layout(('named', 'struct.builder_c_t'))
    ctxl = back.struct_layout(('named', 'struct._cffi_type_context_s'))
    gl = back.struct_layout(('named', 'struct._cffi_global_s'))

    def h(ex):
        py = pystubs.PyEnv(ex)
        bind_exports(ex, back, ['_cffi_exports', '_cffi_exports.v'])
        obj = ex.mem.alloc(64, 'exc:FFIError', 'pyobj', fill=0)
        ex.mem.store(obj.base, 1 << 32, 8)
        ex.mem.store(ex.gaddr('FFIError'), obj.base, 8)
        inputs = dict(('compiler_value_%d' % k, z3.BitVec('compiler_value_%d' % k, 8 * CTYPES[k][1])) for k, _ in SYM.values())
        ok_all, vals = True, {}
        for nm, (k, want) in sorted(SYM.items()):
            builder = ex.mem.alloc(bl[1], 'builder', 'heap', fill=0)
            globs = ex.mem.alloc(gl[1], 'globals[1]', 'heap', fill=0)
            nmr = ex.mem.alloc(8, 'name', 'heap', fill=0)
            ex.mem.store(globs.base + gl[0][0], nmr.base, 8)
            ex.mem.store(globs.base + gl[0][1], ex.faddr('_cffi_const_' + nm), 8)
            ex.mem.store(builder.base + bl[0][0] + ctxl[0][1], globs.base, 8)
            ex.mem.store(builder.base + bl[0][0] + ctxl[0][6], 1, 4)
            r1 = simp(ex.call('realize_global_int', [builder.base, 0]))
            if not (is_c(r1) and r1 != 0 and py.exc is None):
                ok_all = False
            else:
                vals[nm] = r1
            py.exc = None
        for f_ in list(cpy.functions):
            if f_.startswith('_cffi_const_') or (f_.startswith('_cffi_e_') and f_ != '_cffi_e_enum_en.v'):
                ex.stubs[f_] = lambda e, lib: 0
        ex.stubs['_cffi_setup_custom.v'] = lambda e, lib: 0
        verr = ex.mem.alloc(64, 'exc:VerificationError', 'pyobj', fill=0)
        ex.mem.store(verr.base, 1 << 32, 8)
        ex.mem.store(ex.gaddr('_cffi_VerificationError.v'), verr.base, 8)
        r2 = simp(ex.call('_cffi_e_enum_en.v', [py.new_opaque('lib')]))
        ok2 = is_c(r2) and llsym.signed(r2, 32) >= 0 and py.exc is None
        # the statement is about a C source that MATCHES the cdef: set_source() takes an enumerator's value from the compiler
        # without comparing it with the cdef (by design), verify() insists on equality
        C = lambda k: z3.BitVec('compiler_value_%d' % k, 8 * CTYPES[k][1])
        ext_ = lambda k: z3.SignExt(W - 8 * CTYPES[k][1], C(k))
        matches = z3.And(*[ext_(k) == V_const(want) for nm, (k, want) in SYM.items()])
        hutil.witness(chk, ex, label + (':verify-accepts' if ok2 else ':verify-rejects'))
        hutil.discharge(chk, ex, label + ':verify-accepts-iff-the-source-matches-the-cdef', z3.BoolVal(ok2) == matches, inputs)
        if ok2:
            hutil.discharge(chk, ex, label + ':matching-source=>set_source-accepts-too', ok_all, inputs)
            if ok_all:
                hutil.discharge(chk, ex, label + ':matching-source=>same-values-(the-cdef-values)',
                                z3.And(*[py.info(vals[nm])['V'] == V_const(want) for nm, (k, want) in SYM.items()]), inputs)
        else:
            hutil.discharge(chk, ex, label + ':rejected-with-VerificationError', py.exc == 'VerificationError', inputs)

    res = ex.explore(h, max_paths=2000)
    hutil.finish_explore(chk, ex, res, label)
    if not chk.witnesses:
        chk.inconc(label + ': no path reached an obligation')
    chk.functions = irgen.func_info(rec, sorted(ex.called)) + irgen.func_info(cpy, sorted(ex.called))
    return hutil.export(chk)


def genconst_worker(args):
    """generic engine: C shim (llsym) + VGenericEngine._load_constant (pysym)"""
    prop, tier, kind, i = args
    chk = hutil.sub_check(prop, tier)
    back = irgen.backend()
    rec, cpy, gen = generated_modules()
    t, size, sg = CTYPES[i]
    label = 'gen:const:%s' % t

    def ext(ex, name, g, m):
        if name.startswith('sym_'):
            k = int(name[4:])
            sz = CTYPES[k][1]
            r = ex.mem.alloc(sz, '@' + name, 'global')
            ex.mem.store(r.base, z3.BitVec('compiler_value', 8 * sz), sz)
            return r
        return pystubs.extern_global(ex, name, g, m)
    st = dict(llsym.LIBC)
    st['@*'] = ext
    ex = llsym.Executor([gen], st, loop_bound=16)

    def h(ex):
        C = z3.BitVec('compiler_value', 8 * size)
        wide = z3.SignExt(64 - 8 * size, C) if (sg and size < 8) else (z3.ZeroExt(64 - 8 * size, C) if size < 8 else C)
        out = ex.mem.alloc(8, 'out_value', 'heap')
        r = simp(ex.call('_cffi_const_U%d' % i, [out.base]))
        inputs = {'compiler_value': C}
        hutil.witness(chk, ex, label + ':shim')
        hutil.discharge(chk, ex, label + ':out==(long long)value', bv(ex.mem.load(out.base, 8), 64) == wide, inputs)
        neg = (wide <= 0) if sg else (wide == 0)
        hutil.discharge(chk, ex, label + ':flag==(value<=0)', (bv(r, 32) != 0) == neg, inputs)
    res = ex.explore(h, max_paths=100)
    hutil.finish_explore(chk, ex, res, label)
    # Python side: _load_constant rebuilds the value from (out, flag)
    sys.path.insert(0, os.path.join(common.REPO, 'src'))
    from cffi import vengine_gen
    px = pysym.PyExplorer()

    def hp(px):
        v = px.sym_int('compiler_value', 'int')
        lo, hi = (-(1 << (8 * size - 1)), (1 << (8 * size - 1)) - 1) if sg else (0, (1 << (8 * size)) - 1)
        px.assume(z3.And(v.t >= lo, v.t <= hi))
        # what the shim hands out, per the two lemmas above
        wrapped = v - (1 << 64) if bool(v >= (1 << 63)) else v
        negative = 1 if bool(v <= 0) else 0

        class P(object):
            def __getitem__(self, k):
                return wrapped

        class FFI(object):
            def _typeof_locked(self, s):
                return (s,)

            def new(self, T):
                return P()

            def sizeof(self, T):
                return 8

        class Module(object):
            def load_function(self, BFunc, name):
                return lambda p: negative
        eng = vengine_gen.VGenericEngine.__new__(vengine_gen.VGenericEngine)
        eng.ffi = FFI()
        # int(p[0]) of a 'long long' cdata is that integer
        vengine_gen.__dict__['int'] = lambda x: x if isinstance(x, pysym.SymInt) else int(x)
        try:
            got = eng._load_constant(True, None, 'U', Module())
        finally:
            del vengine_gen.__dict__['int']
        hutil.witness(chk, px, label + ':python-side')
        t_ = got.t if hasattr(got, 't') else got
        def text(case):
            c = case.get('compiler_value', 0)
            return '((%s)%d%s)' % (t, c, '' if sg else 'u') if c >= 0 else '((%s)(%d))' % (t, c)
        hutil.discharge(chk, px, label + ':_load_constant-rebuilds-the-compiler-value', t_ == v.t, {'compiler_value': v.t},
                        replay=make_replay(chk, 'int', [0], 42, text))
    res = px.explore(hp, max_paths=100)
    hutil.finish_explore(chk, px, res, label)
    if not chk.witnesses:
        chk.inconc(label + ': no path reached an obligation')
    chk.functions = irgen.func_info(gen, sorted(ex.called)) + [{'name': 'VGenericEngine._load_constant', 'file': 'src/cffi/vengine_gen.py'}]
    return hutil.export(chk)


def layout_worker(args):
    """verify(): the layout list of a partial struct reaches tp.fixedlayout unchanged (both engines)"""
    prop, tier, kind, engine, nfields = args
    chk = hutil.sub_check(prop, tier)
    sys.path.insert(0, os.path.join(common.REPO, 'src'))
    from cffi import vengine_cpy, vengine_gen, model
    label = 'layout:%s:%d-fields' % (engine, nfields)
    px = pysym.PyExplorer()

    def hp(px):
        nums = [px.sym_int('n%d' % k, 'int') for k in range(2 + 2 * nfields)]
        for n in nums:
            px.assume(z3.And(n.t >= 0, n.t <= (1 << 62)))
        names = ['f%d' % k for k in range(nfields)]
        tp = model.StructType('s', names, [model.PrimitiveType('int')] * nfields, [-1] * nfields)
        tp.partial = True
        if engine == 'cpy':
            eng = vengine_cpy.VCPythonEngine.__new__(vengine_cpy.VCPythonEngine)

            class Module(object):
                def _cffi_layout_struct_s(self):
                    return list(nums)
            module = Module()
        else:
            eng = vengine_gen.VGenericEngine.__new__(vengine_gen.VGenericEngine)

            class FFI(object):
                def _typeof_locked(self, s):
                    return (s,)

            class Module(object):
                def load_function(self, BFunc, name):
                    return lambda k: nums[k] if k < len(nums) else -1
            eng.ffi = FFI()
            module = Module()
        eng._struct_pending_verification = {}
        eng._loading_struct_or_union(tp, 'struct', 's', module)
        hutil.witness(chk, px, label + ':loaded')
        fl = getattr(tp, 'fixedlayout', None)
        inputs = dict(('n%d' % k, n.t) for k, n in enumerate(nums))
        okk = fl is not None and len(fl) == 4 and len(fl[0]) == nfields and len(fl[1]) == nfields
        hutil.discharge(chk, px, label + ':fixedlayout-set', okk, inputs)
        if okk:
            T = lambda x: x.t if hasattr(x, 't') else x
            conds = [T(fl[2]) == nums[0].t, T(fl[3]) == nums[1].t]
            for k in range(nfields):
                conds.append(T(fl[0][k]) == nums[2 + 2 * k].t)
                conds.append(T(fl[1][k]) == nums[3 + 2 * k].t)
            hutil.discharge(chk, px, label + ':sizeof-alignof-offsets-sizes-handed-over-unchanged', z3.And(*conds), inputs)
    res = px.explore(hp, max_paths=200)
    hutil.finish_explore(chk, px, res, label)
    if not chk.witnesses:
        chk.inconc(label + ': no path reached an obligation')
    chk.functions = [{'name': n, 'file': 'src/cffi/vengine_%s.py' % engine} for n in ('_loading_struct_or_union',)]
    return hutil.export(chk)


def layoutcheck_worker(args):
    """verify(): a complete struct is accepted iff every number the C compiler reports equals what cffi computed from the cdef
    (the same condition under which set_source()'s module raises: C12) -- both engines, symbolic numbers on both sides"""
    prop, tier, kind, engine, nfields = args
    chk = hutil.sub_check(prop, tier)
    sys.path.insert(0, os.path.join(common.REPO, 'src'))
    from cffi import vengine_cpy, vengine_gen, model
    from cffi.error import VerificationError
    label = 'layout-check:%s:%d-fields' % (engine, nfields)
    px = pysym.PyExplorer()

    def hp(px):
        comp = [px.sym_int('compiler_%d' % k, 'int') for k in range(2 + 2 * nfields)]
        mine = [px.sym_int('cffi_%d' % k, 'int') for k in range(2 + 2 * nfields)]
        for n in comp + mine:
            px.assume(z3.And(n.t >= 0, n.t <= (1 << 40)))
        names = ['f%d' % k for k in range(nfields)]
        ftypes = [model.PrimitiveType('int') for _ in range(nfields)]
        tp = model.StructType('s', names, ftypes, [-1] * nfields)

        class BT(object):
            def __init__(self, what):
                self.what = what

        class FFI(object):
            def _typeof_locked(self, s):
                return (s,)

            def _get_cached_btype(self, t):
                if t is tp:
                    return BT('struct')
                return BT(('field', [i for i, f in enumerate(ftypes) if f is t][0]))

            def sizeof(self, bt):
                return mine[0] if bt.what == 'struct' else mine[3 + 2 * bt.what[1]]

            def alignof(self, bt):
                return mine[1]

            def offsetof(self, bt, fname):
                return mine[2 + 2 * names.index(fname)]
        if engine == 'cpy':
            eng = vengine_cpy.VCPythonEngine.__new__(vengine_cpy.VCPythonEngine)

            class Module(object):
                def _cffi_layout_struct_s(self):
                    return list(comp)
            module = Module()
        else:
            eng = vengine_gen.VGenericEngine.__new__(vengine_gen.VGenericEngine)

            class Module(object):
                def load_function(self, BFunc, name):
                    return lambda k: comp[k] if k < len(comp) else -1
            module = Module()
        eng.ffi = FFI()
        eng._struct_pending_verification = {}
        eng._loading_struct_or_union(tp, 'struct', 's', module)
        try:
            eng._loaded_struct_or_union(tp)
            outcome = 'accepted'
        except VerificationError:
            outcome = 'VerificationError'
        except llsym.Unsupported as e:
            # check() formats its message with '%d' before raising: the only int() of a symbolic number in this code
            # (formatting is not the subject)
            if 'int() of a symbolic int' not in str(e):
                raise
            outcome = 'VerificationError'
        hutil.witness(chk, px, label + ':' + outcome)
        inputs = dict(('compiler_%d' % k, n.t) for k, n in enumerate(comp))
        inputs.update(dict(('cffi_%d' % k, n.t) for k, n in enumerate(mine)))
        differs = [comp[0].t != mine[0].t, comp[1].t != mine[1].t]
        for k in range(nfields):
            differs.append(comp[2 + 2 * k].t != mine[2 + 2 * k].t)
            # a reported field size of 0 means "unknown" (open array): not compared
            differs.append(z3.And(comp[3 + 2 * k].t != 0, comp[3 + 2 * k].t != mine[3 + 2 * k].t))
        any_diff = z3.Or(*differs)
        if outcome == 'accepted':
            hutil.discharge(chk, px, label + ':accepted=>every-number-agrees', z3.Not(any_diff), inputs)
        else:
            hutil.discharge(chk, px, label + ':rejected=>some-number-differs', any_diff, inputs)
    res = px.explore(hp, max_paths=2000)
    hutil.finish_explore(chk, px, res, label)
    if not chk.witnesses:
        chk.inconc(label + ': no path reached an obligation')
    chk.functions = [{'name': n, 'file': 'src/cffi/vengine_%s.py' % engine} for n in ('_loading_struct_or_union', '_loaded_struct_or_union')]
    return hutil.export(chk)


LAYOUT_REPLAY = r"""
# Replay for C33: a partial struct with a '[...]' array in the middle, through verify() (both engines) and set_source():
# field names, types, offsets and sizes must agree.
import sys, os, json, tempfile, atexit, shutil, importlib
import cffi
d = tempfile.mkdtemp(); atexit.register(shutil.rmtree, d, True)
sys.path.insert(0, d)
cdef = "struct rec_s { short tag; int samples[...]; int count; double scale; char flag; ...; };"
src = "struct rec_s { short tag; char pad1; int samples[5]; long hidden; int count; double scale; char flag; };"
def describe(ffi):
    t = ffi.typeof('struct rec_s')
    return (ffi.sizeof(t), ffi.alignof(t), [(n, f.type.cname, f.offset) for n, f in t.fields])
res = {}
for kind in ('set_source', 'cpython', 'generic'):
    ffi = cffi.FFI(); ffi.cdef(cdef)
    try:
        if kind == 'set_source':
            ffi.set_source('_c33_layout_mod', src); ffi.compile(tmpdir=d)
            ffi = importlib.import_module('_c33_layout_mod').ffi
        else:
            os.makedirs(os.path.join(d, kind), exist_ok=True)
            ffi.verify(src, tmpdir=os.path.join(d, kind), force_generic_engine=(kind == 'generic'))
        res[kind] = describe(ffi)
    except Exception as e:
        res[kind] = 'raised %s: %s' % (type(e).__name__, str(e)[:100])
bad = ['verify(%s) -> %r, set_source -> %r' % (k, res[k], res['set_source']) for k in ('cpython', 'generic') if res[k] != res['set_source']]
for b in bad: print('VIOLATED:', b)
sys.exit(1 if bad else 0)
"""


def fixedlayout_worker(args):
    """verify(): model.StructOrUnion.finish_backend_type on a partial struct whose fixedlayout (what the compiler reported) is
    symbolic: each field reaches the backend under its own name, with its declared type (a '[...]' array with the length the
    reported size implies), no bit width and the reported offset -- what do_realize_lazy_struct builds for set_source() (C12)"""
    prop, tier, kind, shape = args
    chk = hutil.sub_check(prop, tier)
    sys.path.insert(0, os.path.join(common.REPO, 'src'))
    from cffi import model
    from cffi.error import VerificationError
    label = 'fixedlayout:%s' % '-'.join(shape)
    px = pysym.PyExplorer()
    SIZES = {'int': 4, 'double': 8, 'char': 1, 'short': 2}
    _done = {}

    def replay(case):
        if 'r' not in _done:
            path = chk.write_replay('layout', LAYOUT_REPLAY)
            rc, out = common.run_replay(path, timeout=600)
            _done['r'] = (common.replay_verdict(rc, out), path)
        return _done['r']

    def hp(px):
        n = len(shape)
        ofs = [px.sym_int('offset_%d' % k, 'int') for k in range(n)]
        siz = [px.sym_int('size_%d' % k, 'int') for k in range(n)]
        tot, ali = px.sym_int('sizeof', 'int'), px.sym_int('alignof', 'int')
        for v in ofs + siz + [tot, ali]:
            px.assume(z3.And(v.t >= 0, v.t <= (1 << 40)))
        ftypes = []
        for kd in shape:
            if kd.startswith('arr:'):
                ftypes.append(model.ArrayType(model.PrimitiveType(kd[4:]), '...'))
            else:
                ftypes.append(model.PrimitiveType(kd))
        declared = list(ftypes)
        names = ['f%d' % k for k in range(n)]
        tp = model.StructType('s', names, tuple(ftypes), (-1,) * n)
        tp.partial = True
        tp.fixedlayout = (list(ofs), list(siz), tot, ali)
        calls = []

        class BT(object):
            def __init__(self, m):
                self.m = m

        class Backend(object):
            def complete_struct_or_union(self, BType, lst, tp_, totalsize, totalalignment, *extra):
                calls.append((lst, totalsize, totalalignment, extra))

        class FFI(object):
            _backend = Backend()

            def __init__(self):
                self._cached_btypes = {tp: BT(tp)}

            def sizeof(self, bt):
                m = bt.m
                if isinstance(m, model.ArrayType):
                    return m.length * SIZES[m.item.name]
                return SIZES[m.name]
        saved = model.BaseTypeByIdentity.get_cached_btype
        model.BaseTypeByIdentity.get_cached_btype = lambda self, ffi, finishlist, can_delay=False: BT(self)
        try:
            try:
                tp.finish_backend_type(FFI(), [])
                outcome = 'completed'
            except VerificationError:
                outcome = 'VerificationError'
            except llsym.Unsupported as e:
                if 'int() of a symbolic int' not in str(e):     # '%d' in the error message
                    raise
                outcome = 'VerificationError'
        finally:
            model.BaseTypeByIdentity.get_cached_btype = saved
        hutil.witness(chk, px, label + ':' + outcome)
        inputs = dict(('offset_%d' % k, v.t) for k, v in enumerate(ofs))
        inputs.update(dict(('size_%d' % k, v.t) for k, v in enumerate(siz)))
        # the reported sizes are consistent with the declared types: exact for scalars, a multiple of the item size for arrays
        cons = []
        for k, kd in enumerate(shape):
            if kd.startswith('arr:'):
                cons.append(siz[k].t % SIZES[kd[4:]] == 0)
            else:
                cons.append(siz[k].t == SIZES[kd])
        consistent = z3.And(*cons) if cons else z3.BoolVal(True)
        D = lambda nm, c: hutil.discharge(chk, px, label + ':' + nm, c, inputs, replay=replay)
        if outcome != 'completed':
            D('rejected=>a-reported-size-contradicts-the-declaration', z3.Not(consistent))
            return
        D('completed=>sizes-consistent', consistent)
        okc = len(calls) == 1 and len(calls[0][0]) == n
        D('backend-completes-the-struct-once-with-every-field', okc)
        if not okc:
            return
        lst, totalsize, totalalignment, extra = calls[0]
        T = lambda x: x.t if hasattr(x, 't') else x
        D('sizeof-and-alignof-handed-over', z3.And(T(totalsize) == tot.t, T(totalalignment) == ali.t))
        for k, (nm, bt, bits, o) in enumerate(lst):
            m = bt.m
            if shape[k].startswith('arr:'):
                okt = isinstance(m, model.ArrayType) and m.item is declared[k].item
                D('field%d:array-of-the-declared-item-type' % k, okt)
                if okt:
                    D('field%d:array-length==reported-size/item-size' % k, T(m.length) * SIZES[shape[k][4:]] == siz[k].t)
            else:
                D('field%d:declared-type' % k, m is declared[k])
            D('field%d:own-name-no-bit-width-reported-offset' % k, z3.And(z3.BoolVal(nm == names[k] and bits == -1), T(o) == ofs[k].t))
    res = px.explore(hp, max_paths=2000)
    hutil.finish_explore(chk, px, res, label)
    if not chk.witnesses:
        chk.inconc(label + ': no path reached an obligation')
    chk.functions = [{'name': 'StructOrUnion.finish_backend_type', 'file': 'src/cffi/model.py'}]
    return hutil.export(chk)


ENUM_REPLAY = r"""
# Replay for C33: the integer type of an enum through verify() (cffi guesses it from the values) and set_source() (taken from
# the C compiler) must agree: sizeof and signedness, and a struct holding the enum must be usable.
import sys, os, json, tempfile, atexit, shutil, importlib
import cffi
case = json.loads(%r)
d = tempfile.mkdtemp(); atexit.register(shutil.rmtree, d, True)
sys.path.insert(0, d)
lit = lambda v: '(-%%dLL - 1)' %% (-v - 1) if v < 0 else ('%%dLL' %% v if v < 2**63 else '%%dULL' %% v)
cdef = "enum level_e { LV_A = %%d, LV_B = %%d }; struct holder_s { enum level_e lv; };" %% (case['a'], case['b'])
src = "enum level_e { LV_A = %%s, LV_B = %%s }; struct holder_s { enum level_e lv; };" %% (lit(case['a']), lit(case['b']))
res = {}
for kind in ('set_source', 'cpython', 'generic'):
    ffi = cffi.FFI()
    try:
        ffi.cdef(cdef)
        if kind == 'set_source':
            ffi.set_source('_c33_enum_mod', src); ffi.compile(tmpdir=d)
            ffi = importlib.import_module('_c33_enum_mod').ffi
        else:
            os.makedirs(os.path.join(d, kind), exist_ok=True)
            ffi.verify(src, tmpdir=os.path.join(d, kind), force_generic_engine=(kind == 'generic'))
        res[kind] = (ffi.sizeof('enum level_e'), int(ffi.cast('enum level_e', -1)) < 0, ffi.sizeof('struct holder_s'))
    except Exception as e:
        res[kind] = 'raised %%s' %% type(e).__name__
bad = ['verify(%%s) -> %%r, set_source -> %%r' %% (k, res[k], res['set_source']) for k in ('cpython', 'generic') if res[k] != res['set_source']]
for b in bad: print('VIOLATED:', b)
sys.exit(1 if bad else 0)
"""

_gcc_enum = None


def gcc_enum_facts(samples):
    """(size, signed) gcc gives 'enum e { A = a, B = b }' for each sample pair"""
    global _gcc_enum
    if _gcc_enum is not None:
        return _gcc_enum
    d = common.scratch_dir()
    lit = lambda v: '(-%dLL - 1)' % (-v - 1) if v < 0 else ('%dLL' % v if v < 2 ** 63 else '%dULL' % v)
    lines = ['#include <stdio.h>']
    for i, (a, b) in enumerate(samples):
        lines.append('enum e%d { A%d = %s, B%d = %s };' % (i, i, lit(a), i, lit(b)))
    lines.append('int main(void) {')
    for i in range(len(samples)):
        lines.append('  printf("%%d %%zu %%d\\n", %d, sizeof(enum e%d), ((enum e%d)-1) < 0);' % (i, i, i))
    lines.append('  return 0; }')
    p = os.path.join(d, 'enumfacts.c')
    open(p, 'w').write('\n'.join(lines))
    r = subprocess.run(['gcc', '-w', '-o', p[:-2], p], capture_output=True)
    if r.returncode != 0:
        raise common.HarnessError('gcc failed on the enum facts program: ' + r.stderr.decode()[-800:])
    out = {}
    for l in subprocess.run([p[:-2]], capture_output=True).stdout.decode().split('\n'):
        q = l.split()
        if q:
            out[samples[int(q[0])]] = (int(q[1]), bool(int(q[2])))
    _gcc_enum = out
    return out


def enum_rule(lo, hi):
    """the compiler's choice (GNU C on x86-64) for an enum whose values span [lo, hi]: (size, signed) or None"""
    if lo < 0:
        if lo >= -2 ** 31 and hi <= 2 ** 31 - 1:
            return (4, True)
        if lo >= -2 ** 63 and hi <= 2 ** 63 - 1:
            return (8, True)
        return None
    if hi <= 2 ** 32 - 1:
        return (4, False)
    if hi <= 2 ** 64 - 1:
        return (8, False)
    return None


ENUM_SAMPLES = [(0, 1), (-1, 0), (0, 2 ** 31 - 1), (0, 2 ** 31), (0, 2 ** 32 - 1), (0, 2 ** 32), (-1, 2 ** 31 - 1), (-1, 2 ** 31),
                (-1, 2 ** 32 - 1), (-2 ** 31, 0), (-2 ** 31 - 1, 0), (-1, 2 ** 63 - 1), (0, 2 ** 63), (0, 2 ** 64 - 1), (-2 ** 63, 5)]


def enumbase_worker(args):
    """verify() guesses the integer type of an enum from its values (model.EnumType.build_baseinttype); set_source() takes size
    and sign from the C compiler.  For every pair of enumerator values the guess equals the compiler's choice (rule validated
    against gcc on boundary samples at every run)."""
    prop, tier, kind = args
    chk = hutil.sub_check(prop, tier)
    sys.path.insert(0, os.path.join(common.REPO, 'src'))
    from cffi import model
    from cffi.error import CDefError
    label = 'enum-base-type'
    facts = gcc_enum_facts(ENUM_SAMPLES)
    for (a, b), got in facts.items():
        if enum_rule(min(a, b), max(a, b)) != got:
            raise common.HarnessError('the reference rule for enum base types disagrees with gcc on %r: %r vs %r' % ((a, b), enum_rule(min(a, b), max(a, b)), got))
    chk.translator_validation['samples'] += len(facts)
    px = pysym.PyExplorer()
    SIZE = {'int': (4, True), 'long': (8, True), 'unsigned int': (4, False), 'unsigned long': (8, False)}

    def replay(case):
        path = chk.write_replay('enumbase', ENUM_REPLAY % json.dumps({'a': case['a'], 'b': case['b']}))
        rc, out = common.run_replay(path, timeout=600)
        return common.replay_verdict(rc, out), path

    def hp(px):
        a, b = px.sym_int('a', 'int'), px.sym_int('b', 'int')
        for v in (a, b):
            px.assume(z3.And(v.t >= -(1 << 63), v.t <= (1 << 64) - 1))
        tp = model.EnumType('level_e', ('LV_A', 'LV_B'), (a, b))

        class BT(object):
            def __init__(self, m):
                self.m = m

        class FFI(object):
            def sizeof(self, bt):
                return SIZE[bt.m.name][0]
        saved = model.BaseTypeByIdentity.get_cached_btype
        model.BaseTypeByIdentity.get_cached_btype = lambda self, ffi, finishlist, can_delay=False: BT(self)
        try:
            try:
                bt = tp.build_baseinttype(FFI(), [])
                got = SIZE[bt.m.name]
            except CDefError:
                got = None
        finally:
            model.BaseTypeByIdentity.get_cached_btype = saved
        hutil.witness(chk, px, label + ':' + ('none' if got is None else '%d-bytes-%s' % (got[0], 'signed' if got[1] else 'unsigned')))
        lo = z3.If(a.t < b.t, a.t, b.t)
        hi = z3.If(a.t < b.t, b.t, a.t)
        want = {(4, True): z3.And(lo < 0, lo >= -2 ** 31, hi <= 2 ** 31 - 1),
                (8, True): z3.And(lo < 0, z3.Not(z3.And(lo >= -2 ** 31, hi <= 2 ** 31 - 1)), hi <= 2 ** 63 - 1),
                (4, False): z3.And(lo >= 0, hi <= 2 ** 32 - 1),
                (8, False): z3.And(lo >= 0, hi > 2 ** 32 - 1),
                None: z3.And(lo < 0, hi > 2 ** 63 - 1)}
        hutil.discharge(chk, px, label + ':guess==the-compilers-choice', want[got], {'a': a.t, 'b': b.t}, replay=replay)
    res = px.explore(hp, max_paths=2000)
    hutil.finish_explore(chk, px, res, label)
    if not chk.witnesses:
        chk.inconc(label + ': no path reached an obligation')
    chk.functions = [{'name': 'EnumType.build_baseinttype', 'file': 'src/cffi/model.py'}]
    return hutil.export(chk)


def dispatch(args):
    k = args[2]
    if k in ('int', 'bool', 'double'):
        return func_worker(args)
    if k == 'routing':
        return routing_worker(args)
    if k == 'const':
        return const_worker(args)
    if k == 'genconst':
        return genconst_worker(args)
    if k == 'enum':
        return enum_worker(args)
    if k == 'layout':
        return layout_worker(args)
    if k == 'layoutcheck':
        return layoutcheck_worker(args)
    if k == 'fixedlayout':
        return fixedlayout_worker(args)
    if k == 'enumbase':
        return enumbase_worker(args)
    if k == 'c13':
        from harness import C13
        return C13.wrapper_worker((args[0], args[1]) + tuple(args[3]))
    raise ValueError(k)


def run(chk):
    quick = chk.tier == 'quick'
    P = (chk.prop, chk.tier)
    cases = []
    for i, (t, size, sg) in enumerate(INT_TYPES):
        cases.append(P + ('int', 'id_i%d' % i, t, size, sg))
        # generic engine == libffi path (C13's obligation on the same family)
        cases.append(P + ('c13', ('int', 'id_i%d' % i, t, size, sg)))
    cases.append(P + ('bool', 'id_b', '_Bool', 1, False))
    cases.append(P + ('double', 'id_d', 'double', 8, True))
    cases.append(P + ('double', 'id_f', 'float', 4, True))
    cases.append(P + ('c13', ('bool', 'id_b', '_Bool', 1, False)))
    cases.append(P + ('c13', ('double', 'id_d', 'double', 8, True)))
    cases.append(P + ('routing', 'mix2'))
    cases.append(P + ('routing', 'second3'))
    for i in range(len(CTYPES)):
        for form in list(range(len(CDEF_VALUES))) + ['U', 'S']:
            cases.append(P + ('const', i, form))
        cases.append(P + ('genconst', i))
    cases.append(P + ('enum',))
    cases.append(P + ('enumbase',))
    for engine in ('cpy', 'gen'):
        for n in range(0, 3 if quick else 5):
            cases.append(P + ('layout', engine, n))
            cases.append(P + ('layoutcheck', engine, n))
    for shape in [('int',), ('arr:int',), ('short', 'arr:int', 'int'), ('arr:int', 'double', 'char'), ('int', 'arr:short', 'arr:int', 'double')] + \
                 ([] if quick else [('arr:char', 'arr:int', 'arr:double', 'int'), ('char', 'short', 'int', 'double', 'arr:int')]):
        cases.append(P + ('fixedlayout', shape))
    chk.bounds = {'functions': 'identity functions over %d integer types/typedefs, _Bool, float, double x every Python int / double; two multi-argument functions' % len(INT_TYPES),
                  'constants': '%d integer types x {#define K <v> for v in %r, #define K ..., static const T K} x every compiler value' % (len(CTYPES), CDEF_VALUES),
                  'enums': 'one enum of three enumerators (42, -5, 0) with independent symbolic compiler values (int, long, short)',
                  'layout': 'partial structs of 0..%d fields, every reported number in [0, 2^62]' % (2 if quick else 4)}
    chk.outside = ['pointer, char, struct, enum and callback arguments; global variables; non-integer constants',
                   'compiling, importing and dlopen()ing the artefacts (the real replays do that for one function and two constants)',
                   'bit-fields in verify()\'s struct checks (ignored there by design); struct layout computation itself (C01/C12)',
                   'libffi (the generic engine calls through it: C13)']
    chk.assume('both C texts are produced by the working tree at run time and compiled with the backend\'s flags; _cffi_exports[] of both '
               'modules is bound to the backend\'s cffi_exports[] as their init functions do')
    irgen.backend()
    generated_modules()
    import harness.C13 as C13
    C13.generated_module()
    hutil.run_cases(chk, cases, dispatch)
