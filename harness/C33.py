"""C33 -- verify() gives the same library behaviour as set_source() (partial: conversions, constants, layout hand-over).

The two builds are produced AT RUN TIME by the working tree from the same (cdef, C source):
  * the C text of the verify() CPython engine (Verifier.write_source -> vengine_cpy, with its own header of conversion
    macros) and of the generic engine (vengine_gen), and
  * the C text of set_source()/emit_c_code (Recompiler, _cffi_include.h),
are compiled to LLVM IR with the backend's flags and executed side by side by llsym against the same backend IR.

  cpy:func    for every function of an identity family (17 integer types/typedefs, _Bool, float, double, two multi-argument
              functions) and EVERY Python argument object (int of any size / double): the vengine_cpy wrapper and the
              Recompiler wrapper accept the same objects, hand the C function the same value, return the same Python value
              and raise the same exception class.
  cpy:const   integer constants whose compiler value is symbolic memory (10 types x checked '#define K <v>' / unchecked
              '#define K ...' / 'static const T K'): vengine_cpy's _cffi_const_K and the Recompiler's _cffi_const_K +
              realize_global_int produce the same Python int, and the checked forms fail in exactly the same cases.
  gen:const   the generic engine: _cffi_const_K(long long *) (llsym) hands out (wrapped value, sign flag) from which the real
              VGenericEngine._load_constant (pysym, symbolic ints) rebuilds exactly the compiler's value -- the value
              set_source() reports (cpy:const's reference).
  gen:func    the generic engine calls its plain C shim through the backend's libffi path; that path against the Recompiler
              wrapper is C13's wrapper obligation, run here on the same family (cross-inclusion).
  layout      partial structs ('...;'): the numbers the C compiler reports (sizeof, alignof, offsets, sizes) reach the
              backend unchanged on both routes: vengine_cpy/_gen `_loaded_*_struct` (pysym on the real Python code with a
              symbolic layout list) sets tp.fixedlayout to exactly those numbers, as do_realize_lazy_struct does for the
              Recompiler (C12); complete structs (layout-check): verify() raises VerificationError iff some reported number
              differs from what cffi computed (symbolic numbers on both sides) -- the condition under which set_source()'s
              module raises (C12).
"""
import os, sys, json, subprocess
import z3
from vf import common, irgen, llsym, pysym, pystubs, hutil
from vf.llsym import bv, simp, mask, is_c
from vf.pystubs import W, V_const
from harness.C13 import INT_TYPES
from harness.C12 import CTYPES, CDEF_VALUES

REPLAY = r'''
# Replay for C33 on the real build: the same cdef/source through ffi.verify() (both engines) and set_source()/compile();
# identity functions and constants must behave identically.
import sys, os, json, tempfile, atexit, shutil, importlib
import cffi
case = json.loads(%r)
d = tempfile.mkdtemp(); atexit.register(shutil.rmtree, d, True)
sys.path.insert(0, d)
T = case.get('ctype', 'int')
cdef = "%%s ident(%%s);\n#define KCHK %%d\n#define KANY ...\n" %% (T, T, case.get('cdef_value', 42))
src = "#include <stdint.h>\n#include <sys/types.h>\nstatic %%s ident(%%s x) { return x; }\n#define KCHK %%s\n#define KANY %%s\n" %% (
    T, T, case.get('compiler_text', '42'), case.get('compiler_text', '42'))
def build(kind):
    ffi = cffi.FFI(); ffi.cdef(cdef)
    try:
        if kind == 'set_source':
            ffi.set_source('_c33_replay_mod', src); ffi.compile(tmpdir=d)
            m = importlib.import_module('_c33_replay_mod'); return m.ffi, m.lib
        return ffi, ffi.verify(src, tmpdir=os.path.join(d, kind), force_generic_engine=(kind == 'generic'))
    except Exception as e:
        return None, type(e).__name__
def obs(f):
    try:
        return ('ok', f())
    except Exception as e:
        return ('exc', 'error' if type(e).__name__ in ('VerificationError', 'FFIError', 'error') else type(e).__name__)
for k in ('cpython', 'generic'):
    os.makedirs(os.path.join(d, k), exist_ok=True)
res = {}
for kind in ('set_source', 'cpython', 'generic'):
    ffi, lib = build(kind)
    if ffi is None:
        res[kind] = ('build', lib)
        continue
    r = []
    for v in case.get('values', [0, 1, -1]):
        r.append(obs(lambda: lib.ident(v)))
    r.append(obs(lambda: lib.KANY))
    r.append(obs(lambda: lib.KCHK))
    res[kind] = r
bad = []
for kind in ('cpython', 'generic'):
    if res[kind] != res['set_source']:
        bad.append('verify(%%s) -> %%r, set_source -> %%r' %% (kind, res[kind], res['set_source']))
for b in bad:
    print('VIOLATED:', b)
sys.exit(1 if bad else 0)
'''

_mods = None


def generated_modules():
    """(recompiler module, vengine_cpy module [internal names suffixed .v], vengine_gen module)"""
    global _mods
    if _mods is not None:
        return _mods
    sd = common.scratch_dir()
    cdef, src = [], []
    for i, (t, size, sg) in enumerate(INT_TYPES):
        cdef.append('%s id_i%d(%s);' % (t, i, t))
        src.append('static %s id_i%d(%s x) { return x; }' % (t, i, t))
    for t, n in [('_Bool', 'b'), ('float', 'f'), ('double', 'd')]:
        cdef.append('%s id_%s(%s);' % (t, n, t))
        src.append('static %s id_%s(%s x) { return x; }' % (t, n, t))
    cdef.append('long long mix2(short, unsigned long long);')
    src.append('static long long mix2(short a, unsigned long long b) { return a + (long long)b; }')
    cdef.append('int second3(unsigned char, int, long);')
    src.append('static int second3(unsigned char a, int b, long c) { return b; }')
    for i, (t, size, sg) in enumerate(CTYPES):
        src.append('extern %s sym_%d;' % (t, i))
        for j, v in enumerate(CDEF_VALUES):
            cdef.append('#define K%d_%d %d' % (i, j, v))
            src.append('#define K%d_%d sym_%d' % (i, j, i))
        cdef.append('#define U%d ...' % i)
        src.append('#define U%d sym_%d' % (i, i))
        cdef.append('static const %s S%d;' % (t, i))
        src.append('#define S%d sym_%d' % (i, i))
    cdef.append('enum en { EA = 42, EB = -5, EC = 0 };')
    src.append('#define EA sym_2\n#define EB sym_3\n#define EC sym_1\nenum en { EN_DUMMY };')
    code = '''
import sys
sys.path.insert(0, %r)
import cffi
from cffi.verifier import Verifier
cdef, src, sd = %r, %r, %r
ffi = cffi.FFI(); ffi.cdef(cdef)
ffi.set_source('_verif_c33r', src)
ffi.emit_c_code(sd + '/_verif_c33r.c')
for gen in (False, True):
    ffi = cffi.FFI(); ffi.cdef(cdef)
    name = '_verif_c33g' if gen else '_verif_c33v'
    v = Verifier(ffi, src, tmpdir=sd, modulename=name, force_generic_engine=gen)
    with open(sd + '/' + name + '.c', 'w') as f:
        v.write_source(file=f)
''' % (os.path.join(common.REPO, 'src'), '\n'.join(cdef) + '\n', '#include <stdint.h>\n#include <sys/types.h>\n' + '\n'.join(src) + '\n', sd)
    r = subprocess.run(['/venv/bin/python', '-c', code], stdout=subprocess.PIPE, stderr=subprocess.STDOUT)
    if r.returncode != 0:
        raise common.Inconclusive('generating the two builds failed:\n' + r.stdout.decode()[-1500:])
    inc = ['-I' + os.path.join(common.REPO, 'src/cffi')]
    rec = irgen.compile_ir(os.path.join(sd, '_verif_c33r.c'), '_verif_c33r', extra_flags=inc)
    cpy = irgen.compile_ir(os.path.join(sd, '_verif_c33v.c'), '_verif_c33v', extra_flags=inc, rename_internal='.v')
    gen = irgen.compile_ir(os.path.join(sd, '_verif_c33g.c'), '_verif_c33g', extra_flags=inc, rename_internal='.g')
    _mods = (rec, cpy, gen)
    return _mods


def bind_exports(ex, back, names):
    """what _cffi_init does in both kinds of module: copy the backend's table of exported functions"""
    src = ex.gaddr('cffi_exports')
    n = back.sizeof(back.globals['cffi_exports'].ty) // 8
    for nm in names:
        dst = ex.gaddr(nm)
        # each kind of module copies as many entries as its own table has (_CFFI_NUM_EXPORTS)
        for k in range(min(n, ex.mem.region_of(dst).size // 8)):
            ex.mem.store(dst + 8 * k, ex.mem.load(src + 8 * k, 8), 8)


def make_replay(chk, ctype='int', values=None, cdef_value=42, compiler_text='42'):
    def replay(case):
        vals = values(case) if callable(values) else (values or [0, 1, -1])
        c = {'ctype': ctype, 'values': vals, 'cdef_value': cdef_value,
             'compiler_text': compiler_text(case) if callable(compiler_text) else compiler_text}
        path = chk.write_replay('verify-vs-set_source', REPLAY % json.dumps(c))
        rc, out = common.run_replay(path, timeout=600)
        return common.replay_verdict(rc, out), path
    return replay


def same_pyvalue(ex, py, a, b):
    a, b = simp(a), simp(b)
    if a == b:
        return True
    ia, ib = py.info(a), py.info(b)
    if ia['kind'] != ib['kind']:
        return False
    if ia['kind'] == 'int':
        if ('bool' in ia) != ('bool' in ib):
            return False
        return ia['V'] == ib['V']
    if ia['kind'] == 'float':
        x, y = bv(ia['bits'], 64), bv(ib['bits'], 64)
        return z3.Or(x == y, z3.And(z3.fpIsNaN(z3.fpBVToFP(x, z3.Float64())), z3.fpIsNaN(z3.fpBVToFP(y, z3.Float64()))))
    return False


def func_worker(args):
    prop, tier, kind, fname, tname, size, signed_ = args
    chk = hutil.sub_check(prop, tier)
    back = irgen.backend()
    rec, cpy, gen = generated_modules()
    label = 'cpy:func:%s(%s)' % (fname, tname)
    ex = llsym.Executor([rec, cpy, back], pystubs.stubs(), loop_bound=16)

    def values(case):
        v = case.get('v')
        if v is None:
            return [0, 1, -1]
        return [llsym.signed(v, W)]
    replay = make_replay(chk, tname, values) if kind in ('int', 'bool') else None

    def h(ex):
        py = pystubs.PyEnv(ex)
        bind_exports(ex, back, ['_cffi_exports', '_cffi_exports.v'])
        trace = []
        ex.stubs['PyEval_SaveThread'] = lambda e: (trace.append('SaveThread'), 0x77)[1]
        ex.stubs['PyEval_RestoreThread'] = lambda e, t: trace.append('RestoreThread')
        errno_cell = ex.mem.alloc(4, 'errno', 'heap', fill=0)
        ex.stubs['__errno_location'] = lambda e: (trace.append('errno-access'), errno_cell.base)[1]
        inputs = {}
        if kind in ('int', 'bool'):
            V = z3.BitVec('v', W)
            inputs['v'] = V
            mk = lambda: py.new_int(V)
        else:
            B = z3.BitVec('bits', 64)
            inputs['bits'] = B
            mk = lambda: py.new_float(B)
        D = lambda n, c: hutil.discharge(chk, ex, label + ':' + n, c, inputs, replay=replay)
        r1 = simp(ex.call('_cffi_f_' + fname, [0, mk()]))
        e1, t1 = py.exc, list(trace)
        py.exc = None
        del trace[:]
        r2 = simp(ex.call('_cffi_f_' + fname + '.v', [0, mk()]))
        e2, t2 = py.exc, list(trace)
        ok1 = is_c(r1) and r1 != 0 and e1 is None
        ok2 = is_c(r2) and r2 != 0 and e2 is None
        hutil.witness(chk, ex, label + (':accepted' if ok1 else ':rejected'))
        D('verify-accepts-iff-set_source-accepts', ok1 == ok2)
        if ok1 and ok2:
            D('same-result-object', same_pyvalue(ex, py, r1, r2))
            D('same-errno-and-GIL-bracket', t1 == t2)
        elif not ok1 and not ok2:
            D('same-exception', e1 == e2)

    def on_oob(ex2, what_, model):
        chk.report_failure('%s: stray memory access: %s' % (label, what_), {}, None, None)
    ex.on_oob = on_oob
    res = ex.explore(h, max_paths=2000)
    hutil.finish_explore(chk, ex, res, label)
    if not chk.witnesses:
        chk.inconc(label + ': no path reached an obligation')
    chk.functions = irgen.func_info(rec, sorted(ex.called)) + irgen.func_info(cpy, sorted(ex.called)) + irgen.func_info(back, sorted(ex.called))
    return hutil.export(chk)


def routing_worker(args):
    prop, tier, kind, fname = args
    chk = hutil.sub_check(prop, tier)
    back = irgen.backend()
    rec, cpy, gen = generated_modules()
    label = 'cpy:func:%s' % fname
    nargs = {'mix2': 2, 'second3': 3}[fname]
    ex = llsym.Executor([rec, cpy, back], pystubs.stubs(), loop_bound=16)

    def h(ex):
        py = pystubs.PyEnv(ex)
        bind_exports(ex, back, ['_cffi_exports', '_cffi_exports.v'])
        errno_cell = ex.mem.alloc(4, 'errno', 'heap', fill=0)
        ex.stubs.update({'PyEval_SaveThread': lambda e: 0x77, 'PyEval_RestoreThread': lambda e, t: None,
                         '__errno_location': lambda e: errno_cell.base})

        def parse_tuple(e, args_, fmt, *outs):
            items = py.info(simp(args_))['items']
            for o, it in zip(outs, items):
                e.mem.store(o, it, 8)
            return 1
        ex.stubs['PyArg_ParseTuple'] = parse_tuple
        ex.stubs['_PyArg_ParseTuple_SizeT'] = parse_tuple
        ex.stubs['PyArg_UnpackTuple'] = lambda e, args_, name, mn, mx, *outs: parse_tuple(e, args_, 0, *outs)
        Vs = [z3.BitVec('v%d' % i, W) for i in range(nargs)]
        inputs = dict(('v%d' % i, v) for i, v in enumerate(Vs))
        D = lambda n, c: hutil.discharge(chk, ex, label + ':' + n, c, inputs)
        mk = lambda: py.new_tuple([py.new_int(V) for V in Vs])
        # the Recompiler's METH_FASTCALL-less wrappers take (self, args)
        r1 = simp(ex.call('_cffi_f_' + fname, [0, mk()]))
        e1 = py.exc
        py.exc = None
        r2 = simp(ex.call('_cffi_f_' + fname + '.v', [0, mk()]))
        e2 = py.exc
        ok1 = is_c(r1) and r1 != 0 and e1 is None
        ok2 = is_c(r2) and r2 != 0 and e2 is None
        hutil.witness(chk, ex, label + (':accepted' if ok1 else ':rejected'))
        D('verify-accepts-iff-set_source-accepts', ok1 == ok2)
        if ok1 and ok2:
            D('same-result-object', same_pyvalue(ex, py, r1, r2))
        elif not ok1 and not ok2:
            D('same-exception', e1 == e2)

    res = ex.explore(h, max_paths=4000)
    hutil.finish_explore(chk, ex, res, label)
    if not chk.witnesses:
        chk.inconc(label + ': no path reached an obligation')
    chk.functions = irgen.func_info(rec, sorted(ex.called)) + irgen.func_info(cpy, sorted(ex.called))
    return hutil.export(chk)


def const_worker(args):
    prop, tier, kind, i, form = args
    chk = hutil.sub_check(prop, tier)
    back = irgen.backend()
    rec, cpy, gen = generated_modules()
    t, size, sg = CTYPES[i]
    cname = {'U': 'U%d' % i, 'S': 'S%d' % i}.get(form) or ('K%d_%d' % (i, form))
    checked = form not in ('U', 'S')
    label = 'cpy:const:%s:%s' % (t, ('cdef=%d' % CDEF_VALUES[form]) if checked else {'U': '#define ...', 'S': 'static const'}[form])

    def ext(ex, name, g, m):
        if name.startswith('sym_'):
            k = int(name[4:])
            sz = CTYPES[k][1]
            r = ex.mem.alloc(sz, '@' + name, 'global')
            ex.mem.store(r.base, z3.BitVec('compiler_value', 8 * sz), sz)
            return r
        return pystubs.extern_global(ex, name, g, m)
    st = pystubs.stubs()
    st['@*'] = ext
    st['sprintf'] = lambda e, dst, fmt, *a: (e.mem.store(dst, 0, 1), 0)[1]
    st['snprintf'] = lambda e, dst, n, fmt, *a: (e.mem.store(dst, 0, 1), 0)[1]
    ex = llsym.Executor([rec, cpy, back], st, loop_bound=16)
    bl = back.struct_layout(('named', 'struct.builder_c_t'))
    ctxl = back.struct_layout(('named', 'struct._cffi_type_context_s'))
    gl = back.struct_layout(('named', 'struct._cffi_global_s'))

    def text(case):
        raw = case.get('compiler_value', 0)
        v = llsym.signed(raw, 8 * size) if sg else raw
        return '((%s)%d%s)' % (t, v, '' if sg else 'u') if v >= 0 else '((%s)(%d))' % (t, v)
    replay = make_replay(chk, 'int', [0], CDEF_VALUES[form] if checked else 42, text)

    def h(ex):
        py = pystubs.PyEnv(ex)
        bind_exports(ex, back, ['_cffi_exports', '_cffi_exports.v'])
        obj = ex.mem.alloc(64, 'exc:FFIError', 'pyobj', fill=0)
        ex.mem.store(obj.base, 1 << 32, 8)
        ex.mem.store(ex.gaddr('FFIError'), obj.base, 8)
        C = z3.BitVec('compiler_value', 8 * size)
        inputs = {'compiler_value': C}
        D = lambda n, c: hutil.discharge(chk, ex, label + ':' + n, c, inputs, replay=replay)
        # set_source(): generated _cffi_const_X + realize_global_int
        builder = ex.mem.alloc(bl[1], 'builder', 'heap', fill=0)
        globs = ex.mem.alloc(gl[1], 'globals[1]', 'heap', fill=0)
        nm = ex.mem.alloc(8, 'name', 'heap', fill=0)
        ex.mem.store(globs.base + gl[0][0], nm.base, 8)
        ex.mem.store(globs.base + gl[0][1], ex.faddr('_cffi_const_' + cname), 8)
        ex.mem.store(builder.base + bl[0][0] + ctxl[0][1], globs.base, 8)
        ex.mem.store(builder.base + bl[0][0] + ctxl[0][6], 1, 4)
        r1 = simp(ex.call('realize_global_int', [builder.base, 0]))
        e1 = py.exc
        ok1 = is_c(r1) and r1 != 0 and e1 is None
        py.exc = None
        # verify(): vengine_cpy's _cffi_const_X(lib) sets lib.X (the chain of constants after it is cut)
        got = []

        def setattr_(e, lib, name, o):
            got.append((llsym.c_string(e, name).decode(), simp(o)))
            return 0
        ex.stubs['PyObject_SetAttrString'] = setattr_
        for f_ in list(cpy.functions):
            if f_.startswith('_cffi_const_') and f_ != '_cffi_const_' + cname + '.v' or f_.startswith('_cffi_e_'):
                ex.stubs[f_] = lambda e, lib: 0
        ex.stubs['_cffi_setup_custom.v'] = lambda e, lib: 0
        verr = ex.mem.alloc(64, 'exc:VerificationError', 'pyobj', fill=0)
        ex.mem.store(verr.base, 1 << 32, 8)
        ex.mem.store(ex.gaddr('_cffi_VerificationError.v'), verr.base, 8)
        r2 = simp(ex.call('_cffi_const_' + cname + '.v', [py.new_opaque('lib')]))
        e2 = py.exc
        mine = [o for n_, o in got if n_ == cname]
        ok2 = is_c(r2) and llsym.signed(r2, 32) >= 0 and e2 is None and len(mine) == 1
        hutil.witness(chk, ex, label + (':value' if ok1 else ':error'))
        D('verify-fails-iff-set_source-fails', ok1 == ok2)
        if ok1 and ok2:
            D('same-python-int', same_pyvalue(ex, py, r1, mine[0]))
        elif not ok1 and not ok2:
            D('both-report-a-verification-error', e1 == 'FFIError' and e2 == 'VerificationError')

    def on_oob(ex2, what_, model):
        chk.report_failure('%s: stray memory access: %s' % (label, what_), {}, None, None)
    ex.on_oob = on_oob
    res = ex.explore(h, max_paths=1000)
    hutil.finish_explore(chk, ex, res, label)
    if not chk.witnesses:
        chk.inconc(label + ': no path reached an obligation')
    chk.functions = irgen.func_info(rec, sorted(ex.called)) + irgen.func_info(cpy, sorted(ex.called)) + irgen.func_info(back, sorted(ex.called))
    return hutil.export(chk)


def enum_worker(args):
    """enum en { EA = 42, EB = -5, EC = 0 } with three independent symbolic compiler values: verify()'s check function accepts
    iff the C source matches the cdef, and then set_source()'s enumerator constants have the same values"""
    prop, tier, kind = args
    chk = hutil.sub_check(prop, tier)
    back = irgen.backend()
    rec, cpy, gen = generated_modules()
    label = 'cpy:enum'
    SYM = {'EA': (2, 42), 'EB': (3, -5), 'EC': (1, 0)}

    def ext(ex, name, g, m):
        if name.startswith('sym_'):
            k = int(name[4:])
            sz = CTYPES[k][1]
            r = ex.mem.alloc(sz, '@' + name, 'global')
            ex.mem.store(r.base, z3.BitVec('compiler_value_%d' % k, 8 * sz), sz)
            return r
        return pystubs.extern_global(ex, name, g, m)
    st = pystubs.stubs()
    st['@*'] = ext
    st['sprintf'] = lambda e, dst, fmt, *a: (e.mem.store(dst, 0, 1), 0)[1]
    st['snprintf'] = lambda e, dst, n, fmt, *a: (e.mem.store(dst, 0, 1), 0)[1]
    ex = llsym.Executor([rec, cpy, back], st, loop_bound=16)
    bl = back.struct_layout(('named', 'struct.builder_c_t'))
    ctxl = back.struct_layout(('named', 'struct._cffi_type_context_s'))
    gl = back.struct_layout(('named', 'struct._cffi_global_s'))

    def h(ex):
        py = pystubs.PyEnv(ex)
        bind_exports(ex, back, ['_cffi_exports', '_cffi_exports.v'])
        obj = ex.mem.alloc(64, 'exc:FFIError', 'pyobj', fill=0)
        ex.mem.store(obj.base, 1 << 32, 8)
        ex.mem.store(ex.gaddr('FFIError'), obj.base, 8)
        inputs = dict(('compiler_value_%d' % k, z3.BitVec('compiler_value_%d' % k, 8 * CTYPES[k][1])) for k, _ in SYM.values())
        ok_all, vals = True, {}
        for nm, (k, want) in sorted(SYM.items()):
            builder = ex.mem.alloc(bl[1], 'builder', 'heap', fill=0)
            globs = ex.mem.alloc(gl[1], 'globals[1]', 'heap', fill=0)
            nmr = ex.mem.alloc(8, 'name', 'heap', fill=0)
            ex.mem.store(globs.base + gl[0][0], nmr.base, 8)
            ex.mem.store(globs.base + gl[0][1], ex.faddr('_cffi_const_' + nm), 8)
            ex.mem.store(builder.base + bl[0][0] + ctxl[0][1], globs.base, 8)
            ex.mem.store(builder.base + bl[0][0] + ctxl[0][6], 1, 4)
            r1 = simp(ex.call('realize_global_int', [builder.base, 0]))
            if not (is_c(r1) and r1 != 0 and py.exc is None):
                ok_all = False
            else:
                vals[nm] = r1
            py.exc = None
        for f_ in list(cpy.functions):
            if f_.startswith('_cffi_const_') or (f_.startswith('_cffi_e_') and f_ != '_cffi_e_enum_en.v'):
                ex.stubs[f_] = lambda e, lib: 0
        ex.stubs['_cffi_setup_custom.v'] = lambda e, lib: 0
        verr = ex.mem.alloc(64, 'exc:VerificationError', 'pyobj', fill=0)
        ex.mem.store(verr.base, 1 << 32, 8)
        ex.mem.store(ex.gaddr('_cffi_VerificationError.v'), verr.base, 8)
        r2 = simp(ex.call('_cffi_e_enum_en.v', [py.new_opaque('lib')]))
        ok2 = is_c(r2) and llsym.signed(r2, 32) >= 0 and py.exc is None
        # the statement is about a C source that MATCHES the cdef: set_source() takes an enumerator's value from the compiler
        # without comparing it with the cdef (by design), verify() insists on equality
        C = lambda k: z3.BitVec('compiler_value_%d' % k, 8 * CTYPES[k][1])
        ext_ = lambda k: z3.SignExt(W - 8 * CTYPES[k][1], C(k))
        matches = z3.And(*[ext_(k) == V_const(want) for nm, (k, want) in SYM.items()])
        hutil.witness(chk, ex, label + (':verify-accepts' if ok2 else ':verify-rejects'))
        hutil.discharge(chk, ex, label + ':verify-accepts-iff-the-source-matches-the-cdef', z3.BoolVal(ok2) == matches, inputs)
        if ok2:
            hutil.discharge(chk, ex, label + ':matching-source=>set_source-accepts-too', ok_all, inputs)
            if ok_all:
                hutil.discharge(chk, ex, label + ':matching-source=>same-values-(the-cdef-values)',
                                z3.And(*[py.info(vals[nm])['V'] == V_const(want) for nm, (k, want) in SYM.items()]), inputs)
        else:
            hutil.discharge(chk, ex, label + ':rejected-with-VerificationError', py.exc == 'VerificationError', inputs)

    res = ex.explore(h, max_paths=2000)
    hutil.finish_explore(chk, ex, res, label)
    if not chk.witnesses:
        chk.inconc(label + ': no path reached an obligation')
    chk.functions = irgen.func_info(rec, sorted(ex.called)) + irgen.func_info(cpy, sorted(ex.called))
    return hutil.export(chk)


def genconst_worker(args):
    """generic engine: C shim (llsym) + VGenericEngine._load_constant (pysym)"""
    prop, tier, kind, i = args
    chk = hutil.sub_check(prop, tier)
    back = irgen.backend()
    rec, cpy, gen = generated_modules()
    t, size, sg = CTYPES[i]
    label = 'gen:const:%s' % t

    def ext(ex, name, g, m):
        if name.startswith('sym_'):
            k = int(name[4:])
            sz = CTYPES[k][1]
            r = ex.mem.alloc(sz, '@' + name, 'global')
            ex.mem.store(r.base, z3.BitVec('compiler_value', 8 * sz), sz)
            return r
        return pystubs.extern_global(ex, name, g, m)
    st = dict(llsym.LIBC)
    st['@*'] = ext
    ex = llsym.Executor([gen], st, loop_bound=16)

    def h(ex):
        C = z3.BitVec('compiler_value', 8 * size)
        wide = z3.SignExt(64 - 8 * size, C) if (sg and size < 8) else (z3.ZeroExt(64 - 8 * size, C) if size < 8 else C)
        out = ex.mem.alloc(8, 'out_value', 'heap')
        r = simp(ex.call('_cffi_const_U%d' % i, [out.base]))
        inputs = {'compiler_value': C}
        hutil.witness(chk, ex, label + ':shim')
        hutil.discharge(chk, ex, label + ':out==(long long)value', bv(ex.mem.load(out.base, 8), 64) == wide, inputs)
        neg = (wide <= 0) if sg else (wide == 0)
        hutil.discharge(chk, ex, label + ':flag==(value<=0)', (bv(r, 32) != 0) == neg, inputs)
    res = ex.explore(h, max_paths=100)
    hutil.finish_explore(chk, ex, res, label)
    # Python side: _load_constant rebuilds the value from (out, flag)
    sys.path.insert(0, os.path.join(common.REPO, 'src'))
    from cffi import vengine_gen
    px = pysym.PyExplorer()

    def hp(px):
        v = px.sym_int('compiler_value', 'int')
        lo, hi = (-(1 << (8 * size - 1)), (1 << (8 * size - 1)) - 1) if sg else (0, (1 << (8 * size)) - 1)
        px.assume(z3.And(v.t >= lo, v.t <= hi))
        # what the shim hands out, per the two lemmas above
        wrapped = v - (1 << 64) if bool(v >= (1 << 63)) else v
        negative = 1 if bool(v <= 0) else 0

        class P(object):
            def __getitem__(self, k):
                return wrapped

        class FFI(object):
            def _typeof_locked(self, s):
                return (s,)

            def new(self, T):
                return P()

            def sizeof(self, T):
                return 8

        class Module(object):
            def load_function(self, BFunc, name):
                return lambda p: negative
        eng = vengine_gen.VGenericEngine.__new__(vengine_gen.VGenericEngine)
        eng.ffi = FFI()
        # int(p[0]) of a 'long long' cdata is that integer
        vengine_gen.__dict__['int'] = lambda x: x if isinstance(x, pysym.SymInt) else int(x)
        try:
            got = eng._load_constant(True, None, 'U', Module())
        finally:
            del vengine_gen.__dict__['int']
        hutil.witness(chk, px, label + ':python-side')
        t_ = got.t if hasattr(got, 't') else got
        def text(case):
            c = case.get('compiler_value', 0)
            return '((%s)%d%s)' % (t, c, '' if sg else 'u') if c >= 0 else '((%s)(%d))' % (t, c)
        hutil.discharge(chk, px, label + ':_load_constant-rebuilds-the-compiler-value', t_ == v.t, {'compiler_value': v.t},
                        replay=make_replay(chk, 'int', [0], 42, text))
    res = px.explore(hp, max_paths=100)
    hutil.finish_explore(chk, px, res, label)
    if not chk.witnesses:
        chk.inconc(label + ': no path reached an obligation')
    chk.functions = irgen.func_info(gen, sorted(ex.called)) + [{'name': 'VGenericEngine._load_constant', 'file': 'src/cffi/vengine_gen.py'}]
    return hutil.export(chk)


def layout_worker(args):
    """verify(): the layout list of a partial struct reaches tp.fixedlayout unchanged (both engines)"""
    prop, tier, kind, engine, nfields = args
    chk = hutil.sub_check(prop, tier)
    sys.path.insert(0, os.path.join(common.REPO, 'src'))
    from cffi import vengine_cpy, vengine_gen, model
    label = 'layout:%s:%d-fields' % (engine, nfields)
    px = pysym.PyExplorer()

    def hp(px):
        nums = [px.sym_int('n%d' % k, 'int') for k in range(2 + 2 * nfields)]
        for n in nums:
            px.assume(z3.And(n.t >= 0, n.t <= (1 << 62)))
        names = ['f%d' % k for k in range(nfields)]
        tp = model.StructType('s', names, [model.PrimitiveType('int')] * nfields, [-1] * nfields)
        tp.partial = True
        if engine == 'cpy':
            eng = vengine_cpy.VCPythonEngine.__new__(vengine_cpy.VCPythonEngine)

            class Module(object):
                def _cffi_layout_struct_s(self):
                    return list(nums)
            module = Module()
        else:
            eng = vengine_gen.VGenericEngine.__new__(vengine_gen.VGenericEngine)

            class FFI(object):
                def _typeof_locked(self, s):
                    return (s,)

            class Module(object):
                def load_function(self, BFunc, name):
                    return lambda k: nums[k] if k < len(nums) else -1
            eng.ffi = FFI()
            module = Module()
        eng._struct_pending_verification = {}
        eng._loading_struct_or_union(tp, 'struct', 's', module)
        hutil.witness(chk, px, label + ':loaded')
        fl = getattr(tp, 'fixedlayout', None)
        inputs = dict(('n%d' % k, n.t) for k, n in enumerate(nums))
        okk = fl is not None and len(fl) == 4 and len(fl[0]) == nfields and len(fl[1]) == nfields
        hutil.discharge(chk, px, label + ':fixedlayout-set', okk, inputs)
        if okk:
            T = lambda x: x.t if hasattr(x, 't') else x
            conds = [T(fl[2]) == nums[0].t, T(fl[3]) == nums[1].t]
            for k in range(nfields):
                conds.append(T(fl[0][k]) == nums[2 + 2 * k].t)
                conds.append(T(fl[1][k]) == nums[3 + 2 * k].t)
            hutil.discharge(chk, px, label + ':sizeof-alignof-offsets-sizes-handed-over-unchanged', z3.And(*conds), inputs)
    res = px.explore(hp, max_paths=200)
    hutil.finish_explore(chk, px, res, label)
    if not chk.witnesses:
        chk.inconc(label + ': no path reached an obligation')
    chk.functions = [{'name': n, 'file': 'src/cffi/vengine_%s.py' % engine} for n in ('_loading_struct_or_union',)]
    return hutil.export(chk)


def layoutcheck_worker(args):
    """verify(): a complete struct is accepted iff every number the C compiler reports equals what cffi computed from the cdef
    (the same condition under which set_source()'s module raises: C12) -- both engines, symbolic numbers on both sides"""
    prop, tier, kind, engine, nfields = args
    chk = hutil.sub_check(prop, tier)
    sys.path.insert(0, os.path.join(common.REPO, 'src'))
    from cffi import vengine_cpy, vengine_gen, model
    from cffi.error import VerificationError
    label = 'layout-check:%s:%d-fields' % (engine, nfields)
    px = pysym.PyExplorer()

    def hp(px):
        comp = [px.sym_int('compiler_%d' % k, 'int') for k in range(2 + 2 * nfields)]
        mine = [px.sym_int('cffi_%d' % k, 'int') for k in range(2 + 2 * nfields)]
        for n in comp + mine:
            px.assume(z3.And(n.t >= 0, n.t <= (1 << 40)))
        names = ['f%d' % k for k in range(nfields)]
        ftypes = [model.PrimitiveType('int') for _ in range(nfields)]
        tp = model.StructType('s', names, ftypes, [-1] * nfields)

        class BT(object):
            def __init__(self, what):
                self.what = what

        class FFI(object):
            def _typeof_locked(self, s):
                return (s,)

            def _get_cached_btype(self, t):
                if t is tp:
                    return BT('struct')
                return BT(('field', [i for i, f in enumerate(ftypes) if f is t][0]))

            def sizeof(self, bt):
                return mine[0] if bt.what == 'struct' else mine[3 + 2 * bt.what[1]]

            def alignof(self, bt):
                return mine[1]

            def offsetof(self, bt, fname):
                return mine[2 + 2 * names.index(fname)]
        if engine == 'cpy':
            eng = vengine_cpy.VCPythonEngine.__new__(vengine_cpy.VCPythonEngine)

            class Module(object):
                def _cffi_layout_struct_s(self):
                    return list(comp)
            module = Module()
        else:
            eng = vengine_gen.VGenericEngine.__new__(vengine_gen.VGenericEngine)

            class Module(object):
                def load_function(self, BFunc, name):
                    return lambda k: comp[k] if k < len(comp) else -1
            module = Module()
        eng.ffi = FFI()
        eng._struct_pending_verification = {}
        eng._loading_struct_or_union(tp, 'struct', 's', module)
        try:
            eng._loaded_struct_or_union(tp)
            outcome = 'accepted'
        except VerificationError:
            outcome = 'VerificationError'
        except llsym.Unsupported as e:
            # check() formats its message with '%d' before raising: the only int() of a symbolic number in this code
            # (formatting is not the subject)
            if 'int() of a symbolic int' not in str(e):
                raise
            outcome = 'VerificationError'
        hutil.witness(chk, px, label + ':' + outcome)
        inputs = dict(('compiler_%d' % k, n.t) for k, n in enumerate(comp))
        inputs.update(dict(('cffi_%d' % k, n.t) for k, n in enumerate(mine)))
        differs = [comp[0].t != mine[0].t, comp[1].t != mine[1].t]
        for k in range(nfields):
            differs.append(comp[2 + 2 * k].t != mine[2 + 2 * k].t)
            # a reported field size of 0 means "unknown" (open array): not compared
            differs.append(z3.And(comp[3 + 2 * k].t != 0, comp[3 + 2 * k].t != mine[3 + 2 * k].t))
        any_diff = z3.Or(*differs)
        if outcome == 'accepted':
            hutil.discharge(chk, px, label + ':accepted=>every-number-agrees', z3.Not(any_diff), inputs)
        else:
            hutil.discharge(chk, px, label + ':rejected=>some-number-differs', any_diff, inputs)
    res = px.explore(hp, max_paths=2000)
    hutil.finish_explore(chk, px, res, label)
    if not chk.witnesses:
        chk.inconc(label + ': no path reached an obligation')
    chk.functions = [{'name': n, 'file': 'src/cffi/vengine_%s.py' % engine} for n in ('_loading_struct_or_union', '_loaded_struct_or_union')]
    return hutil.export(chk)


def dispatch(args):
    k = args[2]
    if k in ('int', 'bool', 'double'):
        return func_worker(args)
    if k == 'routing':
        return routing_worker(args)
    if k == 'const':
        return const_worker(args)
    if k == 'genconst':
        return genconst_worker(args)
    if k == 'enum':
        return enum_worker(args)
    if k == 'layout':
        return layout_worker(args)
    if k == 'layoutcheck':
        return layoutcheck_worker(args)
    if k == 'c13':
        from harness import C13
        return C13.wrapper_worker((args[0], args[1]) + tuple(args[3]))
    raise ValueError(k)


def run(chk):
    quick = chk.tier == 'quick'
    P = (chk.prop, chk.tier)
    cases = []
    for i, (t, size, sg) in enumerate(INT_TYPES):
        cases.append(P + ('int', 'id_i%d' % i, t, size, sg))
        # generic engine == libffi path (C13's obligation on the same family)
        cases.append(P + ('c13', ('int', 'id_i%d' % i, t, size, sg)))
    cases.append(P + ('bool', 'id_b', '_Bool', 1, False))
    cases.append(P + ('double', 'id_d', 'double', 8, True))
    cases.append(P + ('double', 'id_f', 'float', 4, True))
    cases.append(P + ('c13', ('bool', 'id_b', '_Bool', 1, False)))
    cases.append(P + ('c13', ('double', 'id_d', 'double', 8, True)))
    cases.append(P + ('routing', 'mix2'))
    cases.append(P + ('routing', 'second3'))
    for i in range(len(CTYPES)):
        for form in list(range(len(CDEF_VALUES))) + ['U', 'S']:
            cases.append(P + ('const', i, form))
        cases.append(P + ('genconst', i))
    cases.append(P + ('enum',))
    for engine in ('cpy', 'gen'):
        for n in range(0, 3 if quick else 5):
            cases.append(P + ('layout', engine, n))
            cases.append(P + ('layoutcheck', engine, n))
    chk.bounds = {'functions': 'identity functions over %d integer types/typedefs, _Bool, float, double x every Python int / double; two multi-argument functions' % len(INT_TYPES),
                  'constants': '%d integer types x {#define K <v> for v in %r, #define K ..., static const T K} x every compiler value' % (len(CTYPES), CDEF_VALUES),
                  'enums': 'one enum of three enumerators (42, -5, 0) with independent symbolic compiler values (int, long, short)',
                  'layout': 'partial structs of 0..%d fields, every reported number in [0, 2^62]' % (2 if quick else 4)}
    chk.outside = ['pointer, char, struct, enum and callback arguments; global variables; non-integer constants',
                   'compiling, importing and dlopen()ing the artefacts (the real replays do that for one function and two constants)',
                   'bit-fields in verify()\'s struct checks (ignored there by design); struct layout computation itself (C01/C12)',
                   'libffi (the generic engine calls through it: C13)']
    chk.assume('both C texts are produced by the working tree at run time and compiled with the backend\'s flags; _cffi_exports[] of both '
               'modules is bound to the backend\'s cffi_exports[] as their init functions do')
    irgen.backend()
    generated_modules()
    import harness.C13 as C13
    C13.generated_module()
    hutil.run_cases(chk, cases, dispatch)
