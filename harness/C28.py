"""C28 -- embedded-library start-up initializes once and never deadlocks (rely/guarantee on the real code).

The C code of an embedding module is *generated at run time* by the working tree's Recompiler (embedding_api +
embedding_init_code), so the text of src/cffi/_embedding.h is compiled as it would be shipped.  llsym runs ONE
thread's real _cffi_start_and_call_python / cffi_start_python -> _cffi_start_python -> _cffi_carefully_make_gil /
_cffi_acquire_reentrant_mutex / _cffi_release_reentrant_mutex against an *environment* that stands for every other
thread of this and of other embedded libraries: at every point where another thread can run (each atomic
compare-and-swap, each read of a shared word, each blocking call, each call-out) the environment moves the shared
state to ANY state reachable by steps the rely R allows.

 Shared state.  G = the process-wide spin-lock word (PyCapsule_Type.tp_as_buffer): free | mine | theirs.
   py = Py_IsInitialized (monotone).  Per library: W = the CAS word guarding the lazy mutex creation (free | mine |
   theirs), ready (monotone), M = the recursive start-up mutex (holder none | me(count) | other), called (monotone),
   init in {not-run, running-by-other, done-ok, failed}, _cffi_call_python (trampoline | fast path), org pointer.
 R (other threads).  They take G / W / M only when free and release only their own hold; set py only while holding G;
   create the mutex and set ready only while holding W; set called, run the init code, publish the fast path / clear
   org only while holding M; monotone words never go back.  A blocked acquire of mine eventually finds the lock free
   (fairness: every holder releases -- which is exactly the guarantee below for every thread).
 G (my thread, checked at every step).  Py_InitializeEx only while I hold G and py is false; the mutex is created
   only while I hold W and ready is false; the init code runs only while I hold M, called was false (I set it) and
   nobody ran it before; the fast path is published only under M, after a successful init and after the write
   barrier; org is cleared only under M after a failed init; the extern "Python" function is entered only after the
   library's init code finished successfully (or from inside my own init code: re-entrancy); after a failed init
   the result is zeroed and the function is not entered; on return I hold none of G, W, M (every lock is released on
   every path: with R this gives termination under fair scheduling); the recursive call from inside the init code
   does not block and does not run the init code again.
"""
import os, sys, json, subprocess
import z3
from vf import common, irgen, llsym, pystubs, hutil
from vf.llsym import bv, simp, mask, is_c

_gen = None


def generated_module():
    global _gen
    if _gen is not None:
        return _gen
    sd = common.scratch_dir()
    code = '''
import sys
sys.path.insert(0, %r)
import cffi
ffi = cffi.FFI()
ffi.embedding_api("long add1(long, long);")
ffi.embedding_init_code("pass")
ffi.set_source('_verif_c28', '')
ffi.emit_c_code(%r)
''' % (os.path.join(common.REPO, 'src'), os.path.join(sd, '_verif_c28.c'))
    r = subprocess.run(['/venv/bin/python', '-c', code], stdout=subprocess.PIPE, stderr=subprocess.STDOUT)
    if r.returncode != 0:
        raise common.Inconclusive('Recompiler failed on the embedding module:\n' + r.stdout.decode()[-1500:])
    _gen = irgen.compile_ir(os.path.join(sd, '_verif_c28.c'), '_verif_c28', extra_flags=['-I' + os.path.join(common.REPO, 'src/cffi')])
    return _gen


class World(object):
    """shared state + the environment's moves + the guarantee monitor"""

    def __init__(self, ex, mod, init_state, py_init):
        self.ex, self.mod = ex, mod
        self.n = 0
        self.bad = []
        self.events = []
        mem = ex.mem
        # addresses of the shared words in the real memory image
        cap = ex.gaddr('PyCapsule_Type')
        self.G = cap + 160                      # offsetof(PyTypeObject, tp_as_buffer), checked against the IR below
        self.W = ex.gaddr('_cffi_acquire_reentrant_mutex.lock')
        self.READY = ex.gaddr('_cffi_embed_startup_lock_ready')
        self.CALLED = ex.gaddr('_cffi_start_python.called')
        self.CP = ex.gaddr('_cffi_call_python')
        self.ORG = ex.gaddr('_cffi_exports') + 8 * 25       # _CFFI_CPIDX, checked below
        self.mine_G = ex.gaddr('_cffi_carefully_make_gil.empty_buffer_procs')
        self.their_G = mem.alloc(96, "another library's empty_buffer_procs", 'heap', fill=0).base
        mem.store(self.their_G + 80, (-42) & mask(32), 4)
        self.fast = 0x0C0FFEE0                  # address of cffi_call_python in _cffi_backend (a token: called through '!indirect')
        self.tramp = ex.faddr('_cffi_start_and_call_python')
        # library state
        self.py = py_init
        self.m_holder, self.m_count = 'none', 0
        self.mutex_exists = False
        self.init = init_state                  # 'not-run' | 'done-ok' | 'failed'   (by other threads, before I arrive)
        self.my_init_depth = 0
        self.my_init_result = None
        self.fences = 0
        self.fence_before_publish = None
        # memory image consistent with the state
        mem.store(self.G, 0, 8)
        mem.store(self.W, 0, 8)
        ready = init_state != 'not-run'
        self.mutex_exists = ready
        mem.store(self.READY, 1 if ready else 0, 1)
        mem.store(self.CALLED, 0 if init_state == 'not-run' else 1, 1)
        mem.store(self.ORG, 0 if init_state == 'failed' else self.fast, 8)
        # after a successful init by others the publication may or may not be visible to my first read
        mem.store(self.CP, self.fast if (init_state == 'done-ok' and ex.decide(z3.Bool('publication_already_visible'))) else self.tramp, 8)
        self.fail_count = {}
        if init_state != 'not-run':
            self.py = True

    # ---- helpers
    def choice(self, what):
        self.n += 1
        return self.ex.decide(z3.Bool('env%d_%s' % (self.n, what)))

    def word(self, addr, n=8):
        v = simp(self.ex.mem.load(addr, n))
        return v

    def g_state(self):
        v = self.word(self.G)
        return 'free' if v == 0 else ('mine' if v == self.mine_G else 'theirs')

    def w_state(self):
        v = self.word(self.W)
        return 'free' if v == 0 else ('held' if v == 1 else 'bad')

    def violation(self, what):
        if what not in self.bad:
            self.bad.append(what)

    # ---- the environment: any R-step sequence of the other threads
    # Partial-order reduction: a step of another thread commutes with every step of mine that does not observe it,
    # so each kind of environment step is offered exactly where I first observe its effect:
    #   contention on a spin-lock word      -> right before my compare-and-swap on it (at most once in a row: fairness)
    #   "Python already initialized"        -> at my Py_IsInitialized() (I hold G there: nobody can change it afterwards)
    #   "start-up mutex already created"    -> when I get the creation word W (nobody can create it while I hold W)
    #   "init code already run by others"   -> when I get the mutex M (they run it, publish and release under M)
    def contention(self, which):
        if self.fail_count.get(which, 0) >= 1:
            return False
        return self.choice('others_hold_' + which)

    def others_python(self):
        if not self.py and self.choice('others_initialized_python_first'):
            self.py = True

    def others_mutex(self):
        mem = self.ex.mem
        if simp(mem.load(self.READY, 1)) == 0 and self.choice('others_created_the_mutex_first'):
            self.mutex_exists = True
            mem.store(self.READY, 1, 1)

    def others_init(self):
        mem = self.ex.mem
        if self.init == 'not-run' and self.my_init_result is None and self.my_init_depth == 0 and simp(mem.load(self.CALLED, 1)) == 0 \
                and self.choice('others_ran_the_init_code_first'):
            mem.store(self.CALLED, 1, 1)
            self.py = True
            if self.choice('their_init_failed'):
                self.init = 'failed'
                mem.store(self.ORG, 0, 8)
            else:
                self.init = 'done-ok'
                mem.store(self.ORG, self.fast, 8)
                mem.store(self.CP, self.fast, 8)


def run_thread(chk, ex, mod, label, entry, init_state, py_init, recursive):
    mem = ex.mem
    py = pystubs.PyEnv(ex)
    W = World(ex, mod, init_state, py_init)
    g = ex.ghost
    inputs = {}
    # layout sanity of the two offsets taken from headers
    calls = []

    def cmpxchg(e, p, cmpv, newv, n):
        p = simp(p)
        which = 'G' if p == W.G else ('W' if p == W.W else None)
        mine = (which == 'G' and W.g_state() == 'mine') or (which == 'W' and getattr(W, 'w_mine', False))
        if which and not mine and W.contention(which):
            e.mem.store(p, W.their_G if which == 'G' else 1, n)       # another thread holds it right now
        old = e.mem.load(p, n)
        if e.decide(llsym.eq(old, cmpv, 8 * n)):
            e.mem.store(p, newv, n)
            if which == 'W':
                W.w_mine = simp(newv) == 1
                if W.w_mine:
                    W.others_mutex()
            W.fail_count[which] = 0
            return [old, 1]
        W.fail_count[which] = W.fail_count.get(which, 0) + 1
        if which and not mine:
            e.mem.store(p, 0, n)                      # the holder releases (its own guarantee); I will see the word free
        return [old, 0]

    def fence(e):
        W.fences += 1

    def py_is_initialized(e):
        W.others_python()
        return 1 if W.py else 0

    def py_initialize(e, *a):
        if W.g_state() != 'mine':
            W.violation('Py_InitializeEx called without holding the process-wide lock')
        if W.py:
            W.violation('Python initialized twice')
        W.py = True
        W.events.append('Py_InitializeEx')
        return None

    def mutexattr(e, *a):
        return 0

    def mutex_init(e, m, attr):
        if not getattr(W, 'w_mine', False):
            W.violation('start-up mutex created without holding the creation lock')
        if W.mutex_exists:
            W.violation('start-up mutex created twice')
        W.mutex_exists = True
        return 0

    def mutex_lock(e, m):
        if not W.mutex_exists:
            W.violation('pthread_mutex_lock on a mutex that was never created')
        if W.m_holder == 'me':
            W.m_count += 1                           # recursive mutex
            return 0
        W.m_holder, W.m_count = 'me', 1            # blocks until the holder releases (fairness), then:
        W.others_init()
        return 0

    def mutex_unlock(e, m):
        if W.m_holder != 'me':
            W.violation('pthread_mutex_unlock without holding the start-up mutex')
            return 0
        W.m_count -= 1
        if W.m_count == 0:
            W.m_holder = 'none'
        return 0

    def initialize_python(e):
        """the library's init code (stub for _cffi_initialize_python): runs at most once, under M"""
        if W.m_holder != 'me':
            W.violation('init code runs without holding the start-up mutex')
        if W.init != 'not-run' or W.my_init_result is not None or W.my_init_depth:
            W.violation('init code of the library runs a second time')
        if simp(e.mem.load(W.CALLED, 1)) != 1:
            W.violation("init code runs before 'called' is set (a concurrent thread would run it again)")
        if not W.py:
            W.violation('init code runs before Python is initialized')
        W.events.append('init-code')
        W.my_init_depth += 1
        if recursive and e.decide(z3.Bool('init_code_calls_back')):
            inputs['init_code_calls_back'] = z3.Bool('init_code_calls_back')
            W.events.append('recursive-call')
            r = simp(e.call('_cffi_start_python', []))
            W.events.append('recursive-return')
            if W.m_holder != 'me' or W.m_count != 1:
                W.violation('the recursive call from the init code disturbed the start-up mutex')
            g['recursive_result'] = r
        W.my_init_depth -= 1
        ok = not e.decide(z3.Bool('my_init_fails'))
        inputs['my_init_fails'] = z3.Bool('my_init_fails')
        W.my_init_result = ok
        return 0 if ok else mask(32)

    def indirect(e, addr, a):
        if addr == W.fast:
            finished = (W.init == 'done-ok') or (W.my_init_result is True) or W.my_init_depth > 0
            if not finished:
                W.violation('extern "Python" function entered before the init code of its library finished successfully')
            calls.append(('extern-python', [simp(x) for x in a]))
            return None
        raise llsym.Unsupported('indirect call to %#x' % addr)
    cell = mem.alloc(4, 'errno', 'heap', fill=0)
    ex.stubs.update({'!cmpxchg': cmpxchg, '!fence': fence, '!indirect': indirect, 'Py_IsInitialized': py_is_initialized,
                     '_cffi_py_initialize': py_initialize, 'Py_InitializeEx': py_initialize,
                     'PyEval_SaveThread': lambda e: 0x77, 'pthread_mutexattr_init': mutexattr, 'pthread_mutexattr_settype': mutexattr,
                     'pthread_mutex_init': mutex_init, 'pthread_mutex_lock': mutex_lock, 'pthread_mutex_unlock': mutex_unlock,
                     '_cffi_initialize_python': initialize_python, '__errno_location': lambda e: cell.base,
                     'fprintf': lambda e, *a: 0})
    # the spin loop of _cffi_carefully_make_gil first *reads* the word: a transient hold seen by that read is the same
    # observation as a failed compare-and-swap (it loops); both are covered by the contention choice at the CAS
    # publication order: watch the store to _cffi_call_python
    mem.log = []
    externpy = ex.gaddr('_cffi_externpy__add1')
    args = mem.alloc(16, 'a[] of the generated wrapper', 'input')
    mem.store(args.base, z3.BitVec('arg0', 64), 8)
    mem.store(args.base + 8, z3.BitVec('arg1', 64), 8)
    if entry == 'call':
        # what the generated add1() does: through the _cffi_call_python pointer
        target = simp(mem.load(W.CP, 8))
        if target == W.fast:
            indirect(ex, W.fast, [externpy, args.base])
        else:
            ex.call('_cffi_start_and_call_python', [externpy, args.base])
        ret = None
    else:
        ret = simp(ex.call('_cffi_start_python', []))
    hutil.witness(chk, ex, label + ':' + '+'.join(W.events or ['no-init-by-me']) + (':calls' if calls else ':no-call'))
    for k in range(1, W.n + 1):
        pass
    D = lambda name, ok: hutil.discharge(chk, ex, label + ':' + name, bool(ok), inputs)
    D('guarantee-kept-at-every-step', not W.bad)
    for b in W.bad:
        chk.report_failure('%s: %s' % (label, b), {}, None, None)
    D('all-locks-released-on-return', W.g_state() != 'mine' and not getattr(W, 'w_mine', False) and W.m_holder != 'me')
    failed = (W.init == 'failed') or (W.my_init_result is False)
    ok_done = (W.init == 'done-ok') or (W.my_init_result is True)
    D('init-code-ran-at-most-once', W.events.count('init-code') <= 1 and not (W.events.count('init-code') == 1 and W.init != 'not-run'))
    D('python-initialized-at-most-once', W.events.count('Py_InitializeEx') <= 1)
    if entry == 'call':
        if failed:
            D('failed-init=>function-not-entered', not calls)
            D('failed-init=>result-zeroed', simp(mem.load(args.base, 8)) == 0)
        else:
            D('successful-init=>function-entered-exactly-once', len(calls) == 1 and ok_done)
            if calls:
                D('function-receives-its-own-externpy-and-args', calls[0][1] == [externpy, args.base])
    else:
        D('_cffi_start_python-returns-NULL-iff-init-failed', ((ret == 0) == failed) and (failed or ret == W.fast) if is_c(ret) else False)
    # publication: only by me after my successful init, under M, after a write barrier
    stores_cp = [i for i, rec in enumerate(mem.log) if rec[0] == 'store' and simp(rec[1]) == W.CP]
    if W.my_init_result is True:
        D('fast-path-published-after-successful-init', simp(mem.load(W.CP, 8)) == W.fast and len(stores_cp) >= 1)
        D('write-barrier-before-publication', W.fences >= 1)
    elif W.my_init_result is False:
        D('failed-init=>fast-path-not-published-and-org-cleared', not stores_cp and simp(mem.load(W.ORG, 8)) == 0)
    if 'recursive-call' in W.events:
        D('recursive-call-returns-without-blocking-or-reinitializing', W.events.count('init-code') == 1)
    mem.log = None


def worker(args):
    prop, tier, entry, init_state, py_init, recursive = args
    chk = hutil.sub_check(prop, tier)
    mod = generated_module()
    label = '%s:others-before-me=%s:python-%s%s' % (entry, init_state, 'up' if py_init else 'down', ':reentrant-init' if recursive else '')

    def ext(ex, name, g, m):
        if name == 'PyCapsule_Type':
            return ex.mem.alloc(416, '@PyCapsule_Type', 'global', fill=0)
        if name == 'stderr':
            return ex.mem.alloc(8, '@stderr', 'global', fill=0)
        return pystubs.extern_global(ex, name, g, m)
    st = pystubs.stubs()
    st['@*'] = ext
    ex = llsym.Executor(mod, st, loop_bound=6, solver_timeout_ms=120000)

    def h(ex):
        run_thread(chk, ex, mod, label, entry, init_state, py_init, recursive)

    def on_oob(ex2, what_, model):
        chk.report_failure('%s: stray memory access: %s' % (label, what_), {}, None, None)
    ex.on_oob = on_oob
    res = ex.explore(h, max_paths=60000, time_limit=2400)
    hutil.finish_explore(chk, ex, res, label)
    chk.functions = irgen.func_info(mod, sorted(ex.called))
    return hutil.export(chk)


def layout_worker(args):
    """the two header-derived offsets used by the harness, checked against the compiled module"""
    prop, tier, what = args
    chk = hutil.sub_check(prop, tier)
    mod = generated_module()
    src = open(mod.path).read()
    import re
    ok_g = re.search(r'getelementptr inbounds \(%struct\._typeobject, %struct\._typeobject\* @PyCapsule_Type, i32 0, i32 (\d+)\)', src)
    tl = mod.struct_layout(('named', 'struct._typeobject'))
    idx = int(ok_g.group(1)) if ok_g else -1
    chk.query('layout:tp_as_buffer-offset-is-160', 'unsat' if (idx >= 0 and tl[0][idx] == 160) else 'sat', 0.0)
    if not (idx >= 0 and tl[0][idx] == 160):
        chk.harness_error('PyCapsule_Type.tp_as_buffer is not at offset 160 in the compiled module')
    m = re.search(r'#define _CFFI_CPIDX\s+(\d+)', open(os.path.join(common.REPO, 'src/cffi/_cffi_include.h')).read())
    chk.query('layout:_CFFI_CPIDX-is-25', 'unsat' if (m and int(m.group(1)) == 25) else 'sat', 0.0)
    if not (m and int(m.group(1)) == 25):
        chk.harness_error('_CFFI_CPIDX is not 25')
    return hutil.export(chk)


def dispatch(args):
    return layout_worker(args) if args[2] == 'layout' else worker(args)


def run(chk):
    quick = chk.tier == 'quick'
    P = (chk.prop, chk.tier)
    cases = [P + ('layout',)]
    for entry in ('call', 'start'):
        for init_state in ('not-run', 'done-ok', 'failed'):
            for py_init in ((False, True) if init_state == 'not-run' else (True,)):
                for rec in ((False, True) if init_state == 'not-run' else (False,)):
                    cases.append(P + (entry, init_state, py_init, rec))
    chk.bounds = {'threads': 'one thread of one library executed on the real code against an environment standing for ANY number of other threads of this and other libraries (rely/guarantee)',
                  'environment moves': 'every R-step of other threads, placed where my thread first observes its effect (partial-order reduction): contention before each compare-and-swap (fairness: at most once in a row), Python / mutex / init code already done by others at my first read under the protecting lock',
                  'my init code': 'succeeds or fails; optionally calls back into the library once (re-entrancy)'}
    chk.outside = ['the body of _cffi_initialize_python (runs the user\'s init code under the GIL) and of Py_InitializeEx',
                   'init code of library X calling into library Y whose own init code calls back into X from another thread (lock-order cycle between two libraries)',
                   'weak-memory reorderings beyond the explicit write barrier (sequential consistency per access)', 'PyPy and Windows variants (#ifdef)']
    chk.assume('R is the rely; every obligation is a guarantee of every thread, so R holds for any number of threads and any schedule (circular rely/guarantee reasoning)')
    generated_module()
    hutil.run_cases(chk, cases, dispatch)
