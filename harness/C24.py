"""C24 -- cffi-gen-src output is byte-identical to FFI.emit_c_code.

pysym/SymStr on the real read_sources, exec_python, make_ffi_from_sources, generate_c_source,
write_c_source and find_ffi_in_python_script of src/cffi/_cffi_gen_src.py.
FFI is replaced by a recorder whose emit_c_code is the REAL FFI.emit_c_code (-> recompile -> make_c_source); only the
Recompiler class is replaced by one that writes GEN, a fresh symbolic text standing for "whatever the generator produces
for these inputs" (uninterpreted); the generator's print() and sys.stdout are one recorded stream; files and open() are stubs.  Symbolic: cdef text, prelude, module name, generated text (every Unicode string of the given
lengths), the output argument ('-' or a path), the --ffi-var name.
Obligations: FFI().cdef gets exactly the cdef text, set_source exactly (name, prelude); exactly
GEN is written, once, to stdout iff output == '-', else to open(output, 'w', encoding='utf-8');
exec-python resolves a directly bound FFI and a callable returning one, raises NameError /
TypeError otherwise; gen_src.py re-exports run.
"""
import os, sys, json, ast
import z3
from vf import common, llsym, pysym, symstr, hutil
from harness.C23 import sym_eq


REPLAY = r"""
# Replay for C24 on the real tool: `python -m cffi.gen_src` must write exactly the bytes FFI.emit_c_code() produces,
# to the output file and -- for an output of '-' -- to stdout.
import sys, os, json, subprocess, tempfile, atexit, shutil
import cffi
d = tempfile.mkdtemp(); atexit.register(shutil.rmtree, d, True)
cdef, prelude, name = "int sq(int);\n", "/* a\r\nb \r c */ static int sq(int x) { return x * x; }\n", "_c24_replay"
open(os.path.join(d, 'a.cdef'), 'w', newline='').write(cdef); open(os.path.join(d, 'a.c'), 'w', newline='').write(prelude)
open(os.path.join(d, 'b.py'), 'w').write("import cffi\nffibuilder = cffi.FFI()\nffibuilder.cdef(%r)\nffibuilder.set_source(%r, %r)\n" % (cdef, name, prelude))
def reference(prel, fname):
    ffi = cffi.FFI(); ffi.cdef(cdef); ffi.set_source(name, prel)
    ref = os.path.join(d, fname)
    with open(os.devnull, 'w') as null:
        so = os.dup(1); os.dup2(null.fileno(), 1)
        try: ffi.emit_c_code(ref)
        finally: os.dup2(so, 1)
    return open(ref, 'rb').read()
# read-sources gets the prelude as the *text* of its file (text-mode reading translates line ends); exec-python gets the str itself
wants = {'read-sources': reference(open(os.path.join(d, 'a.c'), encoding='utf-8').read(), 'ref1.c'),
         'exec-python': reference(prelude, 'ref2.c')}
bad = []
env = dict(os.environ)
for label, argv in (('read-sources', ['read-sources', name, os.path.join(d, 'a.cdef'), os.path.join(d, 'a.c')]),
                    ('exec-python', ['exec-python', os.path.join(d, 'b.py')])):
    want = wants[label]
    out = os.path.join(d, label + '.c')
    r = subprocess.run([sys.executable, '-m', 'cffi.gen_src'] + argv + [out], stdout=subprocess.PIPE, stderr=subprocess.PIPE, env=env)
    if r.returncode != 0 or open(out, 'rb').read() != want:
        bad.append('%s to a file: exit %d, bytes %s' % (label, r.returncode, 'differ' if r.returncode == 0 else 'n/a'))
    r = subprocess.run([sys.executable, '-m', 'cffi.gen_src'] + argv + ['-'], stdout=subprocess.PIPE, stderr=subprocess.PIPE, env=env)
    if r.returncode != 0 or r.stdout != want:
        extra = r.stdout[:60] if r.stdout != want else b''
        bad.append("%s to '-': stdout is not the emit_c_code() text (starts with %r)" % (label, extra))
for b in bad: print('VIOLATED:', b)
sys.exit(1 if bad else 0)
"""

_replayed = {}


def tool_replay(chk):
    def replay(case):
        if 'r' not in _replayed:
            path = chk.write_replay('tool', REPLAY)
            rc, out = common.run_replay(path, timeout=300)
            _replayed['r'] = (common.replay_verdict(rc, out), path)
        return _replayed['r']
    return replay


def _is_utf8(name):
    import codecs
    try:
        return isinstance(name, str) and codecs.lookup(name).name == 'utf-8'
    except LookupError:
        return False


def worker(args):
    prop, tier, what = args
    sys.path.insert(0, os.path.join(common.REPO, 'src'))
    chk = hutil.sub_check(prop, tier)
    import cffi._cffi_gen_src as G
    ex = pysym.PyExplorer()
    label = ':'.join(str(w) for w in what)

    class Rec(object):
        pass

    def install(ex, rec, gen):
        import cffi.api as real_api
        import cffi.recompiler as R

        class FakeFFI(object):
            """records what the tool asks for; emit_c_code is the REAL FFI.emit_c_code -> recompile -> make_c_source, with
            only the Recompiler (the text generator proper) replaced by one that writes the uninterpreted text GEN"""
            _windows_unicode = None
            _embedding = None

            def __init__(self):
                rec.ffis.append(self)
                self.calls = []

            def cdef(self, text, *a, **k):
                self.calls.append(('cdef', text, a, k))

            def set_source(self, name, src, *a, **k):
                self.calls.append(('set_source', name, src, a, k))
                self._assigned_source = ('_verif_c24', src, '.c', {})

            def emit_c_code(self, out):
                self.calls.append(('emit_c_code',))
                real_api.FFI.emit_c_code(self, out)

        class FakeRecompiler(object):
            def __init__(self, ffi, module_name, target_is_python=False):
                pass

            def collect_type_table(self):
                pass

            def collect_step_tables(self):
                pass

            def write_source_to_f(self, f, preamble):
                f.write(gen)

        def chatter(*a, **k):
            # print() of the generator goes to the process's stdout, like the tool's own sys.stdout.write
            rec.stdout.append(('chatter', ' '.join(str(x) for x in a) + '\n'))

        class Buf(object):
            """io.StringIO: newline='\\n' (the default) stores text unchanged; newline=None translates '\\r\\n' and '\\r'
            to '\\n' on write; other modes are not modelled"""

            def __init__(self, initial_value='', newline='\n'):
                self.parts = []
                self.newline = newline
                if newline not in ('\n', None, ''):
                    raise llsym.Unsupported('io.StringIO(newline=%r)' % (newline,))
                if initial_value:
                    self.write(initial_value)

            def write(self, s):
                if self.newline is None and not isinstance(s, str):
                    out, i, cs = [], 0, s.chars
                    while i < len(cs):
                        c = cs[i]
                        if ex.decide(llsym.eq(c, 13, symstr.CW) if not isinstance(c, int) else c == 13):
                            if i + 1 < len(cs) and ex.decide(llsym.eq(cs[i + 1], 10, symstr.CW) if not isinstance(cs[i + 1], int) else cs[i + 1] == 10):
                                i += 1
                            out.append(10)
                        else:
                            out.append(c)
                        i += 1
                    s = s._mk(out)
                elif self.newline is None:
                    s = s.replace('\r\n', '\n').replace('\r', '\n')
                self.parts.append(s)

            def getvalue(self):
                v = ''
                for p in self.parts:
                    v = v + p
                return v

        class IoShim(object):
            StringIO = Buf

        class Stdout(object):
            def write(self, s):
                rec.stdout.append(('tool', s))

        class SysShim(object):
            stdout = Stdout()
            path = sys.path

        def fake_open(path, mode='r', **kw):
            rec.opened.append((path, mode, kw))

            class W(object):
                def write(self, s):
                    rec.written.append(s)

                def __enter__(self):
                    return self

                def __exit__(self, *a):
                    rec.closed.append(path)
                    return False
            return W()
        saved = (G.FFI, G.io, G.sys, R.Recompiler)
        G.FFI, G.io, G.sys = FakeFFI, IoShim, SysShim
        G.open = fake_open
        R.Recompiler = FakeRecompiler
        R.print = chatter
        return saved, FakeFFI

    def restore(saved):
        import cffi.recompiler as R
        G.FFI, G.io, G.sys, R.Recompiler = saved
        del G.open
        del R.print

    class InFile(object):
        def __init__(self, text, name):
            self.text, self.name, self.closed = text, name, False

        def read(self):
            return self.text

        def __enter__(self):
            return self

        def __exit__(self, *a):
            self.closed = True
            return False

    def check_output(ex, rec, out_is_dash, outpath, gen, name, inputs):
        rp = tool_replay(chk)
        if out_is_dash:
            # everything that reaches stdout counts: the tool's own write and whatever the generator prints
            total = [t for _, t in rec.stdout] + rec.written
        else:
            total = [t for src_, t in rec.stdout if src_ == 'tool'] + rec.written
        hutil.discharge(chk, ex, name + ':written-exactly-once', len(total) == 1, inputs, replay=rp)
        if len(total) == 1:
            hutil.discharge(chk, ex, name + ':bytes==emit_c_code-text', sym_eq(total[0], gen), inputs, replay=rp)
        if out_is_dash:
            hutil.discharge(chk, ex, name + ':dash=>stdout-only', len(rec.stdout) == 1 and not rec.opened, inputs, replay=rp)
        else:
            okk = len(rec.opened) == 1 and not [1 for src_, t in rec.stdout if src_ == 'tool']
            hutil.discharge(chk, ex, name + ':path=>file-only', okk, inputs)
            if okk:
                p_, mode, kw = rec.opened[0]
                hutil.discharge(chk, ex, name + ':opened-for-writing-utf-8',
                                (mode in ('w', 'wt')) and _is_utf8(kw.get('encoding')) and (sym_eq(p_, outpath) is True or p_ is outpath),
                                inputs)
                hutil.discharge(chk, ex, name + ':file-closed', len(rec.closed) == 1, inputs)

    if what[0] == 'read-sources':
        lc, lp, ln, lg = what[1:]

        def h(ex):
            cdef = symstr.SymStr.fresh(ex, 'cdef', lc, ascii_only=False) if lc else ''
            prel = symstr.SymStr.fresh(ex, 'prelude', lp, ascii_only=False) if lp else ''
            modn = symstr.SymStr.fresh(ex, 'name', ln, ascii_only=False) if ln else ''
            gen = symstr.SymStr.fresh(ex, 'generated', lg, ascii_only=False) if lg else ''
            # the input files are read in text mode (argparse.FileType('r')): no '\r' reaches the tool, nor the generated text
            for t_ in (cdef, prel, gen):
                if not isinstance(t_, str):
                    for c_ in t_.chars:
                        ex.add_definition(c_ != 13)
            out = symstr.SymStr.fresh(ex, 'output', 1, ascii_only=True)
            rec = Rec()
            rec.ffis, rec.stdout, rec.opened, rec.written, rec.closed = [], [], [], [], []
            saved, FakeFFI = install(ex, rec, gen)
            f1, f2 = InFile(prel, 'a.c'), InFile(cdef, 'a.cdef')
            try:
                G.read_sources(output=out, module_name=modn, cdef_input=f2, csrc_input=f1)
            finally:
                restore(saved)
            dash = ex.decide(out._eq_term('-'))
            name = '%s:%s' % (label, 'stdout' if dash else 'file')
            hutil.witness(chk, ex, name)
            inputs = {}
            okk = len(rec.ffis) == 1
            hutil.discharge(chk, ex, name + ':one-FFI-created', okk, inputs)
            if okk:
                calls = rec.ffis[0].calls
                kinds = [c[0] for c in calls]
                hutil.discharge(chk, ex, name + ':cdef-then-set_source-then-emit', kinds == ['cdef', 'set_source', 'emit_c_code'], inputs)
                if kinds == ['cdef', 'set_source', 'emit_c_code']:
                    hutil.discharge(chk, ex, name + ':cdef-gets-the-cdef-text', llsym.b_and(sym_eq(calls[0][1], cdef), not calls[0][2], not calls[0][3]), inputs)
                    hutil.discharge(chk, ex, name + ':set_source-gets-(name,prelude)',
                                    llsym.b_and(sym_eq(calls[1][1], modn), sym_eq(calls[1][2], prel), not calls[1][3], not calls[1][4]), inputs)
            hutil.discharge(chk, ex, name + ':input-files-closed', f1.closed and f2.closed, inputs)
            check_output(ex, rec, dash, out, gen, name, inputs)
    elif what[0] == 'exec-python':
        variant, lg = what[1], what[2]
        scripts = {
            'direct': 'import cffi._cffi_gen_src as G\nfb = G.FFI()\nfb.set_source("m", "")\n',
            'callable': 'import cffi._cffi_gen_src as G\ndef fb():\n    f = G.FFI()\n    f.set_source("m", "")\n    return f\n',
            'wrong-type': 'fb = 42\n',
            'callable-wrong': 'def fb():\n    return "x"\n',
            'main-guard': 'import cffi._cffi_gen_src as G\nfb = G.FFI()\nfb.set_source("m", "")\nif __name__ == "__main__":\n    raise SystemExit(3)\n',
        }

        def h(ex):
            gen = symstr.SymStr.fresh(ex, 'generated', lg, ascii_only=False) if lg else ''
            var = symstr.SymStr.fresh(ex, 'ffi_var', 2, ascii_only=True)
            for c in var.chars:        # small alphabet: the name is only used as a dict key
                ex.assume(z3.Or(c == ord('f'), c == ord('b'), c == ord('_')))
            out = symstr.SymStr.fresh(ex, 'output', 1, ascii_only=True)
            rec = Rec()
            rec.ffis, rec.stdout, rec.opened, rec.written, rec.closed = [], [], [], [], []
            saved, FakeFFI = install(ex, rec, gen)
            G.sys = type('S', (), {'stdout': G.sys.stdout, 'path': sys.path})   # script needs a real sys.path list
            pyf = InFile(scripts[variant], '/tmp/verif_c24_script.py')
            outcome = 'ok'
            try:
                try:
                    G.exec_python(output=out, pyfile=pyf, ffi_var=var)
                except NameError:
                    outcome = 'NameError'
                except TypeError:
                    outcome = 'TypeError'
                except (llsym.PathEnd, llsym.Unsupported, llsym.UnwindBound):
                    raise
            finally:
                restore(saved)
            is_fb = var._eq_term('fb')
            found = ex.decide(is_fb)
            name = '%s:%s' % (label, 'named' if found else 'other-name')
            hutil.witness(chk, ex, name + ':' + outcome)
            inputs = {}
            if not found:
                hutil.discharge(chk, ex, name + ':unbound-name=>NameError', outcome == 'NameError', inputs)
                hutil.discharge(chk, ex, name + ':nothing-written', not rec.stdout and not rec.written, inputs)
                return
            if variant in ('wrong-type', 'callable-wrong'):
                hutil.discharge(chk, ex, name + ':not-an-FFI=>TypeError', outcome == 'TypeError', inputs)
                hutil.discharge(chk, ex, name + ':nothing-written', not rec.stdout and not rec.written, inputs)
                return
            hutil.discharge(chk, ex, name + ':FFI-resolved', outcome == 'ok' and len(rec.ffis) == 1
                            and [c[0] for c in rec.ffis[0].calls] == ['set_source', 'emit_c_code'], inputs)
            dash = ex.decide(out._eq_term('-'))
            check_output(ex, rec, dash, out, gen, name + (':stdout' if dash else ':file'), inputs)
            hutil.discharge(chk, ex, name + ':script-file-closed', pyf.closed, inputs)
    else:
        # structural: python -m cffi.gen_src dispatches to the same run()
        def h(ex):
            src = open(os.path.join(common.REPO, 'src/cffi/gen_src.py')).read()
            tree = ast.parse(src)
            imports = [n for n in ast.walk(tree) if isinstance(n, ast.ImportFrom)]
            okk = any(n.module in ('_cffi_gen_src', 'cffi._cffi_gen_src') and any(a.name == 'run' and a.asname is None for a in n.names)
                      for n in imports)
            calls = [n for n in ast.walk(tree) if isinstance(n, ast.Call) and getattr(n.func, 'id', None) == 'run']
            hutil.witness(chk, ex, label)
            hutil.discharge(chk, ex, label + ':gen_src.py-re-exports-and-calls-run', okk and len(calls) == 1 and not calls[0].args, {})
            # the text handed to read_sources/exec_python is the decoded file content: every input file argument
            # must be decoded with plain UTF-8 (e.g. 'utf-8-sig' would drop a leading U+FEFF) -- read off the
            # real argparse parser object
            import argparse
            bad = []
            for sub in (G.exec_python_parser, G.read_sources_parser):
                for act in sub._actions:
                    if isinstance(act.type, argparse.FileType):
                        if act.type._mode != 'r' or (act.type._encoding or '').lower().replace('_', '-') not in ('utf-8', 'utf8'):
                            bad.append((act.dest, act.type._mode, act.type._encoding))
            hutil.discharge(chk, ex, label + ':input-files-decoded-as-plain-utf-8', not bad, {})
            dispatch = {}
            hutil.discharge(chk, ex, label + ':subcommands-present',
                            sorted(G.subparsers.choices.keys()) == ['exec-python', 'read-sources'], {})

    res = ex.explore(h, max_paths=20000)
    hutil.finish_explore(chk, ex, res, label)
    return hutil.export(chk)


def run(chk):
    quick = chk.tier == 'quick'
    P = (chk.prop, chk.tier)
    N = 2 if quick else 6
    cases = []
    for lc in range(0, N + 1):
        for lp in (0, N):
            for ln in (1, N):
                cases.append(P + (('read-sources', lc, lp, ln, (lc + lp) % (N + 1)),))
    for variant in ('direct', 'callable', 'wrong-type', 'callable-wrong', 'main-guard'):
        for lg in (0, N):
            cases.append(P + (('exec-python', variant, lg),))
    cases.append(P + (('module-entry',),))
    chk.bounds = {'cdef / prelude / module name / generated text': 'every Unicode string of each length 0..%d' % N,
                  'output argument': "every 1-character string ('-' or a path)", '--ffi-var': 'every 2-character name over {f, b, _}',
                  'scripts': ['FFI bound directly', 'callable returning an FFI', 'not an FFI', 'callable returning a non-FFI', '__main__ guard']}
    chk.outside = ['argparse and the real file encodings', 'the text generator proper (Recompiler.write_source_to_f: a fresh symbolic text); '
                   'FFI.emit_c_code / recompile / make_c_source themselves ARE executed (they print to stdout)',
                   'longer texts (the code never inspects the texts)']
    chk.assume('emit_c_code is a function of (cdef text, module name, prelude): modelled by an arbitrary text written by the recorder')
    chk.functions = [{'name': n, 'file': 'src/cffi/_cffi_gen_src.py'} for n in
                     ('read_sources', 'exec_python', 'make_ffi_from_sources', 'generate_c_source', 'write_c_source',
                      'find_ffi_in_python_script')]
    hutil.run_cases(chk, cases, worker)
