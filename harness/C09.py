"""C09 -- integer constant expressions in cdef evaluate as C evaluates them.

(1) operators: the real Parser._parse_constant / _c_div are executed by pysym on pycparser AST
    shapes (depth 1, and depth 2 to exercise the recursion) whose leaves are symbolic ints bound
    through _int_constants; the oracle is C's semantics on mathematical integers, stated
    relationally, asserted wherever the C evaluation is defined (all sub-results fit long long,
    divisor != 0, shift count in [0,64), left operand of << non-negative).
(2) literal text: the real _parse_constant by proxy with Constant.value a symbolic string (SymStr) of
    bounded length constrained to C's integer/character-constant grammar, against a reference
    evaluator.
"""
import os, sys, itertools, json
import z3
from vf import common, llsym, pysym, hutil

LLMIN, LLMAX = -(1 << 63), (1 << 63) - 1
ARITH = ['+', '-', '*', '/', '%']
SHIFT = ['<<', '>>']
BITS = ['&', '|', '^']


def fits(t, mode):
    if mode == 'int':
        return z3.And(t >= LLMIN, t <= LLMAX)
    return z3.And(t >= z3.BitVecVal(LLMIN, pysym.BVW), t <= z3.BitVecVal(LLMAX, pysym.BVW))


class Spec(object):
    """C semantics of one operator node: returns (defined, value, side constraints)."""

    def __init__(self, mode):
        self.mode = mode
        self.n = 0
        self.side = []
        self.shift_counts = []

    def fresh(self, name):
        self.n += 1
        if self.mode == 'int':
            return z3.Int('%s!%d' % (name, self.n))
        return z3.BitVec('%s!%d' % (name, self.n), pysym.BVW)

    def binop(self, op, a, b):
        m = self.mode
        if op in ('+', '-', '*'):
            v = {'+': a + b, '-': a - b, '*': a * b}[op]
            return fits(v, m), v
        if op in ('/', '%'):
            q, r = self.fresh('q'), self.fresh('r')
            absb = z3.If(b >= 0, b, -b)
            absr = z3.If(r >= 0, r, -r)
            self.side.append(z3.Implies(b != 0, z3.And(a == q * b + r, absr < absb,
                                                        z3.Or(r == 0, (r > 0) == (a > 0)))))
            d = z3.And(b != 0, z3.Not(z3.And(a == LLMIN, b == -1)))
            return d, (q if op == '/' else r)
        if op in ('<<', '>>'):
            self.shift_counts.append(b)
        if op == '<<':
            # defined: 0 <= b < 64, a >= 0, a * 2**b fits
            v = self.fresh('shl')
            cases = [z3.Implies(b == k, v == a * (1 << k)) for k in range(64)]
            self.side.append(z3.And(*cases))
            return z3.And(b >= 0, b < 64, a >= 0, fits(v, m)), v
        if op == '>>':
            v = self.fresh('shr')
            cases = []
            for k in range(64):
                p = 1 << k
                # floor(a / 2**k): v*p <= a < (v+1)*p
                cases.append(z3.Implies(b == k, z3.And(v * p <= a, a < (v + 1) * p)))
            self.side.append(z3.And(*cases))
            return z3.And(b >= 0, b < 64), v
        if op in ('&', '|', '^'):
            x = z3.Extract(63, 0, a)
            y = z3.Extract(63, 0, b)
            r = {'&': x & y, '|': x | y, '^': x ^ y}[op]
            return True, z3.SignExt(pysym.BVW - 64, r)
        raise ValueError(op)


def build(shape, leaves, c_ast):
    """shape: ('id', name) | ('un', op, sub) | ('bin', op, l, r) -> pycparser AST"""
    if shape[0] == 'id':
        return c_ast.ID(shape[1])
    if shape[0] == 'un':
        return c_ast.UnaryOp(shape[1], build(shape[2], leaves, c_ast))
    return c_ast.BinaryOp(shape[1], build(shape[2], leaves, c_ast), build(shape[3], leaves, c_ast))


def spec_eval(shape, env, spec):
    """-> (defined, value) in z3"""
    if shape[0] == 'id':
        return True, env[shape[1]]
    if shape[0] == 'un':
        d, v = spec_eval(shape[2], env, spec)
        if shape[1] == '-':
            return llsym.b_and(d, fits(-v, spec.mode)), -v
        return d, v
    dl, l = spec_eval(shape[2], env, spec)
    dr, r = spec_eval(shape[3], env, spec)
    d, v = spec.binop(shape[1], l, r)
    return llsym.b_and(dl, dr, d), v


def show(shape):
    if shape[0] == 'id':
        return shape[1]
    if shape[0] == 'un':
        return '%s(%s)' % (shape[1], show(shape[2]))
    return '(%s %s %s)' % (show(shape[2]), shape[1], show(shape[3]))


def ops_of(shape):
    if shape[0] == 'id':
        return []
    if shape[0] == 'un':
        return ops_of(shape[2])
    return [shape[1]] + ops_of(shape[2]) + ops_of(shape[3])


REPLAY = r'''
# Replay for C09 (operators): evaluates the expression through cffi's real parser (enum value)
# and through the C compiler; exits 1 iff they differ.
import sys, json, subprocess, tempfile, os
import cffi
case = json.loads(%r)
expr = case['expr']
for k, v in case['vals'].items():
    expr = expr.replace(k, '(%%dLL)' %% v if v >= 0 else '(-%%dLL - 1)' %% (-v - 1) if v == -(1 << 63) else '(%%dLL)' %% v)
ffi = cffi.FFI()
try:
    ffi.cdef('static const long long dummy; struct s { char a[1]; }; ')
    p = ffi._parser
    import pycparser
    ast = pycparser.CParser().parse('int x = %%s;' %% expr)
    got = ('ok', p._parse_constant(ast.ext[0].init))
except Exception as e:
    got = ('exc', type(e).__name__)
d = tempfile.mkdtemp()
src = os.path.join(d, 't.c')
open(src, 'w').write('#include <stdio.h>\nint main(void){ long long v = %%s; printf("%%%%lld\\n", v); return 0; }\n' %% expr)
r = subprocess.run(['gcc', '-w', '-o', os.path.join(d, 't'), src], capture_output=True)
want = None
if r.returncode == 0:
    want = int(subprocess.run([os.path.join(d, 't')], capture_output=True).stdout.decode().strip())
bad = want is not None and got != ('ok', want)
print('VIOLATED:' if bad else 'agree:', 'cffi:', got, ' gcc:', want)
sys.exit(1 if bad else 0)
'''


def make_replay(chk):
    def replay(case):
        body = REPLAY % json.dumps(case)
        path = chk.write_replay('ops-' + ''.join(c if c.isalnum() else '_' for c in case['expr'])[:40], body)
        rc, out = common.run_replay(path, timeout=120)
        return common.replay_verdict(rc, out), path
    return replay


def op_worker(args):
    prop, tier, shape = args
    sys.path.insert(0, os.path.join(common.REPO, 'src'))
    chk = hutil.sub_check(prop, tier)
    from cffi import cparser
    from cffi.error import CDefError, FFIError
    from pycparser import c_ast
    ops = ops_of(shape)
    mode = 'bv' if any(o in BITS for o in ops) else 'int'
    ex = pysym.PyExplorer(logic='QF_NIA' if mode == 'int' else None)
    replay = make_replay(chk)
    label = show(shape)
    names = sorted(set(s for s in label.replace('(', ' ').replace(')', ' ').split() if s.isalpha()))

    def h(ex):
        parser = cparser.Parser()
        env = {}
        for n in names:
            v = ex.sym_int(n, mode)
            env[n] = v.t
            parser._int_constants[n] = v
            # operands are values C can hold in a long long
            ex.assume(fits(v.t, mode))
        spec = Spec(mode)
        defined, want = spec_eval(shape, env, spec)
        side = llsym.b_and(*spec.side)      # hypotheses of the final obligation only
        for cnt in spec.shift_counts:
            # counts outside [-2, 65] are undefined in C and their (exception) behaviour is C30's
            ex.assume(z3.And(cnt >= -2, cnt <= 65))
        node = build(shape, None, c_ast)
        inputs = dict(env)

        def rp(case):
            vals = {n: (llsym.signed(case[n], pysym.BVW) if mode == 'bv' else case[n]) for n in names}
            return replay({'expr': label, 'vals': vals})
        try:
            got = parser._parse_constant(node)
        except llsym.PathEnd:
            raise
        except pysym.Unmodelled as e:
            # fall back to solver-chosen concrete models of this path (boundary-seeking), replayed on
            # the real code against the C compiler; a reproduced difference is a violation, otherwise
            # the path stays undecided
            found = False
            probes = [True]
            for n in names:
                for lo in (1 << 62, 1 << 53, 1 << 31):
                    probes.append(env[n] > lo)
                    probes.append(env[n] < -lo)
            for extra in probes:
                try:
                    m = ex.sat(llsym.b_and(side, defined, extra))
                except llsym.Unsupported:
                    m = None
                if m is None:
                    continue
                case = {n: hutil.mval(m, env[n]) for n in names}
                ok, script = rp(case)
                chk.query('%s:concrete-probe' % label, 'sat' if ok else 'agree', 0.0)
                if ok:
                    chk.report_failure('%s (path with unmodelled operation: %s): %s' % (label, e, case), {}, script, True)
                    found = True
                    break
            if not found:
                raise
            return
        except (llsym.Unsupported, llsym.UnwindBound):
            raise
        except Exception as e:
            # an exception is a C09 matter only where C defines the value
            hutil.witness(chk, ex, '%s:raises-%s' % (label, type(e).__name__))
            hutil.discharge(chk, ex, '%s:raises-%s=>C-undefined' % (label, type(e).__name__),
                            z3.Implies(side, llsym.b_not(defined)) if side is not True else llsym.b_not(defined),
                            inputs, replay=rp)
            return
        if isinstance(got, pysym.SymInt):
            g = got.t
        else:
            g = z3.IntVal(got) if mode == 'int' else z3.BitVecVal(got, pysym.BVW)
        m = hutil.witness(chk, ex, label + ':value', llsym.b_and(side, defined))
        if m is not None:
            chk.sample({'expr': label, 'leaves': {n: (hutil.smval(m, env[n], pysym.BVW) if mode == 'bv'
                                                      else hutil.mval(m, env[n])) for n in names}})
        hutil.discharge(chk, ex, label + ':defined=>value==C',
                        z3.Implies(llsym.b_and(side, defined), g == want) if llsym.b_and(side, defined) is not True
                        else g == want, inputs, replay=rp)

    res = ex.explore(h, max_paths=3000)
    hutil.finish_explore(chk, ex, res, label)
    return hutil.export(chk)


LITERAL_HARNESS = r'''
import sys
from cffi import cparser
from cffi.error import CDefError, FFIError
from pycparser import c_ast

_parser = cparser.Parser()

SIMPLE_ESC = {'n': 10, 't': 9, 'r': 13, '0': 0, chr(92): 92, chr(39): 39, chr(34): 34, 'a': 7, 'b': 8,
              'f': 12, 'v': 11, '?': 63}
SUF = ['', 'u', 'U', 'l', 'L', 'ul', 'UL', 'uL', 'Ul', 'lu', 'LU', 'll', 'LL', 'ull', 'ULL', 'llu', 'LLU',
       'uLL', 'Ull', 'LLu', 'llU']


def value(digs, base):
    """positional value of a digit string (reference, independent of int(s, base))"""
    alphabet = '0123456789abcdef'
    v = 0
    for ch in digs:
        v = v * base + alphabet.index(ch.lower())
    return v


def all_in(digs, ok):
    for ch in digs:
        if ch not in ok:
            return False
    return True


def c_char_literal(s):
    """value of a character constant 'c' or simple escape, else None"""
    if len(s) == 3 and s[0] == chr(39) and s[2] == chr(39) and s[1] not in (chr(39), chr(92), chr(10)):
        return ord(s[1])
    if len(s) == 4 and s[0] == chr(39) and s[3] == chr(39) and s[1] == chr(92) and s[2] in SIMPLE_ESC:
        return SIMPLE_ESC[s[2]]
    return None


def _eval(s):
    return _parser._parse_constant(c_ast.Constant('int', s))


def prop_decimal(d: str, k: int) -> bool:
    """
    pre: 1 <= len(d) <= %(N)d
    pre: 0 <= k < len(SUF)
    pre: _ok('prop_decimal', d, k)
    pre: d[0] in '123456789' and all_in(d, '0123456789')
    post: _ == True
    """
    return _eval(d + SUF[k]) == value(d, 10)


def prop_octal(d: str, k: int) -> bool:
    """
    pre: 1 <= len(d) <= %(N)d
    pre: 0 <= k < len(SUF)
    pre: _ok('prop_octal', d, k)
    pre: d[0] == '0' and all_in(d, '01234567')
    post: _ == True
    """
    return _eval(d + SUF[k]) == value(d, 8)


def prop_hex(d: str, k: int, upper: bool) -> bool:
    """
    pre: 1 <= len(d) <= %(N)d - 1
    pre: 0 <= k < len(SUF)
    pre: _ok('prop_hex', d, k, upper)
    pre: all_in(d, '0123456789abcdefABCDEF')
    post: _ == True
    """
    return _eval(('0X' if upper else '0x') + d + SUF[k]) == value(d, 16)


def prop_binary(d: str, k: int, upper: bool) -> bool:
    """
    pre: 1 <= len(d) <= %(N)d - 1
    pre: 0 <= k < len(SUF)
    pre: _ok('prop_binary', d, k, upper)
    pre: all_in(d, '01')
    post: _ == True
    """
    return _eval(('0B' if upper else '0b') + d + SUF[k]) == value(d, 2)


def prop_char_literal_plain(s: str) -> bool:
    """
    pre: len(s) == 3
    pre: _ok('prop_char_literal_plain', s)
    pre: c_char_literal(s) is not None
    post: _ == True
    """
    return _eval(s) == c_char_literal(s)


def prop_char_literal_escape(s: str) -> bool:
    """
    pre: len(s) == 4
    pre: _ok('prop_char_literal_escape', s)
    pre: c_char_literal(s) is not None
    post: _ == True
    """
    return _eval(s) == c_char_literal(s)


def prop_unary(n: int) -> bool:
    """
    pre: 0 <= n < 2**63
    post: _ == True
    """
    p = cparser.Parser()
    p._int_constants['n'] = n
    neg = p._parse_constant(c_ast.UnaryOp('-', c_ast.ID('n')))
    pos = p._parse_constant(c_ast.UnaryOp('+', c_ast.ID('n')))
    return neg == -n and pos == n
'''


INT_GRAMMAR = (r"(0[xX][0-9a-fA-F]+|0[bB][01]+|0[0-7]*|[1-9][0-9]*)"
               r"([uU](l|L|ll|LL)?|(l|L|ll|LL)[uU]?)?\Z")
SIMPLE_ESC = {'n': 10, 't': 9, 'r': 13, '0': 0, '\\': 92, "'": 39, '"': 34, 'a': 7, 'b': 8, 'f': 12, 'v': 11, '?': 63}


def literal_cases(chk):
    N = 4 if chk.tier == 'quick' else 7
    cases = [(chk.prop, chk.tier, 'int', n) for n in range(1, N + 1)]
    cases += [(chk.prop, chk.tier, 'char', 3), (chk.prop, chk.tier, 'char', 4)]
    return cases


def lit_worker(args):
    """Constant.value = every ASCII string of length n that is a C integer / character constant."""
    import re
    from vf import symstr
    prop, tier, kind, n = args
    sys.path.insert(0, os.path.join(common.REPO, 'src'))
    chk = hutil.sub_check(prop, tier)
    from cffi import cparser
    from pycparser import c_ast
    cparser.int = symstr.sym_int          # module-level names shadow the builtins for the proxies
    cparser.ord = symstr.sym_ord
    ex = pysym.PyExplorer()
    grammar = symstr.SymRegex(re.compile(INT_GRAMMAR))
    label = 'literal-%s-len%d' % (kind, n)

    def reference(s):
        body = s.rstrip('uUlL')
        if body.startswith(('0x', '0X')):
            return symstr.sym_int(body[2:], 16)
        if body.startswith(('0b', '0B')):
            return symstr.sym_int(body[2:], 2)
        if body.startswith('0'):
            return symstr.sym_int(body, 8)
        return symstr.sym_int(body, 10)

    def h(ex):
        s = symstr.SymStr.fresh(ex, 's', n)
        if kind == 'int':
            if grammar.match(s) is None:
                raise llsym.PathEnd()
            want = reference(s)
        else:
            q = 39
            ex.assume(z3.And(s.chars[0] == q, s.chars[-1] == q))
            if n == 3:
                ex.assume(z3.And(s.chars[1] != q, s.chars[1] != 92, s.chars[1] != 10))
                want = pysym.SymInt(ex, z3.BV2Int(s.chars[1]), 'int')
            else:
                ex.assume(s.chars[1] == 92)
                want = None
                for ch, val in SIMPLE_ESC.items():
                    if ex.decide(s.chars[2] == ord(ch)):
                        want = val
                        break
                if want is None:
                    raise llsym.PathEnd()       # not a simple escape: outside the claim
        parser = cparser.Parser()
        m0 = ex.model()
        text = s.concrete(m0) if m0 is not None else '?'
        try:
            got = parser._parse_constant(c_ast.Constant('int', s))
        except (llsym.PathEnd, llsym.Unsupported, llsym.UnwindBound):
            raise
        except Exception as e:
            hutil.witness(chk, ex, '%s:raises-%s' % (label, type(e).__name__))
            chk.query('%s:valid-literal-accepted' % label, 'sat', 0.0, detail=text)
            ok, script = lit_replay(chk, text)
            chk.report_failure('%s: valid C constant %r raises %s' % (label, text, type(e).__name__), {}, script, ok)
            return
        gt = got.t if isinstance(got, pysym.SymInt) else z3.IntVal(got)
        wt = want.t if isinstance(want, pysym.SymInt) else z3.IntVal(want)
        mw = hutil.witness(chk, ex, label + ':' + text[:2].lower().rstrip('0123456789'))
        if mw is not None:
            chk.sample({'literal': s.concrete(mw)})
        import time
        t0 = time.time()
        mm = ex.sat(gt != wt)
        if mm is None:
            chk.query(label + ':value==C', 'unsat', time.time() - t0)
        else:
            bad = s.concrete(mm)
            chk.query(label + ':value==C', 'sat', time.time() - t0, detail=bad)
            ok, script = lit_replay(chk, bad)
            chk.report_failure('%s: constant %r evaluates to %s, C value is %s' % (
                label, bad, mm.eval(gt, model_completion=True), mm.eval(wt, model_completion=True)), {}, script, ok)

    res = ex.explore(h, max_paths=200000)
    hutil.finish_explore(chk, ex, res, label)
    return hutil.export(chk)


LIT_REPLAY = r'''
# Replay for C09 (literal text): cffi's value of the constant vs the C compiler's.
import sys, json, subprocess, tempfile, os
import cffi
text = json.loads(%r)
ffi = cffi.FFI()
try:
    ffi.cdef('enum e { A = %%s };' %% text)
    got = ('ok', int(ffi.cast('enum e', 0) == 0) and ffi.typeof('enum e').relements['A'])
except Exception as e:
    got = ('exc', type(e).__name__)
d = tempfile.mkdtemp()
src = os.path.join(d, 't.c')
open(src, 'w').write('#include <stdio.h>\nint main(void){ printf("%%%%lld\\n", (long long)(%%s)); return 0; }\n' %% text)
r = subprocess.run(['gcc', '-w', '-o', os.path.join(d, 't'), src], capture_output=True)
want = None
if r.returncode == 0:
    want = int(subprocess.run([os.path.join(d, 't')], capture_output=True).stdout.decode().strip())
bad = want is not None and got != ('ok', want)
print('VIOLATED:' if bad else 'agree:', repr(text), 'cffi:', got, ' gcc:', want)
sys.exit(1 if bad else 0)
'''


def lit_replay(chk, text):
    if any(ord(c) < 32 or ord(c) > 126 for c in text):
        return None, None
    body = LIT_REPLAY % json.dumps(text)
    path = chk.write_replay('lit-' + ''.join(c if c.isalnum() else '_' for c in text)[:30], body)
    rc, out = common.run_replay(path, timeout=120)
    return common.replay_verdict(rc, out), path


def run(chk):
    quick = chk.tier == 'quick'
    ID = lambda n: ('id', n)
    shapes = []
    for op in ARITH + SHIFT + BITS:
        shapes.append(('bin', op, ID('a'), ID('b')))
    shapes.append(('un', '-', ID('a')))
    shapes.append(('un', '+', ID('a')))
    # depth 2: exercise the recursion / operand order
    # depth 2: exercise the recursion / operand order.  Division and modulo are kept over leaf
    # operands: with compound operands nlsat needs minutes per query (probe), which is no basis for
    # a check that must never time out; each node is evaluated independently by the code anyway.
    for outer in ('+', '-') if quick else ('+', '-', '*'):
        for inner in (('*', '/', '%') if quick else ARITH):
            if outer == '*' and inner in ('/', '%', '*'):
                continue
            shapes.append(('bin', outer, ('bin', inner, ID('a'), ID('b')), ID('c')))
            shapes.append(('bin', outer, ID('a'), ('bin', inner, ID('b'), ID('c'))))
    bitpairs = [('&', '|'), ('^', '&')] if quick else [(o1, o2) for o1 in BITS for o2 in BITS]
    for o1, o2 in bitpairs:
        shapes.append(('bin', o1, ('bin', o2, ID('a'), ID('b')), ID('c')))
        shapes.append(('bin', o1, ID('a'), ('un', '-', ID('b'))))
    if not quick:
        for o1 in ('+', '-'):
            for o2 in SHIFT:
                shapes.append(('bin', o1, ('bin', o2, ID('a'), ID('b')), ID('c')))
    cases = [(chk.prop, chk.tier, s) for s in shapes]
    chk.bounds = {'expression shapes': 'all 10 binary operators and unary +/- at depth 1; %d depth-2 shapes' % (len(shapes) - 12),
                  'leaves': 'any integers representable as long long (symbolic, unbounded Int / 160-bit vectors)',
                  'shift counts': '0..63 where C defines the result',
                  'literal text': 'every ASCII string of <= %d characters in the C integer-constant grammar; character constants with a plain character or a simple escape' % (4 if quick else 7)}
    chk.outside = ['unsigned-suffixed operands (C arithmetic becomes modular): leaves are typed as long long',
                   'literals longer than the bound; multi-character and non-simple escapes in character constants',
                   'expressions deeper than 2 (each node is evaluated independently: covered by induction on depth-1)']
    chk.assume('C semantics as in C11 6.5 on mathematical integers; >> of a negative value is an arithmetic shift (gcc)')
    chk.functions = [{'name': 'Parser._parse_constant', 'file': 'src/cffi/cparser.py'},
                     {'name': 'Parser._c_div', 'file': 'src/cffi/cparser.py'}]
    hutil.run_cases(chk, cases, op_worker)
    # literal text: see lit_worker (SymStr proxies) -- added below when available
    lit_cases = literal_cases(chk)
    if lit_cases:
        hutil.run_cases(chk, lit_cases, lit_worker)
