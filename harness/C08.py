"""C08 -- C type names round-trip through getctype and typeof (the name-building kernels).

A ctype's name is a C declaration with a hole: (ct_name, ct_name_position).  Every derived type and every
getctype() answer is built by inserting text at the hole.  In C's declarator grammar the text at the hole
denotes "the declared thing"; prefix '*' binds weaker than the suffixes '[..]' and '(..)', so inserting
'*'-text into a hole that is directly followed by '[' needs parentheses.  The checks decide, on the real
code and for every name (symbolic characters) and hole position within the bounds:

 INV   name[pos] is NUL, ')' or '[' and it is '[' exactly when CT_ARRAY is set; 1 <= pos <= len.
 (a) new_pointer_type:  name' = name[:pos] + (' *' | '(*)' if array) + name[pos:], pos' = pos + 2, INV';
 (b) new_array_type:    name' = name[:pos] + '[N]' or '[]' + name[pos:], pos' = pos, INV';
 (c) fb_prepare_ctype:  name' = res[:pos] + '(*)(' + 'a1, a2[, ...]' + ')' + res[pos:], pos' = pos + 2, INV',
                        and the second pass writes exactly the bytes the first pass counted;
 (d) ffi.getctype (compiled FFI, ffi_obj.c) and b_getcname + FFI.getctype (in-line FFI, api.py, executed by
     proxy with symbolic strings): for every replace_with text over the declarator alphabet the answer is
     name[:pos] + D + name[pos:] with D = '(' + x + ')' when x starts with '*' and the type is an array,
     ' ' + x when x starts with anything but '[' or '(', else x, where x is the text stripped of blanks --
     the same D from both implementations.
All allocations have their exact size (bounds monitor).
"""
import os, sys, json
import z3
from vf import common, irgen, llsym, pystubs, hutil, pysym, symstr
from vf.llsym import bv, simp, mask, is_c

ALPHABET = ' \t\n*[]()05az,_'
WS = (32, 9, 10, 11, 12, 13)

REPLAY = r'''
# Replay for C08 on the real build: getctype(T, x) from both FFIs against the insertion rule.
import sys, json
import cffi, _cffi_backend
case = json.loads(%r)
ffi = cffi.FFI()
cffi2 = _cffi_backend.FFI()
bad = []
for tname in case['types']:
    x = case['x']
    core = x.strip(' \t\n\v\f\r')
    for f, label in ((ffi, 'in-line'), (cffi2, 'compiled')):
        ct = f.typeof(tname)
        base = f.getctype(ct, '@')           # D('@') == ' @'
        i = base.index('@')
        head, tail = base[:i - 1], base[i + 1:]
        if core.startswith('*') and ct.kind == 'array': d = '(' + core + ')'
        elif core and core[0] not in '[(': d = ' ' + core
        else: d = core
        got = f.getctype(ct, x)
        if got != head + d + tail:
            bad.append('%%s FFI: getctype(%%r, %%r) = %%r, expected %%r' %% (label, tname, x, got, head + d + tail))
for b in bad: print('VIOLATED:', b)
sys.exit(1 if bad else 0)
'''


def make_replay(chk, m):
    def replay(case):
        x = bytes(case.get('x%d' % i, 32) for i in range(m)).decode('latin1')
        c = {'x': x, 'types': ['int', 'int *', 'int[5]', 'int *[3]', 'int(*)[3]', 'int(*)(int)', 'int(*[2])(void)']}
        path = chk.write_replay('getctype', REPLAY % json.dumps(c))
        rc, out = common.run_replay(path)
        return common.replay_verdict(rc, out), path
    return replay


def sym_name(ex, tag, n, pos, F, flags):
    """symbolic NUL-free name of n characters satisfying INV for hole position pos"""
    cs = [z3.BitVec('%s%d' % (tag, i), 8) for i in range(n)]
    for c in cs:
        ex.assume(c != 0)
    is_arr = (bv(flags, 32) & F['CT_ARRAY']) != 0
    if pos < n:
        ex.assume(z3.Or(cs[pos] == ord(')'), cs[pos] == ord('[')))
        ex.assume((cs[pos] == ord('[')) == is_arr)
    else:
        ex.assume(z3.Not(is_arr))
    return cs


def read_name(ex, L, ct, n):
    return [bv(ex.mem.load(ct + L.ct['ct_name'] + i, 1), 8) for i in range(n)]


def eq_bytes(got, want):
    if len(got) != len(want):
        return z3.BoolVal(False)
    return z3.And(*[bv(g, 8) == bv(w, 8) for g, w in zip(got, want)]) if got else z3.BoolVal(True)


def B(s):
    return [c for c in s.encode()]


def inv_after(F, name, pos, flags_after):
    """INV on a built name (list of BV8 incl. terminating 0 at the end)"""
    c = bv(name[pos], 8)
    is_arr = (bv(flags_after, 32) & F['CT_ARRAY']) != 0
    return z3.And(z3.Or(c == 0, c == ord(')'), c == ord('[')), (c == ord('[')) == is_arr)


def derive_worker(args):
    prop, tier, kind, n, extra = args
    chk = hutil.sub_check(prop, tier)
    mod = irgen.backend()
    L = pystubs.CffiLayout(mod)
    F = L.flags
    label = '%s:len=%d%s' % (kind, n, (':' + str(extra)) if extra is not None else '')

    def ext(ex, name, g, m):
        if name.startswith('ffi_type_'):
            return ex.mem.alloc(24, '@' + name, 'global', fill=0)
        return pystubs.extern_global(ex, name, g, m)
    st = pystubs.stubs(get_unique_type=lambda ex, x, key, n_: x)
    st['@*'] = ext
    ex = llsym.Executor(mod, st, loop_bound=32)

    def h(ex):
        py = pystubs.PyEnv(ex)
        posv = z3.BitVec('pos', 32)
        ex.assume(z3.And(posv >= 1, posv <= n))
        pos = ex.concretize(posv, 32, n + 1, 'hole position')
        inputs = {'pos': posv}
        if kind == 'pointer':
            flags = z3.BitVec('flags', 32)
            ex.assume((flags & ~(F['CT_ARRAY'] | F['CT_STRUCT'] | F['CT_UNION'] | F['CT_VOID'] | F['CT_PRIMITIVE_CHAR'] | F['CT_POINTER'] | F['CT_FUNCTIONPTR']
                                 | F['CT_PRIMITIVE_SIGNED'])) == 0)
            cs = sym_name(ex, 'c', n, pos, F, flags)
            inputs.update(dict(('c%d' % i, c) for i, c in enumerate(cs)))
            inputs['flags'] = flags
            base = pystubs.new_ctype(ex, L, 4, flags, name=b'x' * n, name_position=pos)
            for i, c in enumerate(cs):
                ex.mem.store(base + L.ct['ct_name'] + i, c, 1)
            r = simp(ex.call('new_pointer_type', [base]))
            okk = is_c(r) and r != 0
            hutil.witness(chk, ex, label)
            hutil.discharge(chk, ex, label + ':built', okk, inputs)
            if not okk:
                return
            is_arr = (flags & F['CT_ARRAY']) != 0
            arr = ex.decide(is_arr)
            extra_txt = B('(*)') if arr else B(' *')
            want = cs[:pos] + extra_txt + cs[pos:] + [0]
            got = read_name(ex, L, r, len(want))
            hutil.discharge(chk, ex, label + ':name==head+%s+tail' % ('(*)' if arr else '" *"'), eq_bytes(got, want), inputs)
            npos = simp(ex.mem.load(r + L.ct['ct_name_position'], 4))
            hutil.discharge(chk, ex, label + ':hole-after-the-star', npos == pos + 2, inputs)
            fl = ex.mem.load(r + L.ct['ct_flags'], 4)
            hutil.discharge(chk, ex, label + ':invariant-kept', inv_after(F, got, pos + 2, fl), inputs)
        elif kind == 'array':
            length = extra
            flags = z3.BitVec('flags', 32)
            ex.assume((flags & ~(F['CT_ARRAY'] | F['CT_POINTER'] | F['CT_PRIMITIVE_SIGNED'])) == 0)
            cs = sym_name(ex, 'c', n, pos, F, flags)
            inputs.update(dict(('c%d' % i, c) for i, c in enumerate(cs)))
            inputs['flags'] = flags
            item = pystubs.new_ctype(ex, L, 4, flags, name=b'x' * n, name_position=pos)
            for i, c in enumerate(cs):
                ex.mem.store(item + L.ct['ct_name'] + i, c, 1)
            ptr = pystubs.new_ctype(ex, L, 8, F['CT_POINTER'], itemdescr=item, name=b'p')
            r = simp(ex.call('new_array_type', [ptr, length & mask(64)]))
            okk = is_c(r) and r != 0
            hutil.witness(chk, ex, label)
            hutil.discharge(chk, ex, label + ':built', okk, inputs)
            if not okk:
                return
            txt = '[]' if length < 0 else '[%d]' % length
            want = cs[:pos] + B(txt) + cs[pos:] + [0]
            got = read_name(ex, L, r, len(want))
            hutil.discharge(chk, ex, label + ':name==head+%s+tail' % txt, eq_bytes(got, want), inputs)
            npos = simp(ex.mem.load(r + L.ct['ct_name_position'], 4))
            hutil.discharge(chk, ex, label + ':hole-before-the-bracket', npos == pos, inputs)
            fl = ex.mem.load(r + L.ct['ct_flags'], 4)
            hutil.discharge(chk, ex, label + ':invariant-kept', inv_after(F, got, pos, fl), inputs)
            hutil.discharge(chk, ex, label + ':is-array', (bv(fl, 32) & F['CT_ARRAY']) != 0, inputs)
        else:   # function
            nargs, alen = extra
            flags = z3.BitVec('flags', 32)
            ex.assume((flags & ~(F['CT_ARRAY'] | F['CT_POINTER'] | F['CT_PRIMITIVE_SIGNED'])) == 0)
            ex.assume((flags & F['CT_ARRAY']) == 0)       # C: a function cannot return an array
            cs = sym_name(ex, 'c', n, pos, F, flags)
            inputs.update(dict(('c%d' % i, c) for i, c in enumerate(cs)))
            res = pystubs.new_ctype(ex, L, 4, flags, name=b'x' * n, name_position=pos)
            for i, c in enumerate(cs):
                ex.mem.store(res + L.ct['ct_name'] + i, c, 1)
            acts, anames = [], []
            for k in range(nargs):
                a = [z3.BitVec('a%d_%d' % (k, i), 8) for i in range(alen)]
                for c in a:
                    ex.assume(c != 0)
                ct = pystubs.new_ctype(ex, L, 4, F['CT_PRIMITIVE_SIGNED'], name=b'y' * alen)
                for i, c in enumerate(a):
                    ex.mem.store(ct + L.ct['ct_name'] + i, c, 1)
                    inputs['a%d_%d' % (k, i)] = c
                acts.append(ct)
                anames.append(a)
            ell = z3.BitVec('ellipsis', 32)
            inputs['ellipsis'] = ell
            fbl = mod.struct_layout(('named', 'struct.funcbuilder_s'))
            fb = ex.mem.alloc(fbl[1], 'funcbuilder', 'heap', fill=0)
            r = simp(ex.call('fb_prepare_ctype', [fb.base, py.new_tuple(acts), res, ell, 0]))
            okk = is_c(r) and r != 0 and py.exc is None
            hutil.witness(chk, ex, label)
            hutil.discharge(chk, ex, label + ':built', okk, inputs)
            if not okk:
                return
            has_ell = ex.decide(ell != 0)
            mid = []
            for k, a in enumerate(anames):
                if k:
                    mid += B(', ')
                mid += a
            if has_ell:
                mid += B(', ...') if nargs else B('...')
            want = cs[:pos] + B('(*)(') + mid + B(')') + cs[pos:] + [0]
            got = read_name(ex, L, r, len(want))
            hutil.discharge(chk, ex, label + ':name==result-head+(*)(args)+result-tail', eq_bytes(got, want), inputs)
            npos = simp(ex.mem.load(r + L.ct['ct_name_position'], 4))
            hutil.discharge(chk, ex, label + ':hole-after-the-star', npos == pos + 2, inputs)
            nb = simp(ex.mem.load(fb.base + fbl[0][0], 8))
            hutil.discharge(chk, ex, label + ':first-pass-counted-exactly-the-name', nb == len(want), inputs)
            fl = ex.mem.load(r + L.ct['ct_flags'], 4)
            hutil.discharge(chk, ex, label + ':invariant-kept', inv_after(F, got, pos + 2, fl), inputs)

    def on_oob(ex2, what_, model):
        chk.report_failure('%s: access outside the exact-size ctype object: %s' % (label, what_), {}, None, None)
    ex.on_oob = on_oob
    res = ex.explore(h, max_paths=5000)
    hutil.finish_explore(chk, ex, res, label)
    chk.functions = irgen.func_info(mod, sorted(ex.called))
    return hutil.export(chk)


# ------------------------------------------------------------------------------------------------

def decoration_spec(xs, i, j, is_arr_concrete):
    """D for replace_with bytes xs with i leading / j trailing blanks stripped (lists of BV8/int)"""
    core = xs[i:len(xs) - j]
    return core


def ws(c):
    return z3.Or(*[bv(c, 8) == w for w in WS])


def getctype_c_worker(args):
    prop, tier, kind, n, m, which = args
    chk = hutil.sub_check(prop, tier)
    mod = irgen.backend()
    L = pystubs.CffiLayout(mod)
    F = L.flags
    label = '%s:name-len=%d:text-len=%d' % (which, n, m)
    replay = make_replay(chk, m)

    table = None

    def ctype_b_loc(ex):
        g = ex.ghost
        if 'ctype_tab' not in g:
            tab = ex.mem.alloc(384 * 2, '__ctype_b table', 'global', fill=0)
            for c in WS:
                ex.mem.store(tab.base + 2 * (c + 128), 0x2000, 2)
            cell = ex.mem.alloc(8, '__ctype_b pointer', 'global')
            ex.mem.store(cell.base, tab.base + 256, 8)
            g['ctype_tab'] = cell.base
        return g['ctype_tab']

    def parse_kw(ex, args_, kwds, fmt, kwlist, *outs):
        g = ex.ghost
        ex.mem.store(outs[0], g['ct'], 8)
        ex.mem.store(outs[1], g['text'], 8)
        return 1

    def parse(ex, args_, fmt, *outs):
        g = ex.ghost
        # "O!s": &CTypeDescr_Type, &ct, &replace_with
        ex.mem.store(outs[1], g['ct'], 8)
        ex.mem.store(outs[2], g['text'], 8)
        return 1

    def decode_latin1(ex, s, size, errors):
        size = ex.concretize(size, 64, 64, 'size')
        s = simp(s)
        return pystubs.py(ex).new_unicode([ex.mem.load(s + i, 1) for i in range(size)], (1, 'latin1'))

    def from_string_and_size(ex, s, size):
        return decode_latin1(ex, s, size, 0)
    st = pystubs.stubs(__ctype_b_loc=ctype_b_loc, _PyArg_ParseTupleAndKeywords_SizeT=parse_kw, _PyArg_ParseTuple_SizeT=parse,
                       _ffi_type=lambda ex, self, arg, accept: ex.ghost['ct'], PyUnicode_DecodeLatin1=decode_latin1,
                       PyUnicode_FromStringAndSize=from_string_and_size)
    ex = llsym.Executor(mod, st, loop_bound=32)
    ex.max_sym_region = 1024          # the 768-byte isspace() table is indexed by a symbolic character

    def h(ex):
        py = pystubs.PyEnv(ex)
        g = ex.ghost
        posv = z3.BitVec('pos', 32)
        ex.assume(z3.And(posv >= 1, posv <= n))
        pos = ex.concretize(posv, 32, n + 1, 'hole position')
        flags = z3.BitVec('flags', 32)
        ex.assume((flags & ~(F['CT_ARRAY'] | F['CT_POINTER'] | F['CT_PRIMITIVE_SIGNED'] | F['CT_FUNCTIONPTR'])) == 0)
        cs = sym_name(ex, 'c', n, pos, F, flags)
        ct = pystubs.new_ctype(ex, L, 4, flags, name=b'x' * n, name_position=pos)
        for i, c in enumerate(cs):
            ex.mem.store(ct + L.ct['ct_name'] + i, c, 1)
        xs = [z3.BitVec('x%d' % i, 8) for i in range(m)]
        text = ex.mem.alloc(m + 1, 'replace_with', 'input')
        for i, x in enumerate(xs):
            ex.assume(z3.Or(*[x == ord(ch) for ch in ALPHABET]))
            ex.mem.store(text.base + i, x, 1)
        ex.mem.store(text.base + m, 0, 1)
        g['ct'], g['text'] = ct, text.base
        inputs = {'pos': posv, 'flags': flags}
        inputs.update(dict(('c%d' % i, c) for i, c in enumerate(cs)))
        inputs.update(dict(('x%d' % i, x) for i, x in enumerate(xs)))
        if which == 'ffi_getctype':
            r = simp(ex.call('ffi_getctype', [0, 0, 0]))
        else:
            r = simp(ex.call('b_getcname', [0, 0]))
        okk = is_c(r) and r != 0 and py.exc is None
        hutil.witness(chk, ex, label)
        hutil.discharge(chk, ex, label + ':returns-a-str', okk, inputs, replay=replay)
        if not okk:
            return
        ukind, got = py.read_unicode(r)
        is_arr = (flags & F['CT_ARRAY']) != 0
        if which == 'b_getcname':
            want = cs[:pos] + xs + cs[pos:]
            hutil.discharge(chk, ex, label + ':name[:pos]+text+name[pos:]', eq_bytes(got, want), inputs, replay=replay)
            return
        conds = []
        for i in range(m + 1):
            for j in range(m + 1 - i):
                core = xs[i:m - j]
                pre = [ws(x) for x in xs[:i]] + [ws(x) for x in xs[m - j:]]
                if core:
                    pre += [z3.Not(ws(core[0])), z3.Not(ws(core[-1]))]
                elif j:
                    continue        # all blanks: counted once as i == m, j == 0
                pre = z3.And(*pre) if pre else z3.BoolVal(True)
                if not core:
                    conds.append(z3.Implies(pre, eq_bytes(got, cs)))
                    continue
                star = core[0] == ord('*')
                paren = z3.And(star, is_arr)
                space = z3.And(z3.Not(paren), core[0] != ord('['), core[0] != ord('('))
                w_paren = cs[:pos] + B('(') + core + B(')') + cs[pos:]
                w_space = cs[:pos] + B(' ') + core + cs[pos:]
                w_plain = cs[:pos] + core + cs[pos:]
                conds.append(z3.Implies(pre, z3.If(paren, eq_bytes(got, w_paren), z3.If(space, eq_bytes(got, w_space), eq_bytes(got, w_plain)))))
        hutil.discharge(chk, ex, label + ':answer==name[:pos]+D(text)+name[pos:]', z3.And(*conds), inputs, replay=replay)

    def on_oob(ex2, what_, model):
        chk.report_failure('%s: access outside the exact-size result / name buffers: %s' % (label, what_), {}, None, None)
    ex.on_oob = on_oob
    res = ex.explore(h, max_paths=20000)
    hutil.finish_explore(chk, ex, res, label)
    chk.functions = irgen.func_info(mod, sorted(ex.called))
    return hutil.export(chk)


class LStr(str):
    """a str constant of the function under test, made aware of symbolic operands (the bytecode is unchanged)"""

    def __contains__(self, item):
        if isinstance(item, symstr.SymStr):
            if len(item) == 0:
                return True
            ex = item.ex
            n, k = len(self), len(item)
            alts = []
            for i in range(n - k + 1):
                alts.append(z3.And(*[llsym.bv(item.chars[t], symstr.CW) == ord(self[i + t]) for t in range(k)]))
            return ex.decide(z3.Or(*alts)) if alts else False
        return str.__contains__(self, item)

    def __mod__(self, arg):
        if isinstance(arg, symstr.SymStr) and self.count('%s') == 1 and self.count('%') == 1:
            a, b = self.split('%s')
            return a + arg + b
        return str.__mod__(self, arg)

    def __add__(self, o):
        if isinstance(o, symstr.SymStr):
            return o.__radd__(str(self))
        return str.__add__(self, o)


def lift_consts(fn):
    import types
    code = fn.__code__
    consts = tuple(LStr(c) if isinstance(c, str) else c for c in code.co_consts)
    return types.FunctionType(code.replace(co_consts=consts), fn.__globals__, fn.__name__, fn.__defaults__, fn.__closure__)


def getctype_py_worker(args):
    prop, tier, kind, n, m = args
    chk = hutil.sub_check(prop, tier)
    label = 'FFI.getctype(api.py):name-len=%d:text-len=%d' % (n, m)
    replay = make_replay(chk, m)
    sys.path.insert(0, os.path.join(common.REPO, 'src'))
    for k in [k for k in sys.modules if k == 'cffi' or k.startswith('cffi.')]:
        del sys.modules[k]
    from cffi import api
    getctype = lift_consts(api.FFI.getctype)
    ex = pysym.PyExplorer()

    def h(ex):
        posv = z3.BitVec('pos', 32)
        ex.assume(z3.And(posv >= 1, posv <= n))
        pos = ex.concretize(posv, 32, n + 1, 'hole position')
        is_arr = z3.Bool('is_array')
        name = symstr.SymStr.fresh(ex, 'c', n)
        cs = name.chars
        for c in cs:
            ex.add_definition(c != 0)
            ex.add_definition(c != ord('&'))     # '&' is cffi's own hole marker: never part of a C type name
        if pos < n:
            ex.assume(z3.Or(cs[pos] == ord(')'), cs[pos] == ord('[')))
            ex.assume((cs[pos] == ord('[')) == is_arr)
        else:
            ex.assume(z3.Not(is_arr))
        text = symstr.SymStr.fresh(ex, 'x', m) if m else ''
        xs = text.chars if m else []
        for x in xs:
            ex.assume(z3.Or(*[x == ord(ch) for ch in ALPHABET]))

        class Backend(object):
            def getcname(self, cdecl, replace_with):
                return name[:pos] + replace_with + name[pos:]

        class Self(object):
            _backend = Backend()
        got = getctype(Self(), object(), text)
        got = got.chars if isinstance(got, symstr.SymStr) else [ord(ch) for ch in got]
        inputs = {'pos': posv, 'is_array': is_arr}
        inputs.update(dict(('c%d' % i, c) for i, c in enumerate(cs)))
        inputs.update(dict(('x%d' % i, x) for i, x in enumerate(xs)))
        hutil.witness(chk, ex, label)

        def eq(a, b):
            if len(a) != len(b):
                return z3.BoolVal(False)
            return z3.And(*[llsym.bv(p, symstr.CW) == llsym.bv(q, symstr.CW) for p, q in zip(a, b)]) if a else z3.BoolVal(True)

        def wsz(c):
            return z3.Or(*[llsym.bv(c, symstr.CW) == w for w in WS])
        conds = []
        for i in range(m + 1):
            for j in range(m + 1 - i):
                core = xs[i:m - j]
                pre = [wsz(x) for x in xs[:i]] + [wsz(x) for x in xs[m - j:]]
                if core:
                    pre += [z3.Not(wsz(core[0])), z3.Not(wsz(core[-1]))]
                elif j:
                    continue
                pre = z3.And(*pre) if pre else z3.BoolVal(True)
                if not core:
                    conds.append(z3.Implies(pre, eq(got, cs)))
                    continue
                paren = z3.And(core[0] == ord('*'), is_arr)
                space = z3.And(z3.Not(paren), core[0] != ord('['), core[0] != ord('('))
                conds.append(z3.Implies(pre, z3.If(paren, eq(got, cs[:pos] + B('(') + core + B(')') + cs[pos:]),
                                                   z3.If(space, eq(got, cs[:pos] + B(' ') + core + cs[pos:]), eq(got, cs[:pos] + core + cs[pos:])))))
        hutil.discharge(chk, ex, label + ':answer==name[:pos]+D(text)+name[pos:]', z3.And(*conds), inputs, replay=replay)

    res = ex.explore(h, max_paths=20000)
    hutil.finish_explore(chk, ex, res, label)
    chk.functions = [{'name': 'FFI.getctype', 'file': 'src/cffi/api.py'}]
    return hutil.export(chk)


def dispatch(args):
    k = args[2]
    if k in ('pointer', 'array', 'function'):
        return derive_worker(args)
    if k == 'getctype-c':
        return getctype_c_worker(args)
    return getctype_py_worker(args)


def run(chk):
    quick = chk.tier == 'quick'
    P = (chk.prop, chk.tier)
    NL = 5 if quick else 7
    cases = []
    for n in range(1, NL + 1):
        cases.append(P + ('pointer', n, None))
        for length in (-1, 0, 7, 1234567890123, (1 << 61) - 1):
            cases.append(P + ('array', n, length))
    for n in range(1, 4 if quick else 6):
        for nargs, alen in ((0, 0), (1, 2), (2, 1), (2, 3)) if quick else ((0, 0), (1, 1), (1, 4), (2, 1), (2, 3), (3, 2)):
            cases.append(P + ('function', n, (nargs, alen)))
    TM = 3 if quick else 4
    for n in range(1, 4 if quick else 5):
        for m in range(0, TM + 1):
            cases.append(P + ('getctype-c', n, m, 'ffi_getctype'))
            cases.append(P + ('getctype-c', n, m, 'b_getcname'))
            cases.append(P + ('getctype-py', n, m))
    chk.bounds = {'type names': 'every NUL-free name of 1..%d characters satisfying INV, every hole position' % NL,
                  'array lengths': '[] and 0, 7, 1234567890123, 2**61-1', 'function types': 'result name <= %d chars, 0..%d arguments' % (3 if quick else 5, 2 if quick else 3),
                  'replace_with': 'every text of 0..%d characters over %r' % (TM, ALPHABET)}
    chk.outside = ['re-parsing the produced text (the parsers are C07/C30); the statement that insertion at the hole denotes the derived type is C\'s declarator grammar, argued in DESIGN.md',
                   'the C compiler accepting getctype(T, "v") (needs the compiler on concrete names)',
                   'struct/union/enum names (plain names with the hole at the end: covered by the symbolic name with pos == len)',
                   'replace_with characters outside the declarator alphabet (str.strip() and isspace() differ on \\x1c-\\x1f and non-ASCII blanks)',
                   '__stdcall function types (Win32 only)']
    chk.assume('get_unique_type returns its argument (C27); isspace() is the C locale table')
    irgen.backend()
    hutil.run_cases(chk, cases, dispatch)
