"""C35 -- pkg-config output is translated to build keywords without loss.

CrossHair on the real flags_from_pkgconfig / merge_flags / call of src/cffi/pkgconfig.py.
`call` is replaced by a stub whose result's .split() yields a symbolic token list (str.split's
contract: the tokens); for `call` itself subprocess.Popen is a stub with symbolic exit status
and output bytes.
"""
from vf import common, xhair

LEVEL = 'model_checking'

HARNESS = r'''
import sys
from typing import List, Optional, Tuple
from cffi import pkgconfig
from cffi.error import PkgConfigError


class _Out(object):
    """what pkg-config printed, already tokenised: only .split() is used by the code under test"""
    def __init__(self, tokens):
        self.tokens = tokens

    def split(self):
        return list(self.tokens)


def _install(table):
    def fake_call(libname, flag, encoding=None):
        cflags, libs = table[libname]
        return _Out(cflags if flag == '--cflags' else libs)
    pkgconfig.call = fake_call


def ref_one(cflags, libs):
    inc, mac, oc, ld, ll, ol = [], [], [], [], [], []
    for t in cflags:
        if t[:2] == '-I':
            inc.append(t[2:])
        elif t[:2] == '-D':
            body = t[2:]
            i = body.find('=')
            if i < 0:
                mac.append((body, None))
            else:
                mac.append((body[:i], body[i + 1:]))
        else:
            oc.append(t)
    for t in libs:
        if t[:2] == '-L':
            ld.append(t[2:])
        elif t[:2] == '-l':
            ll.append(t[2:])
        else:
            ol.append(t)
    return {"include_dirs": inc, "library_dirs": ld, "libraries": ll, "define_macros": mac,
            "extra_compile_args": oc, "extra_link_args": ol}


def _short(tokens, n, m):
    if len(tokens) > n:
        return False
    for t in tokens:
        if len(t) > m:
            return False
    return True


def prop_one_package(cflags: List[str], libs: List[str]) -> bool:
    """
    pre: _short(cflags, %(NT)d, %(NC)d) and _short(libs, %(NT)d, %(NC)d)
    pre: _ok('prop_one_package', cflags, libs)
    post: _ == True
    """
    _install({'p': (cflags, libs)})
    got = pkgconfig.flags_from_pkgconfig(['p'])
    return got == ref_one(cflags, libs)


def prop_macro_token(t: str) -> bool:
    """
    pre: len(t) <= %(NM)d
    pre: _ok('prop_macro_token', t)
    post: _ == True
    """
    _install({'p': (['-D' + t], [])})
    got = pkgconfig.flags_from_pkgconfig(['p'])
    i = t.find('=')
    want = (t, None) if i < 0 else (t[:i], t[i + 1:])
    return got['define_macros'] == [want] and got['include_dirs'] == [] and got['extra_compile_args'] == []


def prop_two_packages(c1: List[str], l1: List[str], c2: List[str], l2: List[str]) -> bool:
    """
    pre: _short(c1, 2, %(NC2)d) and _short(l1, 2, %(NC2)d) and _short(c2, 2, %(NC2)d) and _short(l2, 2, %(NC2)d)
    pre: _ok('prop_two_packages', c1, l1, c2, l2)
    post: _ == True
    """
    _install({'a': (c1, l1), 'b': (c2, l2)})
    got = pkgconfig.flags_from_pkgconfig(['a', 'b'])
    ra, rb = ref_one(c1, l1), ref_one(c2, l2)
    want = dict((k, ra[k] + rb[k]) for k in ra)
    return got == want


def prop_merge_flags(a: List[str], b: List[str], c: List[str]) -> bool:
    """
    pre: len(a) <= 2 and len(b) <= 2 and len(c) <= 2
    post: _ == True
    """
    cfg = pkgconfig.merge_flags({'x': list(a)}, {'x': list(b), 'y': list(c)})
    return cfg == {'x': a + b, 'y': c}


class _Popen(object):
    def __init__(self, rc, out, err):
        self.returncode = rc
        self._o, self._e = out, err

    def communicate(self):
        return self._o, self._e


def prop_call(rc: int, out: bytes, err: bytes) -> bool:
    """
    pre: len(out) <= %(NB)d and len(err) <= 2
    pre: _ok('prop_call', rc, out, err)
    post: _ == True
    """
    import subprocess
    real_popen = subprocess.Popen
    import importlib
    subprocess.Popen = lambda *a, **k: _Popen(rc, out, err)
    try:
        mod = sys.modules['cffi.pkgconfig']
        # the harness replaced `call` in other properties: fetch the original function object
        fn = _ORIG_CALL
        try:
            r = fn('lib', '--cflags', 'utf-8')
            ok = True
        except PkgConfigError:
            ok = False
        # any other exception propagates and fails the property
    finally:
        subprocess.Popen = real_popen
    try:
        text = out.decode('utf-8')
        decodable = True
    except UnicodeDecodeError:
        text, decodable = None, False
    should_succeed = (rc == 0) and decodable and (chr(92) not in text)
    if ok != should_succeed:
        return False
    return (r == text) if ok else True


_ORIG_CALL = pkgconfig.call
'''


def run(chk):
    quick = chk.tier == 'quick'
    params = {'NT': 2 if quick else 3, 'NC': 3 if quick else 4, 'NM': 4 if quick else 6,
              'NC2': 3 if quick else 3, 'NB': 3 if quick else 4}
    chk.bounds = {'tokens per output': params['NT'], 'characters per token': params['NC'],
                  'macro token length': params['NM'], 'packages': 2, 'pkg-config output bytes': params['NB'],
                  'exit status': 'any int'}
    chk.outside = ['str.split() itself (tokens are delivered by a stub honouring its contract)',
                   'the real pkg-config program and subprocess.Popen', 'more than 2 packages / longer tokens']
    chk.assume('pkg-config output is modelled as its token list; PkgConfigError is the only exception allowed from call()')
    chk.functions = [{'name': 'flags_from_pkgconfig', 'file': 'src/cffi/pkgconfig.py'},
                     {'name': 'merge_flags', 'file': 'src/cffi/pkgconfig.py'},
                     {'name': 'call', 'file': 'src/cffi/pkgconfig.py'}]
    xhair.check_module(chk, 'c35', HARNESS % params, timeout_s=90 if quick else 400)
    chk.sample({'function': 'prop_one_package', 'symbolic': 'cflags: List[str], libs: List[str]'})
    chk.sample({'function': 'prop_call', 'symbolic': 'rc: int, out: bytes, err: bytes'})
