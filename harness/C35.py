"""C35 -- pkg-config output is translated to build keywords without loss.

pysym/SymStr on the real flags_from_pkgconfig / merge_flags / call of src/cffi/pkgconfig.py.
`call` is replaced by a stub whose result's .split() yields a list of symbolic tokens (every
string of the given lengths; str.split's contract is the token list); for `call` itself
subprocess.Popen is a stub with a symbolic exit status, a decode() that may fail or yield any
text, so every decision the real code takes on its inputs is a solver-guided fork.
One exploration per tuple of token lengths (lengths are the only concrete part).
"""
import os, sys, itertools, json
import z3
from vf import common, llsym, pysym, symstr, hutil

KEYS = ["include_dirs", "library_dirs", "libraries", "define_macros", "extra_compile_args", "extra_link_args"]


class _Out(object):
    def __init__(self, tokens):
        self.tokens = tokens

    def split(self):
        return list(self.tokens)


def ref_one(cflags, libs):
    """reference translation, written independently of the code under test"""
    inc, mac, oc, ld, ll, ol = [], [], [], [], [], []
    for t in cflags:
        if t[:2] == '-I':
            inc.append(t[2:])
        elif t[:2] == '-D':
            body = t[2:]
            i = body.find('=')
            if i < 0:
                mac.append((body, None))
            else:
                mac.append((body[:i], body[i + 1:]))
        else:
            oc.append(t)
    for t in libs:
        if t[:2] == '-L':
            ld.append(t[2:])
        elif t[:2] == '-l':
            ll.append(t[2:])
        else:
            ol.append(t)
    return {"include_dirs": inc, "library_dirs": ld, "libraries": ll, "define_macros": mac,
            "extra_compile_args": oc, "extra_link_args": ol}


def sym_equal(a, b):
    """structural equality of results containing SymStr -> python bool or z3 Bool"""
    if isinstance(a, (list, tuple)) and isinstance(b, (list, tuple)):
        if type(a) != type(b) or len(a) != len(b):
            return False
        return llsym.b_and(*[sym_equal(x, y) for x, y in zip(a, b)])
    if isinstance(a, dict) and isinstance(b, dict):
        if sorted(a.keys()) != sorted(b.keys()):
            return False
        return llsym.b_and(*[sym_equal(a[k], b[k]) for k in a])
    if isinstance(a, symstr.SymStr):
        t = a._eq_term(b)
        return False if t is None else t
    if isinstance(b, symstr.SymStr):
        t = b._eq_term(a)
        return False if t is None else t
    return a == b


def conc(x, m):
    if isinstance(x, symstr.SymStr):
        return x.concrete(m)
    if isinstance(x, list):
        return [conc(y, m) for y in x]
    if isinstance(x, tuple):
        return tuple(conc(y, m) for y in x)
    if isinstance(x, dict):
        return dict((k, conc(v, m)) for k, v in x.items())
    return x


REPLAY = r'''
# Replay for C35 against the real cffi.pkgconfig: a stub pkg-config program on PATH prints the tokens.
import sys, os, json, tempfile, stat
case = json.loads(%r)
d = tempfile.mkdtemp()
prog = os.path.join(d, 'pkg-config')
open(prog, 'w').write("""#!%%s
import sys, json
table = json.loads(%%r)
flag, lib = sys.argv[-2], sys.argv[-1]
sys.stdout.write(' '.join(table[lib][0 if flag == '--cflags' else 1]))
""" %% (sys.executable, json.dumps(case['table'])))
os.chmod(prog, 0o755)
os.environ['PATH'] = d + os.pathsep + os.environ['PATH']
from cffi import pkgconfig
got = pkgconfig.flags_from_pkgconfig(case['libs'])
def ref_one(cflags, libs):
    r = dict((k, []) for k in ["include_dirs", "library_dirs", "libraries", "define_macros", "extra_compile_args", "extra_link_args"])
    for t in cflags:
        if t[:2] == '-I': r['include_dirs'].append(t[2:])
        elif t[:2] == '-D':
            b = t[2:]; i = b.find('=')
            r['define_macros'].append((b, None) if i < 0 else (b[:i], b[i+1:]))
        else: r['extra_compile_args'].append(t)
    for t in libs:
        if t[:2] == '-L': r['library_dirs'].append(t[2:])
        elif t[:2] == '-l': r['libraries'].append(t[2:])
        else: r['extra_link_args'].append(t)
    return r
want = None
for lib in case['libs']:
    r = ref_one(*case['table'][lib])
    want = r if want is None else dict((k, want[k] + r[k]) for k in r)
if got != want:
    print('VIOLATED: tokens', case['table'], '->', got, 'expected', want)
    sys.exit(1)
sys.exit(0)
'''


def make_replay(chk):
    def replay(case):
        # tokens containing whitespace or empty tokens cannot be produced by a real pkg-config run
        for lib in case['table'].values():
            for toks in lib:
                for t in toks:
                    if not t or any(ch.isspace() or ord(ch) < 32 or ord(ch) > 126 for ch in t) or '\\' in t:
                        return None, None
        body = REPLAY % json.dumps(case)
        path = chk.write_replay('tokens', body)
        rc, out = common.run_replay(path)
        return common.replay_verdict(rc, out), path
    return replay


def worker(args):
    prop, tier, kind, shape = args
    sys.path.insert(0, os.path.join(common.REPO, 'src'))
    chk = hutil.sub_check(prop, tier)
    from cffi import pkgconfig
    from cffi.error import PkgConfigError
    ex = pysym.PyExplorer()
    replay = make_replay(chk)
    label = '%s%r' % (kind, shape)
    if not hasattr(pkgconfig, '_verif_orig_call'):
        pkgconfig._verif_orig_call = pkgconfig.call      # workers are reused: keep the real function

    if kind in ('flags', 'flagsrep'):
        # shape: tuple of packages, each (cflags token lengths, libs token lengths);
        # flagsrep: (packages, order) -- the list handed to flags_from_pkgconfig names packages repeatedly
        order = None
        if kind == 'flagsrep':
            shape, order = shape

        def h(ex):
            table = {}
            names = []
            for pi, (cl, ll) in enumerate(shape):
                name = 'p%d' % pi
                names.append(name)
                c = [symstr.SymStr.fresh(ex, '%s.c%d' % (name, i), n) for i, n in enumerate(cl)]
                l = [symstr.SymStr.fresh(ex, '%s.l%d' % (name, i), n) for i, n in enumerate(ll)]
                c = [x if n else '' for x, n in zip(c, cl)]
                l = [x if n else '' for x, n in zip(l, ll)]
                table[name] = (c, l)

            def fake_call(libname, flag, encoding=None):
                c, l = table[libname]
                return _Out(c if flag == '--cflags' else l)
            pkgconfig.call = fake_call
            if order is not None:
                names = [names[k] for k in order]
            got = pkgconfig.flags_from_pkgconfig(list(names))
            want = None
            for n in names:
                r = ref_one(*table[n])
                want = r if want is None else dict((k, want[k] + r[k]) for k in KEYS)
            m = hutil.witness(chk, ex, label + ':' + ','.join('%s=%d' % (k, len(got.get(k, []))) for k in KEYS))
            if m is not None:
                chk.sample({'tokens': conc(table, m), 'result': conc(got, m)})

            def rp(case):
                mm = case['_model']
                return replay({'libs': names, 'table': dict((k, [conc(v[0], mm), conc(v[1], mm)]) for k, v in table.items())})
            cond = sym_equal(got, want)
            t_inputs = {}
            # discharge with a replay that needs the model: done by hand
            import time
            t0 = time.time()
            mm = ex.sat(llsym.b_not(cond))
            if mm is None:
                chk.query(label + ':result==reference', 'unsat', time.time() - t0)
            else:
                chk.query(label + ':result==reference', 'sat', time.time() - t0)
                ok, script = rp({'_model': mm})
                chk.report_failure('%s: tokens %r -> %r, expected %r' % (label, conc(table, mm), conc(got, mm), conc(want, mm)),
                                   {}, script, ok)
    else:
        # kind == 'call': shape = length of the decoded output text
        n = shape
        orig_call = pkgconfig._verif_orig_call

        def h(ex):
            import subprocess
            rc = ex.sym_int('returncode')
            decodable = z3.Bool('decodable')
            text = symstr.SymStr.fresh(ex, 'out', n, ascii_only=True) if n else ''

            class Bytes(object):
                def decode(self, enc):
                    if ex.decide(decodable):
                        return text
                    raise UnicodeDecodeError('utf-8', b'', 0, 1, 'stub')

                def strip(self):
                    return self

            class P(object):
                returncode = rc

                def communicate(self):
                    return Bytes(), Bytes()
            real = subprocess.Popen
            subprocess.Popen = lambda *a, **k: P()
            try:
                try:
                    r = orig_call('lib', '--cflags', 'utf-8')
                    outcome = 'returned'
                except PkgConfigError:
                    outcome = 'PkgConfigError'
                except (llsym.PathEnd, llsym.Unsupported, llsym.UnwindBound):
                    raise
                except Exception as e:
                    outcome = 'other:' + type(e).__name__
            finally:
                subprocess.Popen = real
            has_bs = False
            if n:
                has_bs = z3.Or(*[c == 92 for c in text.chars])
            should = llsym.b_and(rc.t == 0, decodable, llsym.b_not(has_bs))
            hutil.witness(chk, ex, '%s:%s' % (label, outcome))
            inputs = {'returncode': rc.t, 'decodable': decodable}
            if outcome == 'returned':
                hutil.discharge(chk, ex, label + ':returned=>exit0-decodable-no-backslash', should, inputs)
                hutil.discharge(chk, ex, label + ':returned==decoded-text', sym_equal(r, text), inputs)
            elif outcome == 'PkgConfigError':
                hutil.discharge(chk, ex, label + ':PkgConfigError=>failing-run', llsym.b_not(should), inputs)
            else:
                chk.report_failure('%s: call() raised %s' % (label, outcome), {}, None, None)

    res = ex.explore(h, max_paths=200000)
    hutil.finish_explore(chk, ex, res, label)
    return hutil.export(chk)


def run(chk):
    quick = chk.tier == 'quick'
    P = (chk.prop, chk.tier)
    cases = []
    ML = 3 if quick else 5
    lens = list(range(0, ML + 1))
    # one package: up to 2 cflags tokens and 1 libs token (quick) / 2 and 2 (thorough)
    for nc in range(0, 3):
        for cl in itertools.product(lens, repeat=nc):
            for nl in range(0, 2 if quick else 3):
                for ll in itertools.product(lens if nl < 2 else lens[:4], repeat=nl):
                    cases.append(P + ('flags', ((tuple(cl), tuple(ll)),)))
    # macro tokens up to length 6 (the '-Dname=value' split)
    for n in range(2, 7 if quick else 9):
        cases.append(P + ('flags', (((n,), ()),)))
    # two packages: merge order
    two = [0, 2, 3]
    for a in two:
        for b in two:
            cases.append(P + ('flags', (((a,), (b,)), ((b,), (a,)))))
    # package lists that name a package more than once (the result is the concatenation in call order, repeats included)
    for order in [(0, 0), (0, 1, 0), (0, 0, 0), (0, 1, 1), (1, 0, 0, 1)] + ([] if quick else [(0, 1, 2, 0), (0, 1, 0, 1), (2, 1, 0, 2, 1)]):
        for a in (2, 3):
            cases.append(P + ('flagsrep', ((((a,), (2,)), ((3,), (a,)), ((2,), (2,))), order)))
    if not quick:
        for a, b, c, d in itertools.product([2, 3], repeat=4):
            cases.append(P + ('flags', (((a, b), (c,)), ((d,), (a, b)))))
    for n in range(0, 4 if quick else 6):
        cases.append(P + ('call', n))
    chk.bounds = {'cflags tokens': '<= 2 per package', 'libs tokens': '<= %d per package' % (1 if quick else 2),
                  'characters per token': '<= %d, any ASCII code point' % ML, 'macro token length': '<= %d' % (6 if quick else 8),
                  'packages': '<= 2 distinct shapes (3 in lists with repeated names, up to %d entries)' % (4 if quick else 5), 'call(): decoded output': '<= %d characters; exit status any int; decode may fail' % (3 if quick else 5)}
    chk.outside = ['str.split() itself (tokens are delivered by a stub honouring its contract)',
                   'non-ASCII token characters', 'the real pkg-config program and subprocess.Popen',
                   'more tokens/packages than the bound']
    chk.assume('pkg-config output is modelled as its token list; bytes.decode either raises UnicodeDecodeError or '
               'returns some text; PkgConfigError is the only exception allowed from call()')
    chk.functions = [{'name': 'flags_from_pkgconfig', 'file': 'src/cffi/pkgconfig.py'},
                     {'name': 'merge_flags', 'file': 'src/cffi/pkgconfig.py'},
                     {'name': 'call', 'file': 'src/cffi/pkgconfig.py'}]
    hutil.run_cases(chk, cases, worker)
