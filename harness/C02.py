"""C02 -- bit-field reads and writes are range-exact, round-trip and isolated.

Decided by llsym on the real IR of convert_from_object_bitfield / convert_to_object_bitfield
(+ read_raw_signed_data, read_raw_unsigned_data, write_raw_integer_data, _cffi_memcpy).

Symbolic: cf_bitsize, cf_bitshift (16-bit each, constrained to the placement invariant that
b_complete_struct_or_union establishes: 1 <= bitsize, 0 <= bitshift, bitshift+bitsize <=
8*size), the `size` storage bytes, the Python int (128-bit payload = any magnitude).
Case split done concretely: size in {1,2,4,8} x {signed, unsigned} + _Bool (size 1, width 1).
"""
import time, json, os
import z3
from vf import common, irgen, llsym, pystubs, hutil
from vf.llsym import bv, simp, mask
from vf.pystubs import W, V_const

FUNCS = ['convert_from_object_bitfield', 'convert_to_object_bitfield', 'read_raw_signed_data',
         'read_raw_unsigned_data', 'write_raw_integer_data', '_cffi_memcpy']

TAGS = [
    hutil.Tag('unsigned_width64_value_ge_2p63',
              lambda c: (not c['signed']) and c['bitsize'] == 64 and (1 << 63) <= llsym.signed(c['v'], W) < (1 << 64),
              lambda i: z3.And(i['bitsize'] == 64, i['v'] >= V_const(1 << 63), i['v'] < V_const(1 << 64))),
]

REPLAY = r'''
# Replay of a solver model for C02 against the real cffi build on PYTHONPATH.
# Exits 1 iff the property's statement is violated for this case, 0 otherwise.
import sys, json
import cffi
case = json.loads(%r)
size, signed, isbool = case['size'], case['signed'], case.get('bool', False)
bitsize, bitshift, old, v = case['bitsize'], case['bitshift'], case['old'], case['v']
tname = {1: 'char', 2: 'short', 4: 'int', 8: 'long long'}[size]
tname = ('signed ' if signed else 'unsigned ') + tname
if isbool:
    tname = '_Bool'
ffi = cffi.FFI()
pad = ('%%s pad:%%d; ' %% (tname, bitshift)) if bitshift else ''
ffi.cdef('struct s { %%s%%s f:%%d; };' %% (pad, tname, bitsize))
p = ffi.new('struct s *')
assert ffi.sizeof('struct s') == size, (ffi.sizeof('struct s'), size)
buf = ffi.buffer(p)
buf[:] = old.to_bytes(size, 'little')
if signed:
    lo, hi = -(1 << (bitsize - 1)), (1 << (bitsize - 1)) - 1
    in_range = lo <= v <= hi or (bitsize == 1 and v == 1)
    expect = -1 if (bitsize == 1 and v == 1) else v
else:
    in_range = 0 <= v <= (1 << bitsize) - 1
    expect = v
fmask = ((1 << bitsize) - 1) << bitshift
bad = []
# value read from arbitrary storage == what C reads (sign/zero extension of the field's bits)
raw = (old >> bitshift) & ((1 << bitsize) - 1)
cread = raw - (1 << bitsize) if (signed and raw >> (bitsize - 1)) else raw
if int(p.f) != cread:
    bad.append('read of storage %%#x gives %%d, C reads %%d' %% (old, p.f, cread))
try:
    p.f = v
    ok = True
except OverflowError:
    ok = False
new = int.from_bytes(bytes(buf), 'little')
if ok != in_range:
    bad.append('assigning %%d to %%s:%%d was %%s but in_range=%%s' %% (v, tname, bitsize,
               'accepted' if ok else 'rejected', in_range))
if ok:
    if int(p.f) != expect and in_range:
        bad.append('wrote %%d, read back %%d (expected %%d)' %% (v, p.f, expect))
    if (new & ~fmask) != (old & ~fmask):
        bad.append('bits outside the field changed: %%#x -> %%#x' %% (old, new))
else:
    if new != old:
        bad.append('rejected store changed memory: %%#x -> %%#x' %% (old, new))
for b in bad:
    print('VIOLATED:', b)
sys.exit(1 if bad else 0)
'''


def describe(c):
    return ('%s%s field width %d at bit %d of a %d-byte unit, storage=%#x, v=%d'
            % ('_Bool ' if c.get('bool') else '', 'signed' if c['signed'] else 'unsigned',
               c['bitsize'], c['bitshift'], c['size'], c['old'], llsym.signed(c['v'], W)))


def make_replay(chk):
    def replay(case):
        case = dict(case)
        case['v'] = llsym.signed(case['v'], W)
        body = REPLAY % json.dumps(case)
        name = '%s-%d-%d-%d' % ('s' if case['signed'] else 'u', case['size'], case['bitsize'], case['bitshift'])
        path = chk.write_replay(name, body)
        rc, out = common.run_replay(path)
        return common.replay_verdict(rc, out), path
    return replay


def field_spec(word, size, bitsize, bitshift, signed_):
    """C semantics of reading the bit-field, in 128-bit arithmetic (no overflow possible)."""
    Wd = z3.ZeroExt(W - 8 * size, bv(word, 8 * size))
    bs = z3.ZeroExt(W - 16, bitsize)
    sh = z3.ZeroExt(W - 16, bitshift)
    one = V_const(1)
    fmask = (one << bs) - 1
    raw = z3.LShR(Wd, sh) & fmask
    if signed_:
        signbit = z3.LShR(raw, bs - 1) & 1
        return z3.If(signbit == 1, raw - (one << bs), raw)
    return raw


def worker(args):
    prop, tier, size, kind = args
    chk = hutil.sub_check(prop, tier)
    mod = irgen.backend()
    L = pystubs.CffiLayout(mod)
    F = L.flags
    signed_ = kind == 'signed'
    isbool = kind == 'bool'
    label = '%s%d' % (kind, size)
    replay = make_replay(chk)

    def fatal(ex, *a):
        ex.ghost['fatal'] = True
        raise llsym.PathEnd()

    st = pystubs.stubs(_Py_FatalErrorFunc=fatal)
    ex = llsym.Executor(mod, st, loop_bound=16)

    flags = F['CT_PRIMITIVE_SIGNED'] if signed_ else F['CT_PRIMITIVE_UNSIGNED']
    if isbool:
        flags |= F['CT_IS_BOOL']
    # new_primitive_type(): FITS_LONG iff size <= sizeof(long) (signed) / size < sizeof(long) (unsigned)
    if (signed_ and size <= 8) or (not signed_ and size < 8):
        flags |= F['CT_PRIMITIVE_FITS_LONG']

    def harness(ex, mode):
        py = pystubs.PyEnv(ex)
        bitsize = z3.BitVec('bitsize', 16)
        bitshift = z3.BitVec('bitshift', 16)
        old = z3.BitVec('old', 8 * size)
        V = z3.BitVec('v', W)
        inputs = {'bitsize': bitsize, 'bitshift': bitshift, 'old': old, 'v': V}
        extra = {'size': size, 'signed': signed_, 'bool': isbool}
        ex.assume(z3.And(bitsize >= 1, bitshift >= 0, bitsize <= 8 * size, bitshift <= 8 * size,
                         bitsize + bitshift <= 8 * size))
        if isbool:
            ex.assume(bitsize == 1)
        ct = pystubs.new_ctype(ex, L, size, flags)
        cf = pystubs.new_cfield(ex, L, ct, 0, bitshift, bitsize)
        data = ex.mem.alloc(size, 'field storage', 'input')
        ex.mem.store(data.base, old, size)
        bs128 = z3.ZeroExt(W - 16, bitsize)
        one = V_const(1)
        kw = dict(inputs=inputs, tags=TAGS, replay=replay, describe=describe, extra_case=extra)

        if mode == 'read':
            # value read from arbitrary storage == C's value
            o = ex.call('convert_to_object_bitfield', [data.base, cf])
            hutil.witness(chk, ex, label + ':read')
            got = py.info(o)['V']
            hutil.discharge(chk, ex, label + ':read==C-semantics',
                            got == field_spec(old, size, bitsize, bitshift, signed_), **kw)
            hutil.discharge(chk, ex, label + ':read-no-exception', py.exc is None, **kw)
            return

        init = py.new_int(V)
        r = ex.call('convert_from_object_bitfield', [data.base, cf, init])
        r = simp(r)
        if not llsym.is_c(r):
            raise llsym.Unsupported('symbolic return value')
        new = ex.mem.load(data.base, size)
        if signed_:
            in_range = z3.Or(z3.And(V >= -(one << (bs128 - 1)), V <= (one << (bs128 - 1)) - 1),
                             z3.And(bitsize == 1, V == 1))
        else:
            in_range = z3.And(V >= 0, V <= (one << bs128) - 1)
        if r == 0:
            m = hutil.witness(chk, ex, label + ':accepted')
            if m is not None and mode == 'write':
                chk.sample({'case': label, 'bitsize': hutil.mval(m, bitsize), 'bitshift': hutil.mval(m, bitshift),
                            'old': hex(hutil.mval(m, old)), 'v': hutil.smval(m, V, W)})
            hutil.discharge(chk, ex, label + ':accepted=>in-range', in_range, **kw)
            hutil.discharge(chk, ex, label + ':accepted=>no-exception', py.exc is None, **kw)
            fmask = z3.Extract(8 * size - 1, 0, ((one << bs128) - 1) << z3.ZeroExt(W - 16, bitshift))
            hutil.discharge(chk, ex, label + ':isolation', (bv(new, 8 * size) & ~fmask) == (old & ~fmask), **kw)
            o = ex.call('convert_to_object_bitfield', [data.base, cf])
            got = py.info(o)['V']
            if signed_:
                expect = z3.If(z3.And(bitsize == 1, V == 1), V_const(-1), V)
            else:
                expect = V
            hutil.discharge(chk, ex, label + ':round-trip', got == expect, **kw)
        else:
            hutil.witness(chk, ex, label + ':rejected')
            hutil.discharge(chk, ex, label + ':rejected=>out-of-range', z3.Not(in_range), **kw)
            hutil.discharge(chk, ex, label + ':rejected=>OverflowError', py.exc == 'PyExc_OverflowError', **kw)
            hutil.discharge(chk, ex, label + ':rejected=>memory-unchanged', bv(new, 8 * size) == old, **kw)

    def on_oob(ex, what, model):
        inputs = {'bitsize': z3.BitVec('bitsize', 16), 'bitshift': z3.BitVec('bitshift', 16),
                  'old': z3.BitVec('old', 8 * size), 'v': z3.BitVec('v', W)}
        m = model or ex.model()
        case = {k: hutil.mval(m, v) for k, v in inputs.items()}
        case.update({'size': size, 'signed': signed_, 'bool': isbool})
        chk.report_failure('%s: access outside the field storage: %s (%s)' % (label, what, describe(case)),
                           {}, None, None)

    ex.on_oob = on_oob
    for mode in ('write', 'read'):
        res = ex.explore(lambda e: harness(e, mode))
        hutil.finish_explore(chk, ex, res, label + ':' + mode)
    if ex.ghost.get('fatal'):
        chk.inconc(label + ': Py_FatalError reached')
    chk.functions = irgen.func_info(mod, sorted(ex.called))
    return hutil.export(chk)


def translator_validation(chk, n):
    """Run the IR executor on concrete inputs and compare with the real build (DESIGN 3.3)."""
    import random
    rnd = random.Random(chk.seed)
    mod = irgen.backend()
    L = pystubs.CffiLayout(mod)
    F = L.flags
    cases = []
    # the widths/values used by the repository's own test_bitfield_instance + random ones
    base = [(4, True, 1, 0, 0, 1), (4, True, 2, 1, 0, -2), (4, True, 3, 3, 0, 3), (4, True, 3, 3, 0, -4),
            (4, False, 3, 0, 0xffffffff, 7), (2, True, 15, 0, 0, 16383), (8, True, 63, 0, 0, -(1 << 62)),
            (8, False, 63, 1, 0, (1 << 63) - 1), (1, False, 8, 0, 0x55, 255), (1, True, 8, 0, 0, -128)]
    for c in base:
        cases.append(c)
    while len(cases) < n:
        size = rnd.choice([1, 2, 4, 8])
        sg = rnd.random() < 0.5
        bs = rnd.randint(1, min(8 * size, 63))
        sh = rnd.randint(0, 8 * size - bs)
        old = rnd.getrandbits(8 * size)
        lim = 1 << bs
        v = rnd.choice([rnd.randint(-lim, lim), rnd.randint(-(1 << 70), 1 << 70), 0, lim - 1, -lim // 2,
                        lim // 2 - 1, lim // 2, lim])
        cases.append((size, sg, bs, sh, old, v))
    # real build
    code = ['import cffi, json, sys', 'out = []']
    code.append('cases = %r' % (cases,))
    code.append(r'''
for size, sg, bs, sh, old, v in cases:
    ffi = cffi.FFI()
    t = ('signed ' if sg else 'unsigned ') + {1: 'char', 2: 'short', 4: 'int', 8: 'long long'}[size]
    pad = ('%s pad:%d; ' % (t, sh)) if sh else ''
    ffi.cdef('struct s { %s%s f:%d; };' % (pad, t, bs))
    p = ffi.new('struct s *')
    buf = ffi.buffer(p)
    buf[:] = old.to_bytes(size, 'little')
    r0 = int(p.f)
    try:
        p.f = v
        ok = True
    except OverflowError:
        ok = False
    out.append([r0, ok, int.from_bytes(bytes(buf), 'little'), int(p.f)])
print('@@' + json.dumps(out))
''')
    rc, out = common.run_real('\n'.join(code))
    real = None
    for line in out.splitlines():
        if line.startswith('@@'):
            real = json.loads(line[2:])
    if real is None:
        raise common.HarnessError('translator validation: real build run failed:\n' + out[-1500:])
    st = pystubs.stubs()
    ex = llsym.Executor(mod, st, loop_bound=16)
    dis = 0
    for (size, sg, bs, sh, old, v), (r0, ok, newmem, r1) in zip(cases, real):
        got = {}

        def h(ex):
            py = pystubs.PyEnv(ex)
            flags = F['CT_PRIMITIVE_SIGNED'] if sg else F['CT_PRIMITIVE_UNSIGNED']
            if (sg and size <= 8) or (not sg and size < 8):
                flags |= F['CT_PRIMITIVE_FITS_LONG']
            ct = pystubs.new_ctype(ex, L, size, flags)
            cf = pystubs.new_cfield(ex, L, ct, 0, sh, bs)
            data = ex.mem.alloc(size, 'd', 'input')
            ex.mem.store(data.base, old, size)
            o = ex.call('convert_to_object_bitfield', [data.base, cf])
            got['r0'] = llsym.signed(simp(py.info(o)['V']).as_long() if not llsym.is_c(simp(py.info(o)['V'])) else simp(py.info(o)['V']), W)
            init = py.new_int(V_const(v))
            r = ex.call('convert_from_object_bitfield', [data.base, cf, init])
            got['ok'] = (r == 0)
            got['mem'] = ex.mem.load(data.base, size)
            o = ex.call('convert_to_object_bitfield', [data.base, cf])
            x = simp(py.info(o)['V'])
            got['r1'] = llsym.signed(x if llsym.is_c(x) else x.as_long(), W)
        ex.explore(h)
        if (got.get('r0'), got.get('ok'), got.get('mem'), got.get('r1')) != (r0, ok, newmem, r1):
            dis += 1
            if dis <= 3:
                print('translator-validation disagreement:', (size, sg, bs, sh, hex(old), v), 'IR:', got,
                      'real:', (r0, ok, newmem, r1))
    chk.translator_validation['samples'] += len(cases)
    chk.translator_validation['disagreements'] += dis
    if dis:
        chk.harness_error('llsym in concrete mode disagrees with the real build on %d/%d samples' % (dis, len(cases)))


def dispatch(args):
    if args[2] == 'placement':
        from harness import C01
        return C01.worker((args[0], args[1], args[3], args[4], 0))
    return worker(args)


def run(chk):
    cases = [(chk.prop, chk.tier, size, kind) for size in (1, 2, 4, 8) for kind in ('signed', 'unsigned')]
    cases.append((chk.prop, chk.tier, 1, 'bool'))
    chk.bounds = {'type sizes': [1, 2, 4, 8], 'bitsize': '1..8*size (symbolic)', 'bitshift': '0..8*size-bitsize (symbolic)',
                  'storage': 'all 2^(8*size) contents', 'python int': 'any magnitude (128-bit payload, see assumptions)',
                  '_Bool': 'width 1 only'}
    chk.outside = ['_Bool bit-fields wider than 1 (GCC rejects them)',
                   'placement (bitshift/bitsize) of aggregates with more than two members: C01',
                   'non-int initializers (go through __index__ in CPython)']
    chk.assume('CPython API contracts as listed in vf/pystubs.py (PyLong_AsLongLong, PyLong_From*, PyErr_*); '
               'allocation never fails')
    chk.assume('CT_PRIMITIVE_FITS_LONG is set as new_primitive_type() sets it (size<=8 signed, size<8 unsigned)')
    chk.assume('Python int modelled as signed 128-bit payload: C code observes it only through PyLong_AsLongLong '
               '(class + low 64 bits), so every magnitude has a representative')
    # where a bit-field lives (cf_bitshift / cf_bitsize, which the kernels above take as given) is decided by
    # b_complete_struct_or_union: the placement obligations of harness/C01.py for aggregates of two bit-fields -- struct and
    # union (every member of a union starts at bit 0) -- are part of this check too
    cases.append((chk.prop, chk.tier, 'placement', ('bitfield', 'bitfield'), False))
    cases.append((chk.prop, chk.tier, 'placement', ('bitfield', 'bitfield'), True))
    cases.append((chk.prop, chk.tier, 'placement', ('prim', 'bitfield'), True))
    irgen.backend()           # compile once, workers inherit it through fork
    hutil.run_cases(chk, cases, dispatch)
    translator_validation(chk, 40 if chk.tier == 'quick' else 2000)
