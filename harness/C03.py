"""C03 -- integer stores accept exactly the type's range and round-trip.

llsym on the real IR of the three store kernels:
  store    : convert_from_object()            (ffi.new initializer, item/field/global assignment,
                                               ABI-mode call argument -- all go through it)
  to_c     : _cffi_to_c_i8.._u64, __Bool       (API-mode call arguments)
  callback : convert_from_object_fficallback() (callback result, whole ffi_arg)
Symbolic: the Python int (128-bit payload: any magnitude), the previous memory content.
Concrete case split: size {1,2,4,8} x {signed,unsigned}, _Bool, enum flag.
"""
import json
import z3
from vf import common, irgen, llsym, pystubs, hutil
from vf.llsym import bv, simp, mask
from vf.pystubs import W, V_const

TAGS = []

CNAME = {1: 'char', 2: 'short', 4: 'int', 8: 'long long'}

REPLAY = r'''
# Replay of a solver model for C03 against the real cffi build on PYTHONPATH.
# Exits 1 iff the property's statement is violated for this case, 0 otherwise.
import sys, json, os, tempfile, shutil
import cffi
case = json.loads(%r)
size, signed, isbool, v, old, path = case['size'], case['signed'], case['bool'], case['v'], case['old'], case['path']
tname = '_Bool' if isbool else ('signed ' if signed else 'unsigned ') + {1: 'char', 2: 'short', 4: 'int', 8: 'long long'}[size]
if isbool:
    lo, hi = 0, 1
elif signed:
    lo, hi = -(1 << (8 * size - 1)), (1 << (8 * size - 1)) - 1
else:
    lo, hi = 0, (1 << (8 * size)) - 1
in_range = lo <= v <= hi
bad = []
if path == 'store':
    ffi = cffi.FFI()
    p = ffi.new(tname + '[3]')
    buf = ffi.buffer(p)
    guard = bytes([0xA5]) * size
    buf[:] = guard + old.to_bytes(size, 'little') + guard
    try:
        p[1] = v
        ok = True
    except OverflowError:
        ok = False
    after = bytes(buf)
    if ok != in_range:
        bad.append('%%s <- %%d was %%s, in_range=%%s' %% (tname, v, 'accepted' if ok else 'rejected', in_range))
    if ok and in_range and int(p[1]) != v:
        bad.append('stored %%d, read back %%d' %% (v, int(p[1])))
    if not ok and after[size:2 * size] != old.to_bytes(size, 'little'):
        bad.append('rejected store changed the target')
    if after[:size] != guard or after[2 * size:] != guard:
        bad.append('neighbouring memory changed')
    try:
        q = ffi.new(tname + '*', v)
        ok2 = True
    except OverflowError:
        ok2 = False
    if ok2 != in_range or (ok2 and int(q[0]) != v):
        bad.append('ffi.new initializer path disagrees: accepted=%%s value=%%s' %% (ok2, ok2 and int(q[0])))
elif path == 'to_c':
    d = tempfile.mkdtemp(prefix='c03replay')
    try:
        ffi = cffi.FFI()
        ffi.cdef('%%s ident(%%s);' %% (tname, tname))
        ffi.set_source('_c03_replay', '%%s ident(%%s x) { return x; }' %% (tname, tname))
        ffi.compile(tmpdir=d)
        sys.path.insert(0, d)
        import _c03_replay
        try:
            r = _c03_replay.lib.ident(v)
            ok = True
        except OverflowError:
            ok = False
        if ok != in_range:
            bad.append('API-mode argument %%s <- %%d was %%s, in_range=%%s' %% (tname, v, 'accepted' if ok else 'rejected', in_range))
        if ok and in_range and int(r) != v:
            bad.append('C function received/returned %%d for %%d' %% (int(r), v))
    finally:
        shutil.rmtree(d, ignore_errors=True)
else:
    ffi = cffi.FFI()
    errors = []
    cb = ffi.callback(tname + '(void)', lambda: v, error=(0 if isbool else (7 if hi >= 7 else 0)),
                      onerror=lambda *a: errors.append(a[0]))
    r = int(cb())
    if in_range:
        if r != v or errors:
            bad.append('callback returning %%d: C caller received %%d, errors=%%r' %% (v, r, errors))
    else:
        if not errors or errors[0] is not OverflowError or r != (0 if isbool else (7 if hi >= 7 else 0)):
            bad.append('callback returning out-of-range %%d: C caller received %%d, errors=%%r' %% (v, r, errors))
for b in bad:
    print('VIOLATED:', b)
sys.exit(1 if bad else 0)
'''


def describe(c):
    return ('%s path, %s size %d%s, v=%d, previous content %#x'
            % (c['path'], '_Bool' if c['bool'] else ('signed' if c['signed'] else 'unsigned'), c['size'],
               ' (enum)' if c.get('enum') else '', llsym.signed(c['v'], W), c.get('old', 0)))


def make_replay(chk):
    def replay(case):
        case = dict(case)
        case['v'] = llsym.signed(case['v'], W)
        case.setdefault('old', 0)
        body = REPLAY % json.dumps(case)
        name = '%s-%s%d' % (case['path'], 'b' if case['bool'] else ('s' if case['signed'] else 'u'), case['size'])
        path = chk.write_replay(name, body)
        rc, out = common.run_replay(path, timeout=300)
        return common.replay_verdict(rc, out), path
    return replay


def type_flags(F, size, kind, enum=False):
    signed_ = kind == 'signed'
    flags = F['CT_PRIMITIVE_SIGNED'] if signed_ else F['CT_PRIMITIVE_UNSIGNED']
    if kind == 'bool':
        flags |= F['CT_IS_BOOL']
    if (signed_ and size <= 8) or (not signed_ and size < 8):
        flags |= F['CT_PRIMITIVE_FITS_LONG']
    if enum:
        flags |= F['CT_IS_ENUM']
    return flags


def rng(size, kind):
    if kind == 'bool':
        return 0, 1
    if kind == 'signed':
        return -(1 << (8 * size - 1)), (1 << (8 * size - 1)) - 1
    return 0, (1 << (8 * size)) - 1


def worker(args):
    prop, tier, size, kind, enum = args
    chk = hutil.sub_check(prop, tier)
    mod = irgen.backend()
    L = pystubs.CffiLayout(mod)
    F = L.flags
    signed_ = kind == 'signed'
    isbool = kind == 'bool'
    label = '%s%d%s' % (kind, size, '-enum' if enum else '')
    replay = make_replay(chk)
    st = pystubs.stubs()
    ex = llsym.Executor(mod, st, loop_bound=16)
    flags = type_flags(F, size, kind, enum)
    lo, hi = rng(size, kind)

    def common_setup(ex, path):
        py = pystubs.PyEnv(ex)
        V = z3.BitVec('v', W)
        old = z3.BitVec('old', 64)
        inputs = {'v': V, 'old': old}
        extra = {'size': size, 'signed': signed_, 'bool': isbool, 'enum': enum, 'path': path}
        in_range = z3.And(V >= V_const(lo), V <= V_const(hi))
        kw = dict(inputs=inputs, tags=TAGS, replay=replay, describe=describe, extra_case=extra)
        return py, V, old, in_range, kw

    def h_store(ex):
        py, V, old, in_range, kw = common_setup(ex, 'store')
        ct = pystubs.new_ctype(ex, L, size, flags)
        data = ex.mem.alloc(size, 'target', 'input')
        oldv = simp(z3.Extract(8 * size - 1, 0, old))
        ex.mem.store(data.base, oldv, size)
        init = py.new_int(V)
        r = simp(ex.call('convert_from_object', [data.base, ct, init]))
        new = bv(ex.mem.load(data.base, size), 8 * size)
        n = label + ':store'
        if r == 0:
            m = hutil.witness(chk, ex, n + ':accepted')
            if m is not None:
                chk.sample({'case': n, 'v': hutil.smval(m, V, W)})
            hutil.discharge(chk, ex, n + ':accepted=>in-range', in_range, **kw)
            hutil.discharge(chk, ex, n + ':accepted=>no-exception', py.exc is None, **kw)
            dec = z3.SignExt(W - 8 * size, new) if signed_ else z3.ZeroExt(W - 8 * size, new)
            hutil.discharge(chk, ex, n + ':round-trip', dec == V, **kw)
        else:
            hutil.witness(chk, ex, n + ':rejected')
            hutil.discharge(chk, ex, n + ':rejected=>out-of-range', z3.Not(in_range), **kw)
            hutil.discharge(chk, ex, n + ':rejected=>OverflowError', py.exc == 'PyExc_OverflowError', **kw)
            hutil.discharge(chk, ex, n + ':rejected=>memory-unchanged', new == oldv, **kw)

    def h_toc(ex):
        py, V, old, in_range, kw = common_setup(ex, 'to_c')
        fn = '_cffi_to_c__Bool' if isbool else '_cffi_to_c_%s%d' % ('i' if signed_ else 'u', 8 * size)
        init = py.new_int(V)
        r = ex.call(fn, [init])
        n = label + ':to_c'
        f, _ = ex.find_function(fn)
        rw = ex.tywidth(f.ret)
        if py.exc is None:
            hutil.witness(chk, ex, n + ':accepted')
            hutil.discharge(chk, ex, n + ':accepted=>in-range', in_range, **kw)
            # value the generated wrapper passes on: (T)result
            rv = bv(r, rw)
            low = z3.Extract(min(8 * size, rw) - 1, 0, rv)
            if isbool:
                dec = z3.ZeroExt(W - low.size(), low)
            else:
                dec = z3.SignExt(W - low.size(), low) if signed_ else z3.ZeroExt(W - low.size(), low)
            hutil.discharge(chk, ex, n + ':value-passed-to-C', dec == V, **kw)
        else:
            hutil.witness(chk, ex, n + ':rejected')
            hutil.discharge(chk, ex, n + ':rejected=>out-of-range', z3.Not(in_range), **kw)
            hutil.discharge(chk, ex, n + ':rejected=>OverflowError', py.exc == 'PyExc_OverflowError', **kw)
            # generated code tests "x == (T)-1 && PyErr_Occurred()": the error value must be (T)-1
            rv = bv(r, rw)
            low = z3.Extract(min(8 * size, rw) - 1, 0, rv)
            if isbool:
                hutil.discharge(chk, ex, n + ':rejected=>returns-nonzero', rv != 0, **kw)
            else:
                hutil.discharge(chk, ex, n + ':rejected=>returns(T)-1', low == mask(low.size()), **kw)

    def h_cb(ex):
        py, V, old, in_range, kw = common_setup(ex, 'callback')
        ct = pystubs.new_ctype(ex, L, size, flags)
        res = ex.mem.alloc(8, 'ffi_arg result', 'input')
        ex.mem.store(res.base, old, 8)
        init = py.new_int(V)
        r = simp(ex.call('convert_from_object_fficallback', [res.base, ct, init, 1]))
        new = bv(ex.mem.load(res.base, 8), 64)
        n = label + ':callback'
        if r == 0:
            hutil.witness(chk, ex, n + ':accepted')
            hutil.discharge(chk, ex, n + ':accepted=>in-range', in_range, **kw)
            hutil.discharge(chk, ex, n + ':accepted=>no-exception', py.exc is None, **kw)
            # the whole ffi_arg holds the sign-/zero-extension of the value
            hutil.discharge(chk, ex, n + ':ffi_arg==extension', new == z3.Extract(63, 0, V), **kw)
        else:
            hutil.witness(chk, ex, n + ':rejected')
            hutil.discharge(chk, ex, n + ':rejected=>out-of-range', z3.Not(in_range), **kw)
            hutil.discharge(chk, ex, n + ':rejected=>OverflowError', py.exc == 'PyExc_OverflowError', **kw)

    def on_oob(ex, what, model):
        chk.report_failure('%s: access outside the target: %s' % (label, what), {}, None, None)
    ex.on_oob = on_oob
    hs = [('store', h_store), ('callback', h_cb)]
    if not enum:
        hs.append(('to_c', h_toc))
    for name, h in hs:
        res = ex.explore(h)
        hutil.finish_explore(chk, ex, res, label + ':' + name)
    chk.functions = irgen.func_info(mod, sorted(ex.called))
    return hutil.export(chk)


def translator_validation(chk, n):
    import random
    rnd = random.Random(chk.seed)
    mod = irgen.backend()
    L = pystubs.CffiLayout(mod)
    F = L.flags
    cases = []
    while len(cases) < n:
        size = rnd.choice([1, 2, 4, 8])
        kind = rnd.choice(['signed', 'unsigned', 'bool']) if size == 1 else rnd.choice(['signed', 'unsigned'])
        lo, hi = rng(size, kind)
        v = rnd.choice([lo, hi, lo - 1, hi + 1, 0, 1, -1, rnd.randint(lo, hi), rnd.randint(-(1 << 70), 1 << 70),
                        2 * hi + 1, hi + (1 << 64)])
        cases.append((size, kind, v, rnd.getrandbits(8 * size)))
    code = ['import cffi, json', 'cases = %r' % (cases,), r'''
out = []
ffi = cffi.FFI()
for size, kind, v, old in cases:
    t = '_Bool' if kind == 'bool' else kind + ' ' + {1: 'char', 2: 'short', 4: 'int', 8: 'long long'}[size]
    p = ffi.new(t + '*')
    ffi.buffer(p)[:] = old.to_bytes(size, 'little')
    try:
        p[0] = v
        ok = True
    except OverflowError:
        ok = False
    out.append([ok, int.from_bytes(bytes(ffi.buffer(p)), 'little')])
print('@@' + json.dumps(out))
''']
    rc, out = common.run_real('\n'.join(code))
    real = None
    for line in out.splitlines():
        if line.startswith('@@'):
            real = json.loads(line[2:])
    if real is None:
        raise common.HarnessError('translator validation: real build run failed:\n' + out[-1500:])
    ex = llsym.Executor(mod, pystubs.stubs(), loop_bound=16)
    dis = 0
    for (size, kind, v, old), (ok, newmem) in zip(cases, real):
        got = {}

        def h(ex):
            py = pystubs.PyEnv(ex)
            ct = pystubs.new_ctype(ex, L, size, type_flags(F, size, kind))
            data = ex.mem.alloc(size, 'd', 'input')
            ex.mem.store(data.base, old, size)
            r = ex.call('convert_from_object', [data.base, ct, py.new_int(V_const(v))])
            got['ok'] = (r == 0)
            got['mem'] = ex.mem.load(data.base, size)
        ex.explore(h)
        if (got.get('ok'), got.get('mem')) != (ok, newmem):
            dis += 1
            if dis <= 3:
                print('translator-validation disagreement:', (size, kind, v, hex(old)), 'IR:', got, 'real:', (ok, newmem))
    chk.translator_validation['samples'] += len(cases)
    chk.translator_validation['disagreements'] += dis
    if dis:
        chk.harness_error('llsym in concrete mode disagrees with the real build on %d/%d samples' % (dis, len(cases)))


def run(chk):
    cases = [(chk.prop, chk.tier, size, kind, False) for size in (1, 2, 4, 8) for kind in ('signed', 'unsigned')]
    cases.append((chk.prop, chk.tier, 1, 'bool', False))
    cases += [(chk.prop, chk.tier, 4, 'signed', True), (chk.prop, chk.tier, 4, 'unsigned', True),
              (chk.prop, chk.tier, 8, 'signed', True), (chk.prop, chk.tier, 8, 'unsigned', True)]
    chk.bounds = {'integer types': 'size 1,2,4,8 x signed/unsigned, _Bool, enum-flagged 4/8-byte types',
                  'python int': 'any magnitude (128-bit payload)', 'previous memory content': 'any',
                  'store paths': ['convert_from_object', '_cffi_to_c_<T>', 'convert_from_object_fficallback']}
    chk.outside = ['routing of each argument to the helper of its declared type inside generated wrappers (C13)',
                   'non-int initializers (objects with __int__/__index__), cdata initializers',
                   'the _cffi_to_c_int() macro expansion in _cffi_include.h for typedef-ed integer types']
    chk.assume('CPython API contracts of vf/pystubs.py (PyLong_AsLongLong, PyLong_AsUnsignedLongLong, _PyLong_Sign, '
               'PyErr_*); allocation never fails')
    chk.assume('Python int modelled as signed 128-bit payload (see C02)')
    irgen.backend()
    hutil.run_cases(chk, cases, worker)
    translator_validation(chk, 60 if chk.tier == 'quick' else 3000)
