"""C21 -- ownership, destructors and handles behave correctly over any history.

Histories with garbage collections are CPython's business; what cffi contributes is a small state
machine per object.  llsym checks ONE step of each operation from an arbitrary state of the object
(destructor NULL/non-NULL, origobj NULL/non-NULL, decided by the solver-forked harness):
  cdatagcp_finalize / cdatagcp_dealloc / gcp_finalize / cdata_exit (ffi.release, with) / b_gcp(p, None):
     the destructor is called iff the field is non-NULL at entry, at most once, with the original object,
     and the object's fields are already cleared when it runs (re-entrancy cannot call it twice);
     after release or gc(p, None) the field is NULL (=> release is idempotent, never after gc(p, None));
  from_buffer objects: release and dealloc call PyBuffer_Release on the view;
  tp_traverse functions visit exactly the references the object owns (what lets CPython collect cycles
     through ffi.gc()/new_allocator()/handles/callbacks/from_buffer);
  newp_handle / b_from_handle: from_handle(h) returns the object given to the new_handle() that produced h,
     and the handle's address is the address of its own (live, hence distinct) object.
With CPython's guarantee that tp_dealloc/tp_finalize run once per object this gives "exactly once".
"""
import json
import z3
from vf import common, irgen, llsym, pystubs, hutil
from vf.llsym import bv, simp, mask, is_c


def worker(args):
    prop, tier, what = args
    chk = hutil.sub_check(prop, tier)
    mod = irgen.backend()
    L = pystubs.CffiLayout(mod)
    F = L.flags
    label = ':'.join(str(w) for w in what)

    def h(ex):
        py = pystubs.PyEnv(ex)
        g = ex.ghost
        g['calls'] = []          # (destructor, origobj, fields-at-call-time)
        g['visited'] = []
        g['released'] = []
        g['freed'] = []

        def call_destructor(ex2, fn, *a):
            cd = g.get('cd')
            fields = None
            if cd is not None:
                fields = (simp(ex2.mem.load(cd + 48, 8)), simp(ex2.mem.load(cd + 56, 8)))
            g['calls'].append((simp(fn), simp(a[0]) if a else None, fields))
            if ex2.decide(z3.Bool('destructor_raises')):
                py.exc = 'PyExc_RuntimeError'
                return 0
            return py.new_opaque('result')

        def visit(ex2, obj, arg):
            g['visited'].append(simp(obj))
            return 0

        def tp_free(ex2, o):
            g['freed'].append(simp(o))

        saved_exc = []

        def err_fetch(ex2, pt, pv, ptb):
            saved_exc.append(py.exc)
            tok = 0 if py.exc is None else 0xE000 + len(saved_exc)
            for p_ in (pt, pv, ptb):
                ex2.mem.store(p_, tok, 8)
            py.exc = None

        def err_restore(ex2, t, v, tb):
            t = simp(t)
            py.exc = None if t == 0 else saved_exc[t - 0xE000 - 1]

        def buf_release(ex2, view):
            g['released'].append(simp(view))
        ex.stubs.update({'PyObject_CallFunctionObjArgs': call_destructor, 'verif_visit': visit, 'verif_tp_free': tp_free,
                         'PyErr_Fetch': err_fetch, 'PyErr_Restore': err_restore, 'PyBuffer_Release': buf_release,
                         '_my_PyErr_WriteUnraisable': lambda e, *a: None, 'PyObject_ClearWeakRefs': lambda e, o: None,
                         '_PyArg_ParseTupleAndKeywords_SizeT': None})

        def with_tp_free(tpname):
            tp = ex.gaddr(tpname)
            ex.mem.store(tp + 320, ex.faddr('verif_tp_free'), 8)      # tp_free
            return tp

        ct = pystubs.new_ctype(ex, L, 8, F['CT_POINTER'])

        def mk_gcp():
            with_tp_free('CDataGCP_Type')
            cd = pystubs.new_cdata(ex, L, ct, 0x1000, tp='CDataGCP_Type', extra_size=32)
            has_d = ex.decide(z3.Bool('has_destructor'))
            has_o = ex.decide(z3.Bool('has_origobj'))
            D = py.new_opaque('destructor') if has_d else 0
            O = py.new_opaque('origobj') if has_o else 0
            ex.mem.store(cd + 40, 0, 8)
            ex.mem.store(cd + 48, O, 8)
            ex.mem.store(cd + 56, D, 8)
            g['cd'] = cd
            return cd, D, O

        def check_destructor_calls(name, D, O, expect_call):
            calls = g['calls']
            ok = (len(calls) == (1 if expect_call else 0))
            chk.query(name + ':destructor-called-iff-set-and-at-most-once', 'unsat' if ok else 'sat', 0.0)
            if not ok:
                chk.report_failure('%s: destructor set=%s but called %d time(s)' % (name, bool(D), len(calls)), {}, None, None)
                return
            if calls:
                fn, arg, fields = calls[0]
                ok = (fn == D and arg == O)
                chk.query(name + ':called-with-the-original-object', 'unsat' if ok else 'sat', 0.0)
                if not ok:
                    chk.report_failure('%s: destructor call has wrong callee/argument' % name, {}, None, None)
                if fields is not None and what[0] != 'dealloc':
                    ok = fields == (0, 0)
                    chk.query(name + ':fields-cleared-before-the-call', 'unsat' if ok else 'sat', 0.0)
                    if not ok:
                        chk.report_failure('%s: destructor runs while the object still refers to it (a re-entrant release would '
                                           'call it again)' % name, {}, None, None)

        op = what[0]
        if op in ('finalize', 'release', 'dealloc', 'gc-none', 'release-twice', 'gc-none-then-release'):
            cd, D, O = mk_gcp()
            name = '%s:%s%s' % (label, 'D' if D else 'noD', 'O' if O else 'noO')
            hutil.witness(chk, ex, name)
            if op == 'finalize':
                ex.call('cdatagcp_finalize', [cd])
                check_destructor_calls(name, D, O, bool(D))
                ok = simp(ex.mem.load(cd + 56, 8)) == 0 and simp(ex.mem.load(cd + 48, 8)) == 0
                chk.query(name + ':fields-NULL-afterwards', 'unsat' if ok else 'sat', 0.0)
                if not ok:
                    chk.report_failure(name + ': destructor/origobj not cleared', {}, None, None)
            elif op == 'dealloc':
                ex.call('cdatagcp_dealloc', [cd])
                check_destructor_calls(name, D, O, bool(D))
                ok = g['freed'] == [cd]
                chk.query(name + ':object-freed-once', 'unsat' if ok else 'sat', 0.0)
                if not ok:
                    chk.report_failure(name + ': tp_free calls %r' % (g['freed'],), {}, None, None)
            elif op in ('release', 'release-twice'):
                r = simp(ex.call('cdata_exit', [cd, 0]))
                check_destructor_calls(name, D, O, bool(D))
                if op == 'release-twice':
                    del g['calls'][:]
                    r2 = simp(ex.call('cdata_exit', [cd, 0]))
                    ok = not g['calls'] and r2 != 0
                    chk.query(name + ':second-release-calls-nothing', 'unsat' if ok else 'sat', 0.0)
                    if not ok:
                        chk.report_failure(name + ': release is not idempotent', {}, None, None)
                    del g['calls'][:]
                    ex.call('cdatagcp_dealloc', [cd])
                    ok = not g['calls']
                    chk.query(name + ':no-call-at-collection-after-release', 'unsat' if ok else 'sat', 0.0)
                    if not ok:
                        chk.report_failure(name + ': destructor runs again at deallocation after release()', {}, None, None)
            else:
                none = ex.gaddr('_Py_NoneStruct')

                def parse(ex2, a_, k_, fmt, kw, *outs):
                    ex2.mem.store(outs[1], cd, 8)
                    ex2.mem.store(outs[2], none, 8)
                    return 1
                ex.stubs['_PyArg_ParseTupleAndKeywords_SizeT'] = parse
                r = simp(ex.call('b_gcp', [0, 0, 0]))
                ok = (r != 0) and not g['calls'] and simp(ex.mem.load(cd + 56, 8)) == 0
                chk.query(name + ':gc(p,None)-removes-the-destructor-without-calling-it', 'unsat' if ok else 'sat', 0.0)
                if not ok:
                    chk.report_failure(name + ': gc(p, None) misbehaves', {}, None, None)
                if op == 'gc-none-then-release':
                    ex.call('cdata_exit', [cd, 0])
                    ex.call('cdatagcp_dealloc', [cd])
                    ok = not g['calls']
                    chk.query(name + ':never-called-after-gc(p,None)', 'unsat' if ok else 'sat', 0.0)
                    if not ok:
                        chk.report_failure(name + ': destructor called after gc(p, None)', {}, None, None)
        elif op == 'traverse':
            kind = what[1]
            vis = ex.faddr('verif_visit')
            if kind == 'gcp':
                cd, D, O = mk_gcp()
                ex.call('cdatagcp_traverse', [cd, vis, 0])
                want = sorted(x for x in (D, O) if x)
            elif kind == 'handle':
                ctv = pystubs.new_ctype(ex, L, 8, F['CT_POINTER'] | F['CT_IS_VOID_PTR'])
                cd = pystubs.new_cdata(ex, L, ctv, 0, tp='CDataOwningGC_Type', extra_size=16)
                X = py.new_opaque('handle target')
                ex.mem.store(cd + 40, X, 8)
                ex.call('cdataowninggc_traverse', [cd, vis, 0])
                want = [X]
            elif kind == 'callback':
                ctf = pystubs.new_ctype(ex, L, 8, F['CT_FUNCTIONPTR'])
                cd = pystubs.new_cdata(ex, L, ctf, 0, tp='CDataOwningGC_Type', extra_size=16)
                clo = ex.mem.alloc(64, 'ffi_closure', 'heap', fill=0)
                has = ex.decide(z3.Bool('has_infotuple'))
                X = py.new_opaque('callback infotuple') if has else 0
                off = mod.struct_layout(('named', 'struct.ffi_closure'))[0][3]
                ex.mem.store(clo.base + off, X, 8)
                ex.mem.store(cd + 40, clo.base, 8)      # CDataObject_closure.closure
                ex.call('cdataowninggc_traverse', [cd, vis, 0])
                want = [X] if X else []
            else:
                cd = pystubs.new_cdata(ex, L, ct, 0, tp='CDataFromBuf_Type', extra_size=16)
                view = ex.mem.alloc(80, 'Py_buffer', 'heap', fill=0)
                X = py.new_opaque('exporter')
                ex.mem.store(view.base + 8, X, 8)
                ex.mem.store(cd + 48, view.base, 8)
                ex.call('cdatafrombuf_traverse', [cd, vis, 0])
                want = [X]
            name = '%s:%d-refs' % (label, len(want))
            hutil.witness(chk, ex, name)
            ok = sorted(ex.ghost['visited']) == sorted(want)
            chk.query(name + ':visits-exactly-the-owned-references', 'unsat' if ok else 'sat', 0.0)
            if not ok:
                chk.report_failure('%s: tp_traverse visits %d object(s), owns %d' % (name, len(ex.ghost['visited']), len(want)), {}, None, None)
        elif op == 'frombuf':
            mode = what[1]
            with_tp_free('CDataFromBuf_Type')
            cd = pystubs.new_cdata(ex, L, ct, 0, tp='CDataFromBuf_Type', extra_size=16)
            view = ex.mem.alloc(80, 'Py_buffer', 'heap', fill=0)
            ex.mem.store(cd + 48, view.base, 8)
            if mode == 'release':
                r = simp(ex.call('cdata_exit', [cd, 0]))
                ok = g['released'] == [view.base] and r != 0
            elif mode == 'clear':
                ex.call('cdatafrombuf_clear', [cd])
                ok = g['released'] == [view.base]
            else:
                ex.stubs['PyObject_Free'] = lambda e, p: g['freed'].append(('view', simp(p)))
                ex.call('cdatafrombuf_dealloc', [cd])
                ok = g['released'] == [view.base] and ('view', view.base) in g['freed']
            hutil.witness(chk, ex, label)
            chk.query(label + ':export-released-exactly-once', 'unsat' if ok else 'sat', 0.0)
            if not ok:
                chk.report_failure('%s: PyBuffer_Release calls %r' % (label, g['released']), {}, None, None)
        else:   # handles
            ctv = pystubs.new_ctype(ex, L, 8, F['CT_POINTER'] | F['CT_IS_VOID_PTR'] | F['CT_IS_VOIDCHAR_PTR'])
            X = py.new_opaque('python object')
            hd = simp(ex.call('newp_handle', [ctv, X]))
            ok = is_c(hd) and hd != 0
            hutil.witness(chk, ex, label)
            chk.query(label + ':new_handle-succeeds', 'unsat' if ok else 'sat', 0.0)
            if ok:
                okaddr = simp(ex.mem.load(hd + 24, 8)) == hd
                chk.query(label + ':handle-address-is-its-own-object', 'unsat' if okaddr else 'sat', 0.0)
                if not okaddr:
                    chk.report_failure(label + ': handle c_data is not the address of its own object', {}, None, None)
                py.objs[hd]['kind'] = 'cdata'
                # a void* cdata carrying that address (what C code hands back)
                h2 = pystubs.new_cdata(ex, L, ctv, hd)
                r = simp(ex.call('b_from_handle', [0, h2]))
                okr = (r == X) and py.exc is None
                chk.query(label + ':from_handle-returns-the-original-object', 'unsat' if okr else 'sat', 0.0)
                if not okr:
                    chk.report_failure(label + ': from_handle does not return the object given to new_handle', {}, None, None)

    ex = llsym.Executor(mod, pystubs.stubs(), loop_bound=16)

    def on_oob(ex2, what_, model):
        chk.report_failure('%s: stray memory access: %s' % (label, what_), {}, None, None)
    ex.on_oob = on_oob
    res = ex.explore(h, max_paths=2000)
    hutil.finish_explore(chk, ex, res, label)
    chk.functions = irgen.func_info(mod, sorted(ex.called))
    return hutil.export(chk)


def dispatch(args):
    what = args[2]
    if what[0] == 'c19-from_buffer':
        from harness import C19
        return C19.worker((args[0], args[1], ('from_buffer',) + tuple(what[1:])))
    return worker(args)


def run(chk):
    P = (chk.prop, chk.tier)
    cases = [P + ((op,),) for op in ('finalize', 'release', 'dealloc', 'gc-none', 'release-twice', 'gc-none-then-release', 'handle')]
    cases += [P + (('traverse', k),) for k in ('gcp', 'handle', 'callback', 'frombuf')]
    cases += [P + (('frombuf', m),) for m in ('release', 'clear', 'dealloc')]
    chk.bounds = {'object states': 'destructor NULL/non-NULL x origobj NULL/non-NULL, destructor returning or raising',
                  'operations': 'one step each of finalize, dealloc, release (with/ffi.release), gc(p, None), tp_traverse, '
                  'from_buffer release/clear/dealloc, new_handle/from_handle; selected two- and three-step sequences'}
    chk.outside = ['CPython\'s GC and reference counting (tp_dealloc/tp_finalize run once per object; cycles are found through the '
                   'tp_traverse functions checked here)', 'new_allocator() free functions (same state machine with ca_free as destructor)',
                   'memory validity of ffi.new("struct *") while p[0] is alive (reference held in structobj: direct_newp, see C20)']
    chk.assume('CPython calls tp_dealloc / tp_finalize once per object; error reporting (_my_PyErr_WriteUnraisable) has an empty body')
    # from_buffer keeps its source export-locked exactly while a cdata exists: creation paths (success and every error
    # path) are the direct_from_buffer obligations of harness/C19.py
    cases += [P + (('c19-from_buffer', 'open', 4),), P + (('c19-from_buffer', 'fixed', 4),), P + (('c19-from_buffer', 'pointer', 4),)]
    irgen.backend()
    hutil.run_cases(chk, cases, dispatch)
