"""C13 -- all call paths to a C function agree (partial: exchange-buffer layout, generated wrappers).

(a) llsym on fb_build / fb_fill_type / fb_alloc (both passes, as fb_prepare_cif runs them) with a symbolic
    (size, alignment) for the result and each argument: every exchange_offset_arg[i] is aligned for its
    type and to 8, the areas are pairwise disjoint and disjoint from the nargs pointer slots, the result
    area holds max(size, sizeof(ffi_arg)) bytes, everything lies inside exchange_size, and the second pass
    writes exactly the number of bytes the first pass counted (bounds monitor on the exact-size buffer).
(c) llsym on the IR of a module *generated at run time* by the real Recompiler for a family of identity
    functions (every integer type, _Bool, char, float, double, pointer, two-argument mixes): the generated
    _cffi_f_<name> wrapper hands the C function exactly the value the libffi path's convert_from_object
    would have stored for the same Python object, returns the same Python value, raises in the same cases,
    and brackets the call with _cffi_restore_errno / _cffi_save_errno with no other call in between.
"""
import os, sys, json, subprocess
import z3
from vf import common, irgen, llsym, pystubs, hutil
from vf.llsym import bv, simp, mask, is_c
from vf.pystubs import W, V_const

INT_TYPES = [('signed char', 1, True), ('short', 2, True), ('int', 4, True), ('long', 8, True), ('long long', 8, True),
             ('unsigned char', 1, False), ('unsigned short', 2, False), ('unsigned int', 4, False),
             ('unsigned long', 8, False), ('unsigned long long', 8, False),
             ('int8_t', 1, True), ('uint16_t', 2, False), ('int32_t', 4, True), ('uint64_t', 8, False),
             ('size_t', 8, False), ('ssize_t', 8, True), ('intptr_t', 8, True)]


def fb_worker(args):
    prop, tier, kind, nargs = args
    chk = hutil.sub_check(prop, tier)
    mod = irgen.backend()
    L = pystubs.CffiLayout(mod)
    F = L.flags
    label = 'fb_build-%d-args' % nargs
    fbl = mod.struct_layout(('named', 'struct.funcbuilder_s'))

    def ext(ex, name, g, m):
        if name.startswith('ffi_type_'):
            r = ex.mem.alloc(24, '@' + name, 'global', fill=0)
            size = {'ffi_type_pointer': 8, 'ffi_type_void': 1}.get(name, 8)
            ex.mem.store(r.base, size, 8)
            ex.mem.store(r.base + 8, size, 2)
            return r
        return pystubs.extern_global(ex, name, g, m)
    st = pystubs.stubs()
    st['@*'] = ext
    ex = llsym.Executor(mod, st, loop_bound=nargs + 4)

    def h(ex):
        py = pystubs.PyEnv(ex)
        sizes, aligns, cts = [], [], []
        for i in range(nargs + 1):
            s = z3.BitVec('size%d' % i, 64)
            a = z3.BitVec('align%d' % i, 16)
            ex.assume(z3.And(s >= 1, s <= 64, z3.Or(*[a == (1 << k) for k in range(5)])))
            ft = ex.mem.alloc(24, 'ffi_type %d' % i, 'heap', fill=0)
            ex.mem.store(ft.base, s, 8)
            ex.mem.store(ft.base + 8, a, 2)
            ct = pystubs.new_ctype(ex, L, s, F['CT_PRIMITIVE_SIGNED'], extra=ft.base)
            sizes.append(s)
            aligns.append(z3.ZeroExt(48, a))
            cts.append(ct)
        fresult, fargs = cts[0], py.new_tuple(cts[1:])
        fb = ex.mem.alloc(fbl[1], 'funcbuilder', 'heap', fill=0)
        r1 = simp(ex.call('fb_build', [fb.base, fargs, fresult]))
        nb = simp(ex.mem.load(fb.base + fbl[0][0], 8))
        inputs = {}
        for i in range(nargs + 1):
            inputs['size%d' % i] = sizes[i]
            inputs['align%d' % i] = aligns[i]
        hutil.witness(chk, ex, label)
        okk = (r1 == 0) and is_c(nb) and nb == 48 + 8 * nargs + 8 * nargs
        hutil.discharge(chk, ex, label + ':first-pass-counts-cif+offsets+atypes', okk, inputs)
        if not (r1 == 0 and is_c(nb)):
            return
        buf = ex.mem.alloc(nb, 'cif buffer (exact size)', 'input')
        ex.mem.store(fb.base + fbl[0][1], buf.base, 8)
        r2 = simp(ex.call('fb_build', [fb.base, fargs, fresult]))
        hutil.discharge(chk, ex, label + ':second-pass-succeeds', r2 == 0, inputs)
        endp = simp(ex.mem.load(fb.base + fbl[0][1], 8))
        hutil.discharge(chk, ex, label + ':second-pass-fills-exactly-the-counted-bytes', endp == buf.base + nb, inputs)
        cifl = mod.struct_layout(('named', 'struct.cif_description_t'))
        xsize = bv(ex.mem.load(buf.base + cifl[0][1], 8), 64)
        offs = [bv(ex.mem.load(buf.base + cifl[0][2] + 8 * i, 8), 64) for i in range(nargs + 1)]
        eff = [z3.If(z3.ULT(sizes[0], 8), z3.BitVecVal(8, 64), sizes[0])] + sizes[1:]
        conds = []
        for i in range(nargs + 1):
            conds.append((offs[i] & (aligns[i] - 1)) == 0)
            conds.append((offs[i] & 7) == 0)
            conds.append(z3.UGE(offs[i], 8 * nargs))
            conds.append(z3.ULE(offs[i] + eff[i], xsize))
            for j in range(i + 1, nargs + 1):
                conds.append(z3.Or(z3.ULE(offs[i] + eff[i], offs[j]), z3.ULE(offs[j] + eff[j], offs[i])))
        names = ['aligned-to-type', 'aligned-to-8', 'after-the-pointer-slots', 'inside-exchange_size']
        hutil.discharge(chk, ex, label + ':areas-aligned-disjoint-inside', z3.And(*conds), inputs)
        hutil.discharge(chk, ex, label + ':exchange_size-multiple-of-8', (xsize & 7) == 0, inputs)
        # atypes[i] is the argument's own ffi_type
        at = simp(ex.mem.load(fb.base + fbl[0][2], 8))
        okat = all(simp(ex.mem.load(at + 8 * i, 8)) == simp(ex.mem.load(cts[1 + i] + L.ct['ct_extra'], 8)) for i in range(nargs))
        hutil.discharge(chk, ex, label + ':atypes-in-argument-order', okat, inputs)

    def on_oob(ex2, what_, model):
        chk.report_failure('%s: write outside the cif buffer: %s' % (label, what_), {}, None, None)
    ex.on_oob = on_oob
    res = ex.explore(h, max_paths=5000)
    hutil.finish_explore(chk, ex, res, label)
    chk.functions = irgen.func_info(mod, sorted(ex.called))
    return hutil.export(chk)


STRUCT_REPLAY = r'''
# Replay for C13 (struct by value) on the real build: the same C function called through libffi (ABI mode,
# dlopen) must receive the struct exactly; the callee returns a position-weighted checksum.
import sys, os, json, subprocess, tempfile, shutil
import cffi
case = json.loads(%r)
dims = case['dims']          # per field: list of array lengths, outermost first ([] = scalar)
tmp = tempfile.mkdtemp(prefix='verif-c13-')
try:
    decl = ' '.join('int f%%d%%s;' %% (i, ''.join('[%%d]' %% n for n in d)) for i, d in enumerate(dims))
    src = 'struct S { %%s };\nlong chk(struct S s, long tail) { int *p = (int *)&s; long r = 0; ' \
          'for (unsigned i = 0; i < sizeof(s) / sizeof(int); i++) r = r * 31 + p[i]; return r * 7 + tail; }\n' %% decl
    open(os.path.join(tmp, 'l.c'), 'w').write(src)
    subprocess.check_call(['gcc', '-shared', '-fPIC', '-O0', '-o', os.path.join(tmp, 'libl.so'), os.path.join(tmp, 'l.c')])
    ffi = cffi.FFI()
    ffi.cdef('struct S { %%s }; long chk(struct S, long);' %% decl)
    lib = ffi.dlopen(os.path.join(tmp, 'libl.so'))
    s = ffi.new('struct S *')
    n = ffi.sizeof('struct S') // 4
    p = ffi.cast('int *', s)
    want = 0
    for i in range(n):
        p[i] = 1000 + 17 * i
        want = want * 31 + p[i]
    want = want * 7 + 5
    want = (want + 2**63) %% 2**64 - 2**63
    got = lib.chk(s[0], 5)
    if got != want:
        print('VIOLATED: struct { %%s } passed by value through libffi: callee computed %%d, expected %%d' %% (decl, got, want)); sys.exit(1)
finally:
    shutil.rmtree(tmp, ignore_errors=True)
sys.exit(0)
'''


def fbstruct_worker(args):
    """a struct passed by value: fb_fill_type flattens (multi-dimensional) array fields into libffi's elements[]"""
    prop, tier, kind, depths = args
    chk = hutil.sub_check(prop, tier)
    mod = irgen.backend()
    L = pystubs.CffiLayout(mod)
    F = L.flags
    label = 'fb_build-struct-arg-fields-%s' % ','.join('x'.join(['N'] * d) or 'scalar' for d in depths)

    def replay(case):
        dims = [[case.get('len%d_%d' % (fi, k), 1) for k in reversed(range(d))] for fi, d in enumerate(depths)]
        path = chk.write_replay('structarg', STRUCT_REPLAY % json.dumps({'dims': dims}))
        rc, out = common.run_replay(path, timeout=300)
        return common.replay_verdict(rc, out), path
    fbl = mod.struct_layout(('named', 'struct.funcbuilder_s'))

    def ext(ex, name, g, m):
        if name.startswith('ffi_type_'):
            r = ex.mem.alloc(24, '@' + name, 'global', fill=0)
            ex.mem.store(r.base, 8, 8)
            ex.mem.store(r.base + 8, 8, 2)
            return r
        return pystubs.extern_global(ex, name, g, m)
    st = pystubs.stubs()
    st['@*'] = ext
    ex = llsym.Executor(mod, st, loop_bound=40)

    def h(ex):
        py = pystubs.PyEnv(ex)
        inputs = {}
        prim_ft = ex.mem.alloc(24, 'ffi_type of the item', 'heap', fill=0)
        ex.mem.store(prim_ft.base, 4, 8)
        ex.mem.store(prim_ft.base + 8, 4, 2)
        prim = pystubs.new_ctype(ex, L, 4, F['CT_PRIMITIVE_SIGNED'], extra=prim_ft.base)
        fields, totals = [], []
        for fi, d in enumerate(depths):
            ct = prim
            total = z3.BitVecVal(1, 64)
            size = z3.BitVecVal(4, 64)
            for k in range(d):          # innermost dimension first
                n = z3.BitVec('len%d_%d' % (fi, k), 64)
                ex.assume(z3.And(n >= 1, n <= 3))
                inputs['len%d_%d' % (fi, k)] = n
                total = total * n
                size = size * n
                ct = pystubs.new_ctype(ex, L, size, F['CT_ARRAY'], length=n, itemdescr=ct)
            fields.append(pystubs.new_cfield(ex, L, ct, 0, mask(16), mask(16)))     # cf_bitshift == -1: not a bit-field
            totals.append(total)
        for a, b in zip(fields, fields[1:]):
            ex.mem.store(a + L.cf['cf_next'], b, 8)
        d_ = py.new_opaque('dict', 'PyDict_Type', items=[[py.new_opaque('key'), f] for f in fields])
        ssize = sum(totals[1:], totals[0]) * 4
        sct = pystubs.new_ctype(ex, L, ssize, F['CT_STRUCT'], length=4, stuff=d_, extra=fields[0])
        res_ft = ex.mem.alloc(24, 'ffi_type of the result', 'heap', fill=0)
        ex.mem.store(res_ft.base, 4, 8)
        ex.mem.store(res_ft.base + 8, 4, 2)
        fresult = pystubs.new_ctype(ex, L, 4, F['CT_PRIMITIVE_SIGNED'], extra=res_ft.base)
        fargs = py.new_tuple([sct])
        fb = ex.mem.alloc(fbl[1], 'funcbuilder', 'heap', fill=0)
        r1 = simp(ex.call('fb_build', [fb.base, fargs, fresult]))
        nb = simp(ex.mem.load(fb.base + fbl[0][0], 8))
        hutil.witness(chk, ex, label)
        nb = ex.concretize(nb, 64, 4096, 'bytes counted') if not is_c(nb) else nb
        okk = (r1 == 0) and py.exc is None
        hutil.discharge(chk, ex, label + ':first-pass-succeeds', okk, inputs, replay=replay)
        if not okk:
            return
        buf = ex.mem.alloc(nb, 'cif buffer (exact size)', 'input')
        ex.mem.store(fb.base + fbl[0][1], buf.base, 8)
        r2 = simp(ex.call('fb_build', [fb.base, fargs, fresult]))
        hutil.discharge(chk, ex, label + ':second-pass-succeeds', r2 == 0 and py.exc is None, inputs, replay=replay)
        endp = simp(ex.mem.load(fb.base + fbl[0][1], 8))
        hutil.discharge(chk, ex, label + ':second-pass-fills-exactly-the-counted-bytes', bv(endp, 64) == buf.base + nb, inputs, replay=replay)
        at = simp(ex.mem.load(fb.base + fbl[0][2], 8))
        sft = simp(ex.mem.load(at, 8))
        if not is_c(sft):
            sft = ex.concretize(sft, 64, 4096, 'address of the struct ffi_type')
        okp = is_c(sft) and buf.base <= sft < buf.base + nb
        hutil.discharge(chk, ex, label + ':struct-ffi_type-lives-in-the-buffer', okp, inputs, replay=replay)
        if not okp:
            return
        elems = simp(ex.mem.load(sft + 16, 8))
        if not is_c(elems):
            elems = ex.concretize(elems, 64, 4096, 'address of elements[]')
        total = sum(totals[1:], totals[0])
        tot = ex.concretize(total, 64, 64, 'number of flattened elements')
        conds = [bv(ex.mem.load(elems + 8 * k, 8), 64) == prim_ft.base for k in range(tot)]
        conds.append(bv(ex.mem.load(elems + 8 * tot, 8), 64) == 0)
        hutil.discharge(chk, ex, label + ':elements[]-lists-every-array-item-once-then-NULL', z3.And(*conds), inputs, replay=replay)
        hutil.discharge(chk, ex, label + ':struct-size-alignment-kind',
                        z3.And(bv(ex.mem.load(sft, 8), 64) == ssize, bv(ex.mem.load(sft + 8, 2), 16) == 4, bv(ex.mem.load(sft + 10, 2), 16) == 13), inputs)

    def on_oob(ex2, what_, model):
        chk.report_failure('%s: access outside the cif buffer: %s' % (label, what_), {}, None, None)
    ex.on_oob = on_oob
    res = ex.explore(h, max_paths=5000)
    hutil.finish_explore(chk, ex, res, label)
    chk.functions = irgen.func_info(mod, sorted(ex.called))
    return hutil.export(chk)


# ---------------------------------------------------------------------------------------------
# generated wrappers

_gen = None


def generated_module():
    """Run the real Recompiler (code of /repo's working tree) on the signature family, compile the
    emitted C to IR with the same flags as the backend."""
    global _gen
    if _gen is not None:
        return _gen
    sd = common.scratch_dir()
    cdef, src = [], []
    for i, (t, size, sg) in enumerate(INT_TYPES):
        cdef.append('%s id_i%d(%s);' % (t, i, t))
        src.append('static %s id_i%d(%s x) { return x; }' % (t, i, t))
    extra = [('_Bool', 'b'), ('char', 'c'), ('float', 'f'), ('double', 'd'), ('int *', 'p')]
    for t, n in extra:
        cdef.append('%s id_%s(%s);' % (t, n, t))
        src.append('static %s id_%s(%s x) { return x; }' % (t, n, t))
    cdef.append('long long mix2(short, unsigned long long);')
    src.append('static long long mix2(short a, unsigned long long b) { return a + (long long)b; }')
    cdef.append('int second3(unsigned char, int, long);')
    src.append('static int second3(unsigned char a, int b, long c) { return b; }')
    cdef.append('int fill(int *p, short n); int fill2(short n, int *p);')
    src.append('static int fill(int *p, short n) { return n; } static int fill2(short n, int *p) { return n; }')
    code = '''
import sys
sys.path.insert(0, %r)
import cffi
ffi = cffi.FFI()
ffi.cdef(%r)
ffi.set_source('_verif_c13', %r)
ffi.emit_c_code(%r)
''' % (os.path.join(common.REPO, 'src'), '\n'.join(cdef), '#include <stdint.h>\n#include <sys/types.h>\n' + '\n'.join(src),
       os.path.join(sd, '_verif_c13.c'))
    r = subprocess.run(['/venv/bin/python', '-c', code], stdout=subprocess.PIPE, stderr=subprocess.STDOUT)
    if r.returncode != 0:
        raise common.Inconclusive('Recompiler failed on the signature family:\n' + r.stdout.decode()[-1500:])
    mod = irgen.compile_ir(os.path.join(sd, '_verif_c13.c'), '_verif_c13', extra_flags=['-I' + os.path.join(common.REPO, 'src/cffi')])
    _gen = mod
    return mod


def wrapper_worker(args):
    prop, tier, kind, fname, tname, size, signed_ = args
    chk = hutil.sub_check(prop, tier)
    back = irgen.backend()
    gen = generated_module()
    L = pystubs.CffiLayout(back)
    F = L.flags
    label = 'wrapper:%s(%s)' % (fname, tname)
    st = pystubs.stubs()
    ex = llsym.Executor([gen, back], st, loop_bound=16)
    ex.trace_calls = []

    def h(ex):
        py = pystubs.PyEnv(ex)
        # bind the generated module's _cffi_exports[] to the backend's functions, as _cffi_init does
        src = ex.gaddr('cffi_exports')
        dst = ex.gaddr('_cffi_exports')
        n = back.sizeof(back.globals['cffi_exports'].ty) // 8
        for k in range(n):
            ex.mem.store(dst + 8 * k, ex.mem.load(src + 8 * k, 8), 8)
        trace = []
        ex.stubs['PyEval_SaveThread'] = lambda e: (trace.append('SaveThread'), 0x77)[1]
        ex.stubs['PyEval_RestoreThread'] = lambda e, t: trace.append('RestoreThread')
        errno_cell = ex.mem.alloc(4, 'errno', 'heap', fill=0)
        ex.stubs['__errno_location'] = lambda e: (trace.append('errno-access'), errno_cell.base)[1]
        inputs = {}
        if kind == 'int':
            V = z3.BitVec('v', W)
            inputs['v'] = V
            arg = py.new_int(V)
            lo, hi = (-(1 << (8 * size - 1)), (1 << (8 * size - 1)) - 1) if signed_ else (0, (1 << (8 * size)) - 1)
            in_range = z3.And(V >= V_const(lo), V <= V_const(hi))
        elif kind == 'bool':
            V = z3.BitVec('v', W)
            inputs['v'] = V
            arg = py.new_int(V)
            in_range = z3.Or(V == 0, V == 1)
        elif kind == 'double':
            B = z3.BitVec('bits', 64)
            inputs['bits'] = B
            arg = py.new_float(B)
            in_range = True
        else:
            raise ValueError(kind)
        # what the libffi path stores for the same object
        ct_flags = (F['CT_PRIMITIVE_SIGNED'] if signed_ else F['CT_PRIMITIVE_UNSIGNED']) | (F['CT_IS_BOOL'] if kind == 'bool' else 0)
        if kind == 'double':
            ct_flags = F['CT_PRIMITIVE_FLOAT']
        if kind != 'double' and ((signed_ and size <= 8) or (not signed_ and size < 8)):
            ct_flags |= F['CT_PRIMITIVE_FITS_LONG']
        ct = pystubs.new_ctype(ex, L, size, ct_flags)
        cell = ex.mem.alloc(size, 'libffi exchange slot', 'heap')
        rr = simp(ex.call('convert_from_object', [cell.base, ct, arg]))
        ref_ok = (rr == 0)
        ref_exc = py.exc
        ref_bytes = bv(ex.mem.load(cell.base, size), 8 * size) if ref_ok else None
        py.exc = None
        del trace[:]
        w = '_cffi_f_' + fname
        r = simp(ex.call(w, [0, arg]))
        hutil.witness(chk, ex, label + (':accepted' if ref_ok else ':rejected'))
        if ref_ok:
            okk = is_c(r) and r != 0 and py.exc is None
            hutil.discharge(chk, ex, label + ':wrapper-accepts-what-libffi-path-accepts', okk, inputs)
            if okk:
                info = py.info(r)
                if kind == 'double':
                    got = bv(info['bits'], 64)
                    want = ref_bytes if size == 8 else z3.fpToIEEEBV(z3.fpToFP(z3.RNE(), z3.fpBVToFP(ref_bytes, z3.Float32()), z3.Float64()))
                    same = z3.Or(got == want, z3.And(z3.fpIsNaN(z3.fpBVToFP(got, z3.Float64())), z3.fpIsNaN(z3.fpBVToFP(want, z3.Float64()))))
                    hutil.discharge(chk, ex, label + ':C-function-received-the-same-value', same, inputs)
                else:
                    ext = z3.SignExt(W - 8 * size, ref_bytes) if signed_ else z3.ZeroExt(W - 8 * size, ref_bytes)
                    hutil.discharge(chk, ex, label + ':C-function-received-the-same-value', info['V'] == ext, inputs)
                # errno bracket: restore, (call), save -- with the GIL released around it and nothing else in between
                seq = [t for t in trace]
                want_seq = ['SaveThread', 'errno-access', 'errno-access', 'RestoreThread']
                hutil.discharge(chk, ex, label + ':errno-restored-before-and-saved-after-the-call', seq == want_seq, inputs)
        else:
            okk = is_c(r) and r == 0 and py.exc == ref_exc
            hutil.discharge(chk, ex, label + ':wrapper-rejects-with-the-same-exception', okk, inputs)

    def on_oob(ex2, what_, model):
        chk.report_failure('%s: stray memory access: %s' % (label, what_), {}, None, None)
    ex.on_oob = on_oob
    res = ex.explore(h, max_paths=2000)
    hutil.finish_explore(chk, ex, res, label)
    chk.functions = irgen.func_info(gen, sorted(ex.called)) + irgen.func_info(back, sorted(ex.called))
    return hutil.export(chk)


def routing_worker(args):
    """multi-argument wrappers: every argument reaches its own parameter (order, width, sign)"""
    prop, tier, kind, fname = args
    chk = hutil.sub_check(prop, tier)
    back = irgen.backend()
    gen = generated_module()
    label = 'wrapper-routing:%s' % fname
    st = pystubs.stubs()
    ex = llsym.Executor([gen, back], st, loop_bound=16)

    def h(ex):
        py = pystubs.PyEnv(ex)
        src, dst = ex.gaddr('cffi_exports'), ex.gaddr('_cffi_exports')
        for k in range(back.sizeof(back.globals['cffi_exports'].ty) // 8):
            ex.mem.store(dst + 8 * k, ex.mem.load(src + 8 * k, 8), 8)
        ex.stubs['PyEval_SaveThread'] = lambda e: 0x77
        ex.stubs['PyEval_RestoreThread'] = lambda e, t: None
        cell = ex.mem.alloc(4, 'errno', 'heap', fill=0)
        ex.stubs['__errno_location'] = lambda e: cell.base

        def unpack(e, args_, name, lo, hi, *outs):
            items = py.info(simp(args_))['items']
            for o, it in zip(outs, items):
                e.mem.store(o, it, 8)
            return 1
        ex.stubs['PyArg_UnpackTuple'] = unpack
        if fname == 'mix2':
            spec = [(2, True), (8, False)]
        else:
            spec = [(1, False), (4, True), (8, True)]
        Vs, inputs, conds = [], {}, []
        for i, (size, sg) in enumerate(spec):
            V = z3.BitVec('a%d' % i, W)
            lo, hi = (-(1 << (8 * size - 1)), (1 << (8 * size - 1)) - 1) if sg else (0, (1 << (8 * size)) - 1)
            ex.assume(z3.And(V >= V_const(lo), V <= V_const(hi)))
            Vs.append(V)
            inputs['a%d' % i] = V
        r = simp(ex.call('_cffi_f_' + fname, [0, py.new_tuple([py.new_int(V) for V in Vs])]))
        hutil.witness(chk, ex, label)
        okk = is_c(r) and r != 0 and py.exc is None
        hutil.discharge(chk, ex, label + ':in-range-arguments-accepted', okk, inputs)
        if okk:
            got = py.info(r)['V']
            if fname == 'mix2':
                want = z3.SignExt(W - 64, z3.Extract(63, 0, Vs[0]) + z3.Extract(63, 0, Vs[1]))     # a + (long long)b, wrapping
            else:
                want = Vs[1]
            hutil.discharge(chk, ex, label + ':each-argument-reached-its-own-parameter', got == want, inputs)

    res = ex.explore(h, max_paths=2000)
    hutil.finish_explore(chk, ex, res, label)
    chk.functions = irgen.func_info(gen, sorted(ex.called)) + irgen.func_info(back, sorted(ex.called))
    return hutil.export(chk)


ORDER_REPLAY = r"""
# Replay for C13: when two arguments of one call are invalid, every call path reports the same one (the left-most):
# the API-mode wrapper lib.f(...) against the libffi path ffi.addressof(lib, 'f')(...).
import sys, os, tempfile, atexit, shutil, importlib
import cffi
d = tempfile.mkdtemp(); atexit.register(shutil.rmtree, d, True)
sys.path.insert(0, d)
ffi = cffi.FFI()
ffi.cdef("int fill(int *p, short n); int fill2(short n, int *p);")
ffi.set_source('_c13_order_replay', "static int fill(int *p, short n) { return n; } static int fill2(short n, int *p) { return n; }")
ffi.compile(tmpdir=d)
m = importlib.import_module('_c13_order_replay')
ffi, lib = m.ffi, m.lib
def exc(f, *a):
    try:
        f(*a); return 'no error'
    except Exception as e:
        return type(e).__name__
bad = []
for name, args in (('fill', (5, 2 ** 20)), ('fill2', (2 ** 20, 5))):
    a = exc(getattr(lib, name), *args)
    b = exc(ffi.addressof(lib, name), *args)
    if a != b:
        bad.append('%s%r: lib.%s raises %s, the libffi path raises %s' % (name, args, name, a, b))
for b in bad: print('VIOLATED:', b)
sys.exit(1 if bad else 0)
"""


def order_worker(args):
    """generated wrappers convert their arguments left to right, like cdata_call: with two invalid arguments the exception is
    the left-most one's (a pointer parameter before / after an integer parameter)"""
    prop, tier, kind, fname = args
    chk = hutil.sub_check(prop, tier)
    back = irgen.backend()
    gen = generated_module()
    label = 'wrapper-argument-order:%s' % fname
    ex = llsym.Executor([gen, back], pystubs.stubs(), loop_bound=16)
    done = {}

    def replay(case):
        if 'r' not in done:
            path = chk.write_replay('order', ORDER_REPLAY)
            rc, out = common.run_replay(path, timeout=600)
            done['r'] = (common.replay_verdict(rc, out), path)
        return done['r']

    def h(ex):
        py = pystubs.PyEnv(ex)
        src, dst = ex.gaddr('cffi_exports'), ex.gaddr('_cffi_exports')
        for k in range(back.sizeof(back.globals['cffi_exports'].ty) // 8):
            ex.mem.store(dst + 8 * k, ex.mem.load(src + 8 * k, 8), 8)
        ex.stubs['PyEval_SaveThread'] = lambda e: 0x77
        ex.stubs['PyEval_RestoreThread'] = lambda e, t: None
        cell = ex.mem.alloc(4, 'errno', 'heap', fill=0)
        ex.stubs['__errno_location'] = lambda e: cell.base

        def unpack(e, args_, name, lo, hi, *outs):
            items = py.info(simp(args_))['items']
            for o, it in zip(outs, items):
                e.mem.store(o, it, 8)
            return 1
        ex.stubs['PyArg_UnpackTuple'] = unpack
        order = []

        def prepare_ptr(e, ct, init, out):
            # the pointer argument is an object no pointer conversion accepts
            order.append('pointer')
            py.exc = 'PyExc_TypeError'
            return mask(64)
        ex.stubs['_prepare_pointer_call_argument'] = prepare_ptr
        V = z3.BitVec('n', W)
        ex.assume(z3.Or(V < V_const(-(1 << 15)), V > V_const((1 << 15) - 1)))       # does not fit a short
        badptr = py.new_opaque('not-a-pointer')
        argv = [badptr, py.new_int(V)] if fname == 'fill' else [py.new_int(V), badptr]
        r = simp(ex.call('_cffi_f_' + fname, [0, py.new_tuple(argv)]))
        hutil.witness(chk, ex, label)
        want = 'PyExc_TypeError' if fname == 'fill' else 'PyExc_OverflowError'
        hutil.discharge(chk, ex, label + ':call-refused', is_c(r) and r == 0, {'n': V}, replay=replay)
        hutil.discharge(chk, ex, label + ':the-left-most-invalid-argument-is-reported', py.exc == want, {'n': V}, replay=replay)

    res = ex.explore(h, max_paths=200)
    hutil.finish_explore(chk, ex, res, label)
    if not chk.witnesses:
        chk.inconc(label + ': no path reached an obligation')
    chk.functions = irgen.func_info(gen, sorted(ex.called)) + irgen.func_info(back, sorted(ex.called))
    return hutil.export(chk)


def errno_worker(args):
    """the libffi path's errno bracket (all paths must hand the same errno to ffi.errno): the obligation of harness/C22.py"""
    from harness import C22
    return C22.worker((args[0], args[1], 'libffi-call-bracket'))


def dispatch(args):
    if args[2] == 'errno':
        return errno_worker(args)
    if args[2] == 'routing':
        return routing_worker(args)
    if args[2] == 'order':
        return order_worker(args)
    if args[2] == 'fbstruct':
        return fbstruct_worker(args)
    return (fb_worker if args[2] == 'fb' else wrapper_worker)(args)


def run(chk):
    quick = chk.tier == 'quick'
    P = (chk.prop, chk.tier)
    cases = [P + ('fb', n) for n in range(0, 4 if quick else 9)]
    for depths in ((0,), (1,), (2,), (0, 2), (2, 1)) if quick else ((0,), (1,), (2,), (3,), (0, 2), (2, 1), (2, 2), (1, 0, 2)):
        cases.append(P + ('fbstruct', depths))
    for i, (t, size, sg) in enumerate(INT_TYPES):
        cases.append(P + ('int', 'id_i%d' % i, t, size, sg))
    cases.append(P + ('errno',))
    cases.append(P + ('routing', 'mix2'))
    cases.append(P + ('routing', 'second3'))
    cases.append(P + ('order', 'fill'))
    cases.append(P + ('order', 'fill2'))
    cases.append(P + ('bool', 'id_b', '_Bool', 1, False))
    cases.append(P + ('double', 'id_d', 'double', 8, True))
    cases.append(P + ('double', 'id_f', 'float', 4, True))
    chk.bounds = {'exchange buffer': 'result + 0..%d arguments, each of symbolic size 1..64 and alignment 1,2,4,8,16' % (3 if quick else 8),
                  'struct by value': 'a struct argument whose fields are scalars or arrays of up to %d dimensions, every length 1..3' % (2 if quick else 3),
                  'generated wrappers': 'identity functions over %d integer types/typedefs, _Bool, float, double: every Python int / double; two multi-argument functions (argument routing)' % len(INT_TYPES)}
    chk.outside = ['libffi itself (assembly) and its ABI classification of the described struct; variadic calls',
                   'dlopen paths (they reach the same cdata_call)', 'conversion of pointer/char/struct arguments of generated wrappers (only the order in which a pointer argument is converted)',
                   'return-value conversion differences for narrow types (both paths use the same _cffi_from_c_* / convert_to_object kernels)']
    chk.assume('the generated module is produced by the working tree\'s Recompiler at run time and compiled with the backend\'s flags; '
               '_cffi_exports[] is bound to the backend\'s cffi_exports[] as _cffi_init does')
    irgen.backend()
    generated_module()
    hutil.run_cases(chk, cases, dispatch)
