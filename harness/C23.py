"""C23 -- generated source is (deterministic,) idempotent and replaced atomically.

pysym/SymStr on the real recompiler._make_c_or_py_source with
  * Recompiler replaced by a stub that writes a symbolic output text (every ASCII string of the
    given length) -- the text generator itself is not the subject here;
  * open / os.rename / os.unlink / os.getpid replaced by a model POSIX file system with a *crash
    point*: the k-th mutating operation (create/truncate, write, rename, unlink) crashes after
    taking partial effect (a crashing write leaves any prefix).
Obligations: old content == new  =>  no mutating operation on any path, result False;
otherwise at every crash point the target path holds exactly the old or exactly the new content
(or is still absent if it was absent), and without a crash it holds the new content, result True.
"""
import os, sys, json
import z3
from vf import common, llsym, pysym, symstr, hutil


class Crash(BaseException):
    pass


class FS(object):
    """model file system: path -> content (str / SymStr); counts mutating operations"""

    def __init__(self, ex, crash_at, partial):
        self.ex = ex
        self.files = {}
        self.ops = 0
        self.crash_at = crash_at       # index of the mutating operation that crashes (None: no crash)
        self.partial = partial         # prefix length left by a crashing write
        self.log = []

    def _mutate(self, what):
        i = self.ops
        self.ops += 1
        self.log.append(what)
        return self.crash_at is not None and i == self.crash_at

    def open(self, path, mode='r', **kw):
        fs = self
        if 'r' in mode:
            if path not in self.files:
                raise FileNotFoundError(path)
            content = self.files[path]

            class R(object):
                def read(self, n=-1):
                    return content if n < 0 else content[:n]

                def __enter__(self):
                    return self

                def __exit__(self, *a):
                    return False
            return R()
        crash = self._mutate('create ' + path)
        if crash:
            raise Crash()              # crash before the file is created/truncated
        self.files[path] = ''

        class Wr(object):
            def write(self, s):
                if fs._mutate('write ' + path):
                    fs.files[path] = fs.files[path] + s[:fs.partial]
                    raise Crash()
                fs.files[path] = fs.files[path] + s

            def __enter__(self):
                return self

            def __exit__(self, *a):
                return False
        return Wr()

    # os.*
    def rename(self, a, b):
        if a not in self.files:
            raise FileNotFoundError(a)
        if self._mutate('rename %s -> %s' % (a, b)):
            raise Crash()              # POSIX rename is atomic: a crash happens before or after it
        self.files[b] = self.files.pop(a)

    def unlink(self, a):
        if a not in self.files:
            raise FileNotFoundError(a)
        if self._mutate('unlink ' + a):
            raise Crash()
        del self.files[a]

    def getpid(self):
        return 4242


def sym_eq(a, b):
    """z3 Bool / python bool equality of two str / SymStr"""
    if isinstance(a, symstr.SymStr):
        t = a._eq_term(b)
        return False if t is None else t
    if isinstance(b, symstr.SymStr):
        t = b._eq_term(a)
        return False if t is None else t
    return a == b


def worker(args):
    prop, tier, old_len, new_len = args
    sys.path.insert(0, os.path.join(common.REPO, 'src'))
    chk = hutil.sub_check(prop, tier)
    from cffi import recompiler
    ex = pysym.PyExplorer()
    label = 'old=%s,new=%d' % ('absent' if old_len is None else old_len, new_len)
    TARGET = 'out.c'

    def h(ex):
        new = symstr.SymStr.fresh(ex, 'new', new_len) if new_len else ''
        old = None if old_len is None else (symstr.SymStr.fresh(ex, 'old', old_len) if old_len else '')
        crash = ex.sym_int('crash_at')
        ex.assume(z3.And(crash.t >= -1, crash.t <= 5))
        k = ex.concretize_int(crash.t, 10, 'crash point')
        part = ex.sym_int('partial')
        ex.assume(z3.And(part.t >= 0, part.t <= new_len))
        p = ex.concretize_int(part.t, 20, 'partial write length') if k >= 0 else 0
        fs = FS(ex, None if k < 0 else k, p)
        if old is not None:
            fs.files[TARGET] = old

        class FakeRecompiler(object):
            def __init__(self, ffi, module_name, target_is_python=False):
                pass

            def collect_type_table(self):
                pass

            def collect_step_tables(self):
                pass

            def write_source_to_f(self, f, preamble):
                f.write(new)

        class Buf(object):
            def __init__(self):
                self.v = ''

            def write(self, s):
                self.v = self.v + s

            def getvalue(self):
                return self.v

        class OsShim(object):
            rename = fs.rename
            unlink = fs.unlink
            getpid = fs.getpid
        saved = (recompiler.Recompiler, recompiler.NativeIO, recompiler.os)
        recompiler.Recompiler, recompiler.NativeIO, recompiler.os = FakeRecompiler, Buf, OsShim
        recompiler.open = fs.open
        crashed = False
        result = None
        try:
            try:
                result = recompiler._make_c_or_py_source(None, 'mod', 'preamble', TARGET, False)
            except Crash:
                crashed = True
        finally:
            recompiler.Recompiler, recompiler.NativeIO, recompiler.os = saved
            del recompiler.open
        if k >= 0 and not crashed and fs.ops <= k:
            raise llsym.PathEnd()        # this crash point does not exist on this path
        now = fs.files.get(TARGET)
        same = sym_eq(old, new) if old is not None else False
        name = '%s:crash=%s' % (label, 'none' if k < 0 else '%d(+%d)' % (k, p))
        inputs = {}
        m = hutil.witness(chk, ex, '%s:%s' % (label, 'crash' if crashed else ('rewritten' if result else 'up-to-date')))
        if m is not None and len(chk.samples) < 6:
            chk.sample({'old': None if old is None else (old.concrete(m) if isinstance(old, symstr.SymStr) else old),
                        'new': new.concrete(m) if isinstance(new, symstr.SymStr) else new,
                        'crash at mutating op': k, 'ops': fs.log})
        # target holds exactly old or exactly new (or is still absent if it was)
        if now is None:
            holds = (old is None)
        else:
            holds = llsym.b_or(sym_eq(now, new), sym_eq(now, old) if old is not None else False)
        hutil.discharge(chk, ex, name + ':target-is-old-or-new', holds, inputs)
        if not crashed:
            # the code decided old == new or not on this path; both branches:
            if result is False:
                hutil.discharge(chk, ex, name + ':up-to-date=>identical', same, inputs)
                hutil.discharge(chk, ex, name + ':up-to-date=>untouched', fs.ops == 0, inputs)
            else:
                hutil.discharge(chk, ex, name + ':rewritten=>was-different', llsym.b_not(same), inputs)
                hutil.discharge(chk, ex, name + ':rewritten=>target==new', now is not None and sym_eq(now, new), inputs)
                hutil.discharge(chk, ex, name + ':returns-True', result is True, inputs)
                hutil.discharge(chk, ex, name + ':no-temporary-left', list(fs.files.keys()) == [TARGET], inputs)

    res = ex.explore(h, max_paths=20000)
    hutil.finish_explore(chk, ex, res, label)
    return hutil.export(chk)


def run(chk):
    quick = chk.tier == 'quick'
    P = (chk.prop, chk.tier)
    N = 3 if quick else 6
    cases = []
    for new_len in range(0, N + 1):
        cases.append(P + (None, new_len))
        for old_len in range(0, N + 1):
            if quick and abs(old_len - new_len) > 1 and old_len not in (0, N):
                continue
            cases.append(P + (old_len, new_len))
    chk.bounds = {'old content': 'absent, or every ASCII string of length 0..%d' % N, 'new content': 'every ASCII string of length 0..%d' % N,
                  'crash points': 'every mutating file-system operation of the write path (create/truncate, write with any '
                  'prefix written, rename, unlink) and no crash'}
    chk.outside = ['identical output across processes / hash seeds (a fact about the text generator and CPython hashing; no check claims it)',
                   'the non-POSIX fallback (unlink then rename) taken only if os.rename raises: rename never fails in the POSIX model',
                   'the text generator (Recompiler) itself: replaced by a stub producing an arbitrary text']
    chk.assume('POSIX file system: rename() replaces the target atomically and does not fail; a crashing write leaves a prefix')
    chk.functions = [{'name': '_make_c_or_py_source', 'file': 'src/cffi/recompiler.py'}]
    hutil.run_cases(chk, cases, worker)
