"""C23 -- generated source is (deterministic,) idempotent and replaced atomically.

pysym/SymStr on the real recompiler._make_c_or_py_source with
  * Recompiler replaced by a stub that writes a symbolic output text (every ASCII string of the
    given length) -- the text generator itself is not the subject here;
  * open / os.rename / os.unlink / os.getpid replaced by a model POSIX file system with a *crash
    point*: the k-th mutating operation (create/truncate, write, rename, unlink) crashes after
    taking partial effect (a crashing write leaves any prefix).
Obligations: old content == new  =>  no mutating operation on any path, result False;
otherwise at every crash point the target path holds exactly the old or exactly the new content
(or is still absent if it was absent), and without a crash it holds the new content, result True.
"""
import os, sys, json
import z3
from vf import common, llsym, pysym, symstr, hutil


class Crash(BaseException):
    pass


class FS(object):
    """model file system: path -> content (str / SymStr); counts mutating operations"""

    def __init__(self, ex, crash_at, partial):
        self.ex = ex
        self.files = {}
        self.ops = 0
        self.crash_at = crash_at       # index of the mutating operation that crashes (None: no crash)
        self.partial = partial         # prefix length left by a crashing write
        self.log = []

    def _mutate(self, what):
        i = self.ops
        self.ops += 1
        self.log.append(what)
        return self.crash_at is not None and i == self.crash_at

    def open(self, path, mode='r', **kw):
        fs = self
        if 'r' in mode:
            if path not in self.files:
                raise FileNotFoundError(path)
            content = self.files[path]

            class R(object):
                def read(self, n=-1):
                    return content if n < 0 else content[:n]

                def __enter__(self):
                    return self

                def __exit__(self, *a):
                    return False
            return R()
        crash = self._mutate('create ' + path)
        if crash:
            raise Crash()              # crash before the file is created/truncated
        self.files[path] = ''

        class Wr(object):
            def write(self, s):
                if fs._mutate('write ' + path):
                    fs.files[path] = fs.files[path] + s[:fs.partial]
                    raise Crash()
                fs.files[path] = fs.files[path] + s

            def __enter__(self):
                return self

            def __exit__(self, *a):
                return False
        return Wr()

    # os.*
    def rename(self, a, b):
        if a not in self.files:
            raise FileNotFoundError(a)
        if self._mutate('rename %s -> %s' % (a, b)):
            raise Crash()              # POSIX rename is atomic: a crash happens before or after it
        self.files[b] = self.files.pop(a)

    def unlink(self, a):
        if a not in self.files:
            raise FileNotFoundError(a)
        if self._mutate('unlink ' + a):
            raise Crash()
        del self.files[a]

    def getpid(self):
        return 4242


def sym_eq(a, b):
    """z3 Bool / python bool equality of two str / SymStr"""
    if isinstance(a, symstr.SymStr):
        t = a._eq_term(b)
        return False if t is None else t
    if isinstance(b, symstr.SymStr):
        t = b._eq_term(a)
        return False if t is None else t
    return a == b


def worker(args):
    prop, tier, old_len, new_len = args
    sys.path.insert(0, os.path.join(common.REPO, 'src'))
    chk = hutil.sub_check(prop, tier)
    from cffi import recompiler
    ex = pysym.PyExplorer()
    label = 'old=%s,new=%d' % ('absent' if old_len is None else old_len, new_len)
    TARGET = 'out.c'

    def h(ex):
        new = symstr.SymStr.fresh(ex, 'new', new_len) if new_len else ''
        old = None if old_len is None else (symstr.SymStr.fresh(ex, 'old', old_len) if old_len else '')
        crash = ex.sym_int('crash_at')
        ex.assume(z3.And(crash.t >= -1, crash.t <= 5))
        k = ex.concretize_int(crash.t, 10, 'crash point')
        part = ex.sym_int('partial')
        ex.assume(z3.And(part.t >= 0, part.t <= new_len))
        p = ex.concretize_int(part.t, 20, 'partial write length') if k >= 0 else 0
        fs = FS(ex, None if k < 0 else k, p)
        if old is not None:
            fs.files[TARGET] = old

        class FakeRecompiler(object):
            def __init__(self, ffi, module_name, target_is_python=False):
                pass

            def collect_type_table(self):
                pass

            def collect_step_tables(self):
                pass

            def write_source_to_f(self, f, preamble):
                f.write(new)

        class Buf(object):
            def __init__(self):
                self.v = ''

            def write(self, s):
                self.v = self.v + s

            def getvalue(self):
                return self.v

        class OsShim(object):
            rename = fs.rename
            unlink = fs.unlink
            getpid = fs.getpid
        saved = (recompiler.Recompiler, recompiler.NativeIO, recompiler.os)
        recompiler.Recompiler, recompiler.NativeIO, recompiler.os = FakeRecompiler, Buf, OsShim
        recompiler.open = fs.open
        crashed = False
        result = None
        try:
            try:
                result = recompiler._make_c_or_py_source(None, 'mod', 'preamble', TARGET, False)
            except Crash:
                crashed = True
        finally:
            recompiler.Recompiler, recompiler.NativeIO, recompiler.os = saved
            del recompiler.open
        if k >= 0 and not crashed and fs.ops <= k:
            raise llsym.PathEnd()        # this crash point does not exist on this path
        now = fs.files.get(TARGET)
        same = sym_eq(old, new) if old is not None else False
        name = '%s:crash=%s' % (label, 'none' if k < 0 else '%d(+%d)' % (k, p))
        inputs = {}
        m = hutil.witness(chk, ex, '%s:%s' % (label, 'crash' if crashed else ('rewritten' if result else 'up-to-date')))
        if m is not None and len(chk.samples) < 6:
            chk.sample({'old': None if old is None else (old.concrete(m) if isinstance(old, symstr.SymStr) else old),
                        'new': new.concrete(m) if isinstance(new, symstr.SymStr) else new,
                        'crash at mutating op': k, 'ops': fs.log})
        # target holds exactly old or exactly new (or is still absent if it was)
        if now is None:
            holds = (old is None)
        else:
            holds = llsym.b_or(sym_eq(now, new), sym_eq(now, old) if old is not None else False)
        hutil.discharge(chk, ex, name + ':target-is-old-or-new', holds, inputs)
        if not crashed:
            # the code decided old == new or not on this path; both branches:
            if result is False:
                hutil.discharge(chk, ex, name + ':up-to-date=>identical', same, inputs)
                hutil.discharge(chk, ex, name + ':up-to-date=>untouched', fs.ops == 0, inputs)
            else:
                hutil.discharge(chk, ex, name + ':rewritten=>was-different', llsym.b_not(same), inputs)
                hutil.discharge(chk, ex, name + ':rewritten=>target==new', now is not None and sym_eq(now, new), inputs)
                hutil.discharge(chk, ex, name + ':returns-True', result is True, inputs)
                hutil.discharge(chk, ex, name + ':no-temporary-left', list(fs.files.keys()) == [TARGET], inputs)

    res = ex.explore(h, max_paths=20000)
    hutil.finish_explore(chk, ex, res, label)
    return hutil.export(chk)


DET_REPLAY = r'''
# Replay for C23 (determinism): the generated text under 48 different hash seeds must be one and the same.
import sys, os, json, subprocess
case = json.loads(%r)
CHILD = r"""
import sys, io, json
import cffi
from cffi import recompiler
case = json.loads(sys.argv[1])
ffi = cffi.FFI()
ffi.cdef(case['cdef'])
ffi.set_source('_verif_det', None if case['target'] == 'py' else '')
f = io.StringIO()
r = recompiler.Recompiler(ffi, '_verif_det', target_is_python=(case['target'] == 'py'))
r.collect_type_table(); r.collect_step_tables()
r.write_source_to_f(f, None if case['target'] == 'py' else '')
sys.stdout.write(f.getvalue())
"""
texts = set()
for seed in range(48):
    env = dict(os.environ, PYTHONHASHSEED=str(seed))
    r = subprocess.run([sys.executable, '-W', 'ignore', '-c', CHILD, json.dumps(case)], env=env, stdout=subprocess.PIPE, stderr=subprocess.PIPE)
    if r.returncode != 0:
        print('HARNESS: generator failed:', r.stderr.decode()[-500:]); sys.exit(3)
    texts.add(r.stdout)
if len(texts) > 1:
    print('VIOLATED: %%d different generated texts under 48 hash seeds' %% len(texts)); sys.exit(1)
sys.exit(0)
'''

DET_CDEFS = {
    'functions': ('typedef struct s1 { int a; char *b[3]; } s1_t; enum e { A, B = 5 }; union u { long x; double y; };'
                  'int f1(int, s1_t *); void f2(struct s1, char *, ...); s1_t f3(int (*)(int, long), union u *); extern int g1;'
                  'static const int K = 3; extern "Python" int cb(s1_t *, double);'),
    'many-pointer-args': 'int f(char *, short *, long *, float *, void *, int **); void g(int *, int *);',
    'anonymous-nested': ('struct outer { int a; struct { int x; char y; }; union { long p; double q; }; struct { short s1; short s2; } named; };'
                         'typedef struct { struct { int i; } in1; struct { float f; } in2; } two_t; int use(struct outer *, two_t *);'),
    'typedefs': 'typedef int a_t; typedef a_t *b_t; typedef b_t c_t[4]; typedef struct { c_t x; size_t n; wchar_t w; } d_t; d_t *h(intptr_t, ssize_t);',
}


def determinism_worker(args):
    """Every iteration over a `set` in the text generator and in the cdef parser is nondeterministic in CPython (str hashes
    depend on PYTHONHASHSEED): `set` is rebound, in cffi.recompiler and cffi.cparser, to a subclass whose iteration order
    is chosen by the explorer -- every order is a path.  The emitted text must be the same on every path."""
    prop, tier, what, cname, target = args
    chk = hutil.sub_check(prop, tier)
    label = 'determinism:%s:%s' % (cname, target)
    sys.path.insert(0, os.path.join(common.REPO, 'src'))
    for k in [k for k in sys.modules if k == 'cffi' or k.startswith('cffi.')]:
        del sys.modules[k]
    import cffi
    from cffi import recompiler, cparser, model
    import io, warnings
    warnings.simplefilter('ignore')
    ex = pysym.PyExplorer()
    state = {'iterated': 0, 'forks': 0}

    class NSet(set):
        def __iter__(self):
            items = sorted(set.__iter__(self), key=repr)
            state['iterated'] += 1
            out = []
            while items:
                k = 0
                while k < len(items) - 1:
                    state['n'] += 1
                    if ex.decide(z3.Bool('set_order_%d' % state['n'])):
                        break
                    k += 1
                if len(items) > 1:
                    state['forks'] += 1
                out.append(items.pop(k))
            return iter(out)
    # set algebra must stay inside the class (set.__sub__ & co. return plain sets for subclasses)
    def _closed(name):
        def op(self, *a):
            r = getattr(set, name)(self, *a)
            return NSet(r) if isinstance(r, (set, frozenset)) and not isinstance(r, NSet) else r
        return op
    for name in ('__sub__', '__rsub__', '__or__', '__ror__', '__and__', '__rand__', '__xor__', '__rxor__', 'copy', 'union',
                 'intersection', 'difference', 'symmetric_difference'):
        setattr(NSet, name, _closed(name))
    for m in (recompiler, cparser, model):
        m.set = NSet
        m.frozenset = NSet
    texts = set()
    first = {}

    def emit():
        ffi = cffi.FFI()
        src = DET_CDEFS[cname]
        if target == 'py':
            src = src.replace('extern "Python" int cb(s1_t *, double);', '')      # not allowed in ABI mode
        ffi.cdef(src)
        ffi.set_source('_verif_det', None if target == 'py' else '')
        f = io.StringIO()
        r = recompiler.Recompiler(ffi, '_verif_det', target_is_python=(target == 'py'))
        r.collect_type_table()
        r.collect_step_tables()
        r.write_source_to_f(f, None if target == 'py' else '')
        return f.getvalue()

    def h(ex):
        state['n'] = 0
        text = emit()
        if 'text' not in first:
            first['text'] = text
        hutil.witness(chk, ex, label)
        import time
        t0 = time.time()
        same = text == first['text']
        chk.query(label + ':same-text-for-this-iteration-order', 'unsat' if same else 'sat', time.time() - t0)
        if not same:
            src = DET_CDEFS[cname]
            if target == 'py':
                src = src.replace('extern "Python" int cb(s1_t *, double);', '')
            path = chk.write_replay('hashseed', DET_REPLAY % json.dumps({'cdef': src, 'target': target}))
            rc, out = common.run_replay(path, timeout=600)
            chk.report_failure('%s: the generated text depends on the iteration order of a set (PYTHONHASHSEED)' % label, {}, path,
                               common.replay_verdict(rc, out))
    res = ex.explore(h, max_paths=5000)
    hutil.finish_explore(chk, ex, res, label)
    chk.extra['sets iterated by the generator/parser (all runs)'] = state['iterated']
    chk.extra['iteration-order forks explored'] = state['forks']
    chk.functions = [{'name': 'Recompiler.collect_type_table/collect_step_tables/write_source_to_f', 'file': 'src/cffi/recompiler.py'},
                     {'name': 'Parser._parse/_common_type_names', 'file': 'src/cffi/cparser.py'}]
    return hutil.export(chk)


def dispatch(args):
    return determinism_worker(args) if args[2] == 'determinism' else worker(args)


def run(chk):
    quick = chk.tier == 'quick'
    P = (chk.prop, chk.tier)
    N = 3 if quick else 8
    cases = []
    for new_len in range(0, N + 1):
        cases.append(P + (None, new_len))
        for old_len in range(0, N + 1):
            if quick and abs(old_len - new_len) > 1 and old_len not in (0, N):
                continue
            cases.append(P + (old_len, new_len))
    chk.bounds = {'old content': 'absent, or every ASCII string of length 0..%d' % N, 'new content': 'every ASCII string of length 0..%d' % N,
                  'crash points': 'every mutating file-system operation of the write path (create/truncate, write with any '
                  'prefix written, rename, unlink) and no crash'}
    for cname in DET_CDEFS:
        for target in ('c', 'py'):
            cases.append(P + ('determinism', cname, target))
    chk.bounds['determinism'] = 'three cdefs x C and Python targets x every iteration order of every set the generator / parser iterates over'
    chk.outside = ['other sources of nondeterminism than set iteration order (dicts are insertion-ordered; id()-based ordering is not used)',
                   'the non-POSIX fallback (unlink then rename) taken only if os.rename raises: rename never fails in the POSIX model',
                   'the text generator (Recompiler) itself: replaced by a stub producing an arbitrary text']
    chk.assume('POSIX file system: rename() replaces the target atomically and does not fail; a crashing write leaves a prefix')
    chk.functions = [{'name': '_make_c_or_py_source', 'file': 'src/cffi/recompiler.py'}]
    hutil.run_cases(chk, cases, dispatch)
