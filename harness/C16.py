"""C16 -- array and pointer indexing, slicing and arithmetic follow the C model.

llsym on the real IR of _cdata_get_indexed_ptr, _cdata_getslicearg, cdata_slice, cdata_ass_slice,
_cdata_add_or_sub, cdata_sub, get_array_length (+ the conversion helpers they call).
Symbolic: index / slice bounds (Python ints of any magnitude), array length, item size, the data
pointer (an arbitrary 64-bit address that is *not* backed by memory for the index/slice/arithmetic
harnesses: any load or store through it is reported).  Each operation is one step from an
arbitrary cdata; histories are sequences of such steps on the (base, length) the previous step
established.
"""
import json
import z3
from vf import common, irgen, llsym, pystubs, hutil
from vf.llsym import bv, simp, mask, is_c
from vf.pystubs import W, V_const

S63 = 1 << 63

REPLAY = r'''
# Replay for C16 against the real cffi build.
import sys, json, cffi
case = json.loads(%r)
ffi = cffi.FFI()
bad = []
k = case['kind']
if k == 'index':
    n, i = case['n'], case['i']
    if 0 <= n <= 1000:
        a = ffi.new('short[]', n)
        try:
            a[i]
            ok = True
        except IndexError:
            ok = False
        if ok != (0 <= i < n):
            bad.append('short[%%d]: index %%d %%s' %% (n, i, 'accepted' if ok else 'rejected'))
        try:
            a[i] = 1
            ok = True
        except IndexError:
            ok = False
        if ok != (0 <= i < n):
            bad.append('short[%%d]: store at index %%d %%s' %% (n, i, 'accepted' if ok else 'rejected'))
    p = ffi.new('int *')
    try:
        p[i]
        ok = True
    except IndexError:
        ok = False
    if ok != (i == 0):
        bad.append('owning int*: index %%d %%s' %% (i, 'accepted' if ok else 'rejected'))
elif k == 'slice':
    n, i, j = case['n'], case['i'], case['j']
    if 0 <= n <= 1000:
        a = ffi.new('short[]', n)
        try:
            s = a[i:j]
            ok = True
        except IndexError:
            ok = False
        want = 0 <= i <= j <= n
        if ok != want:
            bad.append('short[%%d][%%d:%%d] %%s' %% (n, i, j, 'accepted' if ok else 'rejected'))
        elif ok and (len(s) != j - i or ffi.cast('char *', s) != ffi.cast('char *', a) + 2 * i):
            bad.append('short[%%d][%%d:%%d] gives length %%d at wrong address' %% (n, i, j, len(s)))
elif k == 'ass_slice':
    n, i, j, cnt = case['n'], case['i'], case['j'], case['count']
    a = ffi.new('int[]', n)
    try:
        a[i:j] = [7] * cnt
        ok = True
    except (ValueError, IndexError):
        ok = False
    if ok != (cnt == j - i):
        bad.append('int[%%d][%%d:%%d] = <%%d values> %%s' %% (n, i, j, cnt, 'accepted' if ok else 'rejected'))
    try:
        a[i:j] = ffi.new('int[]', cnt)
        ok = True
    except (ValueError, IndexError, TypeError):
        ok = False
    if ok != (cnt == j - i):
        bad.append('int[%%d][%%d:%%d] = <int[%%d] cdata> %%s' %% (n, i, j, cnt, 'accepted' if ok else 'rejected'))
    c = ffi.new('char[]', n)
    try:
        c[i:j] = b'x' * cnt
        ok = True
    except (ValueError, IndexError):
        ok = False
    if ok != (cnt == j - i):
        bad.append('char[%%d][%%d:%%d] = <%%d bytes> %%s' %% (n, i, j, cnt, 'accepted' if ok else 'rejected'))
elif k == 'arith':
    base, i, isz = case['base'], case['i'], case['itemsize']
    t = {1: 'char', 2: 'short', 4: 'int', 8: 'long long', 12: 'struct s12', 24: 'struct s24'}[isz]
    ffi.cdef('struct s12 { int a[3]; }; struct s24 { long long a[3]; };')
    p = ffi.cast(t + ' *', base)
    q = p + i
    addr = int(ffi.cast('uintptr_t', q))
    if addr != (base + i * isz) %% 2**64:
        bad.append('(%%s*)%%#x + %%d is at %%#x' %% (t, base, i, addr))
    if abs(i * isz) < 2**63 and (q - p) != i:
        bad.append('(p + %%d) - p == %%d' %% (i, q - p))
for b in bad:
    print('VIOLATED:', b)
sys.exit(1 if bad else 0)
'''


def make_replay(chk):
    def replay(case):
        c = dict(case)
        for k in ('i', 'j'):
            if k in c:
                c[k] = llsym.signed(c[k], W)
        if 'n' in c:
            c['n'] = llsym.signed(c['n'], 64)
            if not (0 <= c['n'] <= 1000) and c['kind'] != 'arith':
                if c['kind'] == 'index':
                    c['n'] = 0      # only the owning-pointer part is replayable
                else:
                    return None, None
        if c['kind'] == 'arith':
            c['i'] = llsym.signed(case['i'], W)
        path = chk.write_replay(c['kind'], REPLAY % json.dumps(c))
        rc, out = common.run_replay(path)
        return common.replay_verdict(rc, out), path
    return replay


def worker(args):
    prop, tier, what = args
    chk = hutil.sub_check(prop, tier)
    mod = irgen.backend()
    L = pystubs.CffiLayout(mod)
    F = L.flags
    replay = make_replay(chk)
    ex = llsym.Executor(mod, pystubs.stubs(), loop_bound=12)
    label = ':'.join(str(x) for x in what)

    def mk_container(ex, py, kind, n, itemsize, data, itemflags=None):
        """kind: array-fixed | array-open | pointer | owning-pointer"""
        item = pystubs.new_ctype(ex, L, itemsize, itemflags if itemflags is not None else
                                 (F['CT_PRIMITIVE_SIGNED'] | F['CT_PRIMITIVE_FITS_LONG']))
        ptr = pystubs.new_ctype(ex, L, 8, F['CT_POINTER'], itemdescr=item)
        if kind.startswith('array'):
            arr = pystubs.new_ctype(ex, L, 0, F['CT_ARRAY'], itemdescr=item, stuff=ptr,
                                    length=(n if kind == 'array-fixed' else mask(64)))
            ex.mem.store(ptr + L.ct['ct_stuff'], 0, 8)
            cd = pystubs.new_cdata(ex, L, arr, data, extra_size=16)
            ex.mem.store(cd + 40, n, 8)          # CDataObject_own_length.length (used when ct_length < 0)
            return cd, item, ptr, arr
        tp = 'CDataOwning_Type' if kind == 'owning-pointer' else 'CData_Type'
        cd = pystubs.new_cdata(ex, L, ptr, data, tp=tp, extra_size=16)
        return cd, item, ptr, None

    def on_oob(ex, what_, model):
        chk.report_failure('%s: memory touched through the data pointer: %s' % (label, what_), {}, None, None)
    ex.on_oob = on_oob

    if what[0] == 'index':
        kind = what[1]

        def h(ex):
            py = pystubs.PyEnv(ex)
            V = z3.BitVec('i', W)
            n = z3.BitVec('n', 64)
            isz = z3.BitVec('itemsize', 64)
            base = z3.BitVec('base', 64)
            ex.assume(z3.And(n >= 0, isz >= 1, isz <= 1 << 20))
            if kind == 'pointer':
                ex.assume(base != 0)
            cd, item, ptr, arr = mk_container(ex, py, kind, n, isz, base)
            key = py.new_int(V)
            r = ex.call('_cdata_get_indexed_ptr', [cd, key])
            inputs = {'i': V, 'n': n, 'itemsize': isz, 'base': base}
            kw = dict(inputs=inputs, replay=replay, extra_case={'kind': 'index'})
            n128 = z3.SignExt(64, n)
            if kind.startswith('array'):
                valid = z3.And(V >= 0, V < n128)
            elif kind == 'owning-pointer':
                valid = V == 0
            else:
                valid = pystubs.V_fits_s64(V)
            if py.exc is None:
                hutil.witness(chk, ex, label + ':accepted')
                hutil.discharge(chk, ex, label + ':accepted=>index-valid', valid, **kw)
                hutil.discharge(chk, ex, label + ':address==base+i*itemsize',
                                bv(r, 64) == base + z3.Extract(63, 0, V) * isz, **kw)
            else:
                hutil.witness(chk, ex, label + ':rejected')
                hutil.discharge(chk, ex, label + ':rejected=>index-invalid', z3.Not(valid), **kw)
                hutil.discharge(chk, ex, label + ':rejected=>IndexError+NULL',
                                (py.exc == 'PyExc_IndexError') and is_c(simp(r)) and simp(r) == 0, **kw)
    elif what[0] == 'slice':
        kind = what[1]

        def h(ex):
            py = pystubs.PyEnv(ex)
            I, J = z3.BitVec('i', W), z3.BitVec('j', W)
            n = z3.BitVec('n', 64)
            isz = z3.BitVec('itemsize', 64)
            base = z3.BitVec('base', 64)
            ex.assume(z3.And(n >= 0, isz >= 1, isz <= 1 << 20))
            cd, item, ptr, arr = mk_container(ex, py, kind, n, isz, base)
            # array type of the slice result is cached in ptr->ct_stuff
            openarr = pystubs.new_ctype(ex, L, mask(64), F['CT_ARRAY'], itemdescr=item, stuff=ptr, length=mask(64))
            ex.mem.store(ptr + L.ct['ct_stuff'], openarr, 8)
            none = ex.gaddr('_Py_NoneStruct')
            with_step = ex.decide(z3.Bool('has_step'))
            start_none = ex.decide(z3.Bool('start_is_None'))
            sl = py.new_obj('slice', 'PySlice_Type', 40)
            ex.mem.store(sl + 16, none if start_none else py.new_int(I), 8)
            ex.mem.store(sl + 24, py.new_int(J), 8)
            ex.mem.store(sl + 32, py.new_int(V_const(1)) if with_step else none, 8)
            r = simp(ex.call('cdata_slice', [cd, sl]))
            inputs = {'i': I, 'j': J, 'n': n, 'itemsize': isz, 'base': base}
            kw = dict(inputs=inputs, replay=replay, extra_case={'kind': 'slice'})
            n128 = z3.SignExt(64, n)
            if kind.startswith('array'):
                valid = z3.And(I >= 0, I <= J, J <= n128)
            else:
                valid = z3.And(I <= J, pystubs.V_fits_s64(I), pystubs.V_fits_s64(J))
            if with_step or start_none:
                valid = False
            if py.exc is None:
                hutil.witness(chk, ex, label + ':accepted')
                hutil.discharge(chk, ex, label + ':accepted=>bounds-valid', valid, **kw)
                if is_c(r) and r != 0:
                    data = ex.mem.load(r + 24, 8)
                    length = ex.mem.load(r + 40, 8)
                    ctype = ex.mem.load(r + 16, 8)
                    hutil.discharge(chk, ex, label + ':view-address==base+i*itemsize',
                                    bv(data, 64) == base + z3.Extract(63, 0, I) * isz, **kw)
                    hutil.discharge(chk, ex, label + ':view-length==j-i',
                                    bv(length, 64) == z3.Extract(63, 0, J) - z3.Extract(63, 0, I), **kw)
                    hutil.discharge(chk, ex, label + ':view-is-open-array-of-item', simp(ctype) == openarr, **kw)
                else:
                    chk.report_failure(label + ': no exception but NULL result', {}, None, None)
            else:
                hutil.witness(chk, ex, label + ':rejected')
                hutil.discharge(chk, ex, label + ':rejected=>bounds-invalid', llsym.b_not(valid), **kw)
                hutil.discharge(chk, ex, label + ':rejected=>IndexError', py.exc == 'PyExc_IndexError', **kw)
    elif what[0] == 'ass_slice':
        src_kind, maxn = what[1], what[2]

        def h(ex):
            py = pystubs.PyEnv(ex)
            # concrete small array of 4-byte ints (or chars) backed by real memory
            n = maxn
            itemsize = 1 if src_kind == 'bytes' else 4
            itemflags = (F['CT_PRIMITIVE_CHAR'] | F['CT_PRIMITIVE_FITS_LONG']) if src_kind == 'bytes' else None
            data = ex.mem.alloc(n * itemsize, 'array data', 'input')
            old = [z3.BitVec('old%d' % k, 8) for k in range(n * itemsize)]
            for k, b in enumerate(old):
                ex.mem.store(data.base + k, b, 1)
            cd, item, ptr, arr = mk_container(ex, py, 'array-fixed', n, itemsize, data.base, itemflags)
            I, J = z3.BitVec('i', W), z3.BitVec('j', W)
            ex.assume(z3.And(I >= 0, I <= J, J <= n))
            i = llsym.signed(ex.concretize(I, W, 16, 'start'), W)
            j = llsym.signed(ex.concretize(J, W, 16, 'stop'), W)
            none = ex.gaddr('_Py_NoneStruct')
            sl = py.new_obj('slice', 'PySlice_Type', 40)
            ex.mem.store(sl + 16, py.new_int(V_const(i)), 8)
            ex.mem.store(sl + 24, py.new_int(V_const(j)), 8)
            ex.mem.store(sl + 32, none, 8)
            cnt_s = z3.BitVec('count', 8)
            ex.assume(z3.ULE(cnt_s, maxn + 1))
            cnt = ex.concretize(cnt_s, 8, 16, 'number of values')
            vals = [z3.BitVec('val%d' % k, 8 * itemsize) for k in range(cnt)]
            if src_kind == 'list':
                # an iterable yielding `cnt` ints
                state = {'k': 0}
                ittype = ex.mem.alloc(pystubs.TYPEOBJ_SIZE, '@verif_iter_type', 'global', fill=0)
                ex.mem.store(ittype.base + 224, ex.faddr('verif_iternext'), 8)     # tp_iternext
                it = py.new_obj('iterator', 'PyBaseObject_Type', 32)
                ex.mem.store(it + 8, ittype.base, 8)

                def iternext(ex2, itobj):
                    if state['k'] < cnt:
                        v = vals[state['k']]
                        state['k'] += 1
                        return py.new_int(z3.SignExt(W - 32, v))
                    state['k'] += 1
                    return 0
                ex.stubs['verif_iternext'] = iternext
                ex.stubs['PyObject_GetIter'] = lambda ex2, o: it
                v = py.new_opaque('list')
            elif src_kind == 'cdata':
                sdata = ex.mem.alloc(max(cnt * 4, 1), 'source array', 'input')
                for k, vv in enumerate(vals):
                    ex.mem.store(sdata.base + 4 * k, vv, 4)
                sarr = pystubs.new_ctype(ex, L, 0, F['CT_ARRAY'], itemdescr=item, stuff=ptr, length=mask(64))
                v = pystubs.new_cdata(ex, L, sarr, sdata.base, extra_size=16)
                ex.mem.store(v + 40, cnt, 8)
                # iterating a cdata array of the wrong length goes through the generic path
                state = {'k': 0}
                ittype = ex.mem.alloc(pystubs.TYPEOBJ_SIZE, '@verif_iter_type', 'global', fill=0)
                ex.mem.store(ittype.base + 224, ex.faddr('verif_iternext'), 8)
                it = py.new_obj('iterator', 'PyBaseObject_Type', 32)
                ex.mem.store(it + 8, ittype.base, 8)

                def iternext(ex2, itobj):
                    if state['k'] < cnt:
                        vv = vals[state['k']]
                        state['k'] += 1
                        return py.new_int(z3.SignExt(W - 32, vv))
                    state['k'] += 1
                    return 0
                ex.stubs['verif_iternext'] = iternext
                ex.stubs['PyObject_GetIter'] = lambda ex2, o: it
            else:
                v = py.new_bytes(vals)
            r = simp(ex.call('cdata_ass_slice', [cd, sl, v]))
            name = '%s:[%d:%d]<-%d' % (label, i, j, cnt)
            want_ok = (cnt == j - i)
            hutil.witness(chk, ex, '%s:%s' % (label, 'exact' if want_ok else ('short' if cnt < j - i else 'long')))
            case = {'kind': 'ass_slice', 'n': n, 'i': i, 'j': j, 'count': cnt}
            got_ok = (r == 0 and py.exc is None)
            t_ok = (got_ok == want_ok)
            chk.query(name + ':accepted-iff-exactly-j-i-values', 'unsat' if t_ok else 'sat', 0.0)
            if not t_ok:
                ok, script = replay(case)
                chk.report_failure('%s: slice of %d items assigned %d values: %s' % (
                    name, j - i, cnt, 'accepted' if got_ok else 'rejected (%s)' % py.exc), {}, script, ok)
                return
            if not want_ok:
                chk.query(name + ':rejected=>ValueError', 'unsat' if py.exc == 'PyExc_ValueError' else 'sat', 0.0)
                if py.exc != 'PyExc_ValueError':
                    chk.report_failure('%s: wrong exception %s' % (name, py.exc), {}, None, None)
                return
            # accepted: elements i..j-1 hold the values, everything else unchanged
            inputs = dict(('val%d' % k, vv) for k, vv in enumerate(vals))
            conds = []
            for k in range(n):
                cur = bv(ex.mem.load(data.base + k * itemsize, itemsize), 8 * itemsize)
                if i <= k < j:
                    conds.append(cur == vals[k - i])
                else:
                    conds.append(cur == z3.Concat(*reversed(old[k * itemsize:(k + 1) * itemsize])) if itemsize > 1
                                 else cur == old[k])
            hutil.discharge(chk, ex, name + ':aliases-exactly-elements-i..j-1', z3.And(*conds) if conds else True, inputs)
    elif what[0] == 'arith':
        isz = what[1]

        def h(ex):
            py = pystubs.PyEnv(ex)
            V = z3.BitVec('i', W)
            base = z3.BitVec('base', 64)
            ex.assume(pystubs.V_fits_s64(V))
            cd, item, ptr, arr = mk_container(ex, py, 'pointer', 0, isz, base)
            w = py.new_int(V)
            q = simp(ex.call('cdata_add', [cd, w]))
            inputs = {'i': V, 'base': base}
            kw = dict(inputs=inputs, replay=replay, extra_case={'kind': 'arith', 'itemsize': isz})
            okq = is_c(q) and q != 0 and py.exc is None
            hutil.witness(chk, ex, label + ':add')
            hutil.discharge(chk, ex, label + ':p+i-succeeds', okq, **kw)
            if not okq:
                return
            qdata = bv(ex.mem.load(q + 24, 8), 64)
            i64 = z3.Extract(63, 0, V)
            hutil.discharge(chk, ex, label + ':p+i-is-i*itemsize-bytes-past-p', qdata == base + i64 * isz, **kw)
            hutil.discharge(chk, ex, label + ':p+i-has-pointer-type', simp(ex.mem.load(q + 16, 8)) == ptr, **kw)
            # (p+i) - p == i whenever i*itemsize does not wrap
            py.objs[q]['kind'] = 'cdata'
            d = simp(ex.call('cdata_sub', [q, cd]))
            nowrap = z3.And(z3.SignExt(64, i64) * isz < V_const(S63), z3.SignExt(64, i64) * isz >= V_const(-S63))
            if py.exc is None and is_c(d) and d != 0:
                hutil.discharge(chk, ex, label + ':(p+i)-p==i', z3.Implies(nowrap, py.info(d)['V'] == V), **kw)
            else:
                hutil.discharge(chk, ex, label + ':(p+i)-p-fails=>wrapped', z3.Not(nowrap), **kw)
            # (p+i)[j] aliases p[i+j]
            py.exc = None
            Jv = z3.BitVec('j', W)
            ex.assume(pystubs.V_fits_s64(Jv))
            ex.assume(base + i64 * isz != 0)
            a1 = ex.call('_cdata_get_indexed_ptr', [q, py.new_int(Jv)])
            hutil.discharge(chk, ex, label + ':(p+i)[j]-aliases-p[i+j]',
                            bv(a1, 64) == base + (i64 + z3.Extract(63, 0, Jv)) * isz,
                            inputs=dict(inputs, j=Jv))
    else:
        raise ValueError(what)

    res = ex.explore(h, max_paths=20000)
    hutil.finish_explore(chk, ex, res, label)
    chk.functions = irgen.func_info(mod, sorted(ex.called))
    return hutil.export(chk)


def run(chk):
    quick = chk.tier == 'quick'
    P = (chk.prop, chk.tier)
    cases = []
    for kind in ('array-fixed', 'array-open', 'pointer', 'owning-pointer'):
        cases.append(P + (('index', kind),))
    for kind in ('array-fixed', 'array-open', 'pointer'):
        cases.append(P + (('slice', kind),))
    for src in ('list', 'cdata', 'bytes'):
        cases.append(P + (('ass_slice', src, 3 if quick else 6),))
    for isz in (1, 2, 4, 8, 12, 24):
        cases.append(P + (('arith', isz),))
    chk.bounds = {'index / slice bounds': 'any Python int', 'array length': 'any value 0..2^63-1',
                  'item size': '1..2^20 (symbolic) for indexing/slicing; {1,2,4,8,12,24} for pointer arithmetic',
                  'data pointer': 'any 64-bit address', 'slice assignment': 'arrays of %d items, every [i:j], 0..%d values from '
                  'a list / a cdata array / bytes' % ((3, 4) if quick else (6, 7))}
    chk.outside = ['ffi.addressof(x, i) and ffi.offsetof("T[]", i) (direct_typeoffsetof)', 'items of unknown size, void*',
                   'longer arrays in slice assignment (loop body identical per item)']
    chk.assume('CPython API contracts of vf/pystubs.py (PyNumber_AsSsize_t, PyLong_AsSsize_t, PyObject_GetIter/tp_iternext)')
    chk.assume('histories = sequences of single steps: each step is checked from an arbitrary (base, length)')
    irgen.backend()
    hutil.run_cases(chk, cases, worker)
