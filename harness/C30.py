"""C30 -- declaration and type-string errors are reported as cffi errors.

Python side (pysym/SymStr on the real functions of src/cffi/cparser.py):
  macros    : Parser._process_macros({'X': s}) for every ASCII string s of length <= N
              (the value text of a '#define X s' line) -- only CDefError/FFIError may escape
  constants : Parser._parse_constant on every operator shape with arbitrary int leaves and on
              every string as Constant.value -- only CDefError/FFIError may escape
  parse-err : Parser.convert_pycparser_error for every line number in the pycparser message and
              every number of source lines -- always CDefError
C side (llsym on the real IR of parse_c_type.c, bounds monitor on): see c_worker.
"""
import os, sys, json, re
import z3
from vf import common, llsym, pysym, symstr, hutil

ALLOWED = ('CDefError', 'FFIError', 'NotImplementedError', 'VerificationError', 'VerificationMissing')

PY_REPLAY = r'''
# Replay for C30 (Python side): the text must make cdef() succeed or raise a cffi error.
import sys, json
import cffi
from cffi.error import CDefError, FFIError, VerificationError, VerificationMissing
src = json.loads(%r)
try:
    cffi.FFI().cdef(src)
    print('accepted')
except (CDefError, FFIError, NotImplementedError, VerificationError, VerificationMissing) as e:
    print('cffi error:', type(e).__name__)
except Exception as e:
    print('VIOLATED: cdef(%%r) raised %%s: %%s' %% (src, type(e).__name__, e))
    sys.exit(1)
sys.exit(0)
'''


def py_replay(chk, name, src):
    if any((ord(c) < 32 and c not in '\n\t') or ord(c) > 126 for c in src):
        return None, None
    path = chk.write_replay(name, PY_REPLAY % json.dumps(src))
    rc, out = common.run_replay(path, timeout=120)
    return common.replay_verdict(rc, out), path


TAGS = {}


def classify_exc(e):
    return type(e).__name__


def macro_worker(args):
    prop, tier, n = args
    sys.path.insert(0, os.path.join(common.REPO, 'src'))
    chk = hutil.sub_check(prop, tier)
    from cffi import cparser
    cparser.int = symstr.sym_int
    if not isinstance(cparser._r_int_literal, symstr.SymRegex):
        cparser._r_int_literal = symstr.SymRegex(cparser._r_int_literal)
    ex = pysym.PyExplorer()
    label = 'define-value-len%d' % n
    seen = {}

    def h(ex):
        # '#define X <s>': _r_define captures the rest of the line, so s has no newline
        s = symstr.SymStr.fresh(ex, 's', n, exclude='\n') if n else ''
        parser = cparser.Parser()
        try:
            parser._process_macros({'X': s})
            outcome = 'accepted'
        except (llsym.PathEnd, llsym.Unsupported, llsym.UnwindBound):
            raise
        except Exception as e:
            outcome = classify_exc(e)
        m = hutil.witness(chk, ex, '%s:%s' % (label, outcome))
        text = s.concrete(m) if (m is not None and n) else ''
        if outcome == 'accepted' or outcome in ALLOWED:
            chk.query('%s:path-outcome-%s' % (label, outcome), 'unsat', 0.0)
            if m is not None and outcome not in seen:
                seen[outcome] = 1
                chk.sample({'#define X': text, 'outcome': outcome})
            return
        src = '#define X %s\n' % text
        chk.query('%s:only-cffi-errors' % label, 'sat', 0.0, detail=repr(src))
        ok, script = py_replay(chk, 'define-%s' % outcome, src)
        chk.report_failure('%s: %r raises %s' % (label, src, outcome),
                           {'define_value_not_a_c_literal': True} if outcome == 'ValueError' else {}, script, ok)

    res = ex.explore(h, max_paths=300000)
    hutil.finish_explore(chk, ex, res, label)
    return hutil.export(chk)


def const_worker(args):
    prop, tier, op = args
    sys.path.insert(0, os.path.join(common.REPO, 'src'))
    chk = hutil.sub_check(prop, tier)
    from cffi import cparser
    from pycparser import c_ast
    mode = 'bv' if op in ('&', '|', '^') else 'int'
    ex = pysym.PyExplorer(logic='QF_NIA' if mode == 'int' else None)
    label = 'constant-expr a %s b' % op

    def h(ex):
        parser = cparser.Parser()
        a, b = ex.sym_int('a', mode), ex.sym_int('b', mode)
        parser._int_constants.update(a=a, b=b)
        lim = 1 << 64
        for v in (a, b):
            ex.assume(z3.And(v.t >= -lim, v.t <= lim))
        if op in ('<<', '>>'):
            # larger counts only make Python allocate huge ints (MemoryError is not an input error)
            ex.assume(b.t <= 100)
        try:
            class Coord(object):
                line = 1
            parser._parse_constant(c_ast.BinaryOp(op, c_ast.ID('a'), c_ast.ID('b'), coord=Coord()))
            outcome = 'value'
        except (llsym.PathEnd, llsym.UnwindBound):
            raise
        except pysym.Unmodelled:
            outcome = 'value'        # value correctness is C09's subject
        except llsym.Unsupported:
            raise
        except Exception as e:
            outcome = classify_exc(e)
        m = hutil.witness(chk, ex, '%s:%s' % (label, outcome))
        if outcome == 'value' or outcome in ALLOWED:
            chk.query('%s:path-outcome-%s' % (label, outcome), 'unsat', 0.0)
            return
        av = hutil.mval(m, a.t) if mode == 'int' else hutil.smval(m, a.t, pysym.BVW)
        bv_ = hutil.mval(m, b.t) if mode == 'int' else hutil.smval(m, b.t, pysym.BVW)
        src = 'enum e { A = (%d) %s (%d) };' % (av, op, bv_)
        chk.query('%s:only-cffi-errors' % label, 'sat', 0.0, detail=src)
        ok, script = py_replay(chk, 'const-%s' % outcome, src)
        chk.report_failure('%s: %r raises %s' % (label, src, outcome), {}, script, ok)

    res = ex.explore(h, max_paths=5000)
    hutil.finish_explore(chk, ex, res, label)
    return hutil.export(chk)


def constant_text_worker(args):
    prop, tier, n = args
    sys.path.insert(0, os.path.join(common.REPO, 'src'))
    chk = hutil.sub_check(prop, tier)
    from cffi import cparser
    from pycparser import c_ast
    cparser.int = symstr.sym_int
    cparser.ord = symstr.sym_ord
    ex = pysym.PyExplorer()
    label = 'constant-text-len%d' % n
    # Constant.value is always a token of pycparser's lexer: take its own token patterns (look-aheads
    # dropped: they are implied when the whole string must match)
    from pycparser import c_lexer as LX
    pats = [getattr(LX, k) for k in ('_decimal_constant', '_octal_constant', '_hex_constant', '_bin_constant',
                                     '_floating_constant', '_hex_floating_constant', '_char_const',
                                     '_wchar_const', '_u8char_const', '_u16char_const', '_u32char_const')
            if hasattr(LX, k)]
    token = '(' + '|'.join('(%s)' % re.sub(r'\(\?![^)]*\)', '', p_) for p_ in pats) + r')\Z'
    token_rx = symstr.SymRegex(re.compile(token))

    def h(ex):
        s = symstr.SymStr.fresh(ex, 's', n)
        if token_rx.match(s) is None:
            raise llsym.PathEnd()
        parser = cparser.Parser()
        try:
            parser._parse_constant(c_ast.Constant('int', s))
            outcome = 'value'
        except (llsym.PathEnd, llsym.Unsupported, llsym.UnwindBound):
            raise
        except Exception as e:
            outcome = classify_exc(e)
        m = hutil.witness(chk, ex, '%s:%s' % (label, outcome))
        if outcome == 'value' or outcome in ALLOWED:
            chk.query('%s:path-outcome-%s' % (label, outcome), 'unsat', 0.0)
            return
        text = s.concrete(m)
        chk.query('%s:only-cffi-errors' % label, 'sat', 0.0, detail=repr(text))
        ok, script = py_replay(chk, 'ctext-%s' % outcome, 'enum e { A = %s };' % text)
        chk.report_failure('%s: Constant.value=%r raises %s' % (label, text, outcome), {}, script, ok)

    res = ex.explore(h, max_paths=300000)
    hutil.finish_explore(chk, ex, res, label)
    return hutil.export(chk)


def parse_error_worker(args):
    prop, tier, nlines = args
    sys.path.insert(0, os.path.join(common.REPO, 'src'))
    chk = hutil.sub_check(prop, tier)
    from cffi import cparser
    from cffi.error import CDefError
    real_re = re
    ex = pysym.PyExplorer()
    label = 'pycparser-error-conversion-%dlines' % nlines

    class LineNo(object):
        """the digits captured by (\\d+): int() of it is any non-negative integer"""

    class Match(object):
        def group(self, i):
            return LineNo()

    class ReShim(object):
        def __getattr__(self, name):
            return getattr(real_re, name)

        def match(self, pattern, text, *a):
            if text == MSG:
                return Match() if ex.decide(z3.Bool('message_has_cdef_source_prefix')) else None
            return real_re.match(pattern, text, *a)

    MSG = '<cdef source string>:N:1: before: x'

    def h(ex):
        linenum = ex.sym_int('linenum')
        ex.assume(linenum.t >= 0)
        cparser.re = ReShim()
        cparser.int = lambda x, base=10: linenum if isinstance(x, LineNo) else int(x, base)

        class Err(Exception):
            def __str__(self):
                return MSG
        src = '\n'.join('int x%d;' % i for i in range(nlines))
        parser = cparser.Parser()
        try:
            try:
                parser.convert_pycparser_error(Err(), src)
                outcome = 'returned'
            except (llsym.PathEnd, llsym.Unsupported, llsym.UnwindBound):
                raise
            except Exception as e:
                outcome = classify_exc(e)
        finally:
            cparser.re = real_re
            del cparser.int
        m = hutil.witness(chk, ex, '%s:%s' % (label, outcome))
        if outcome == 'CDefError':
            chk.query('%s:path-outcome-CDefError' % label, 'unsat', 0.0)
            return
        ln = hutil.mval(m, linenum.t)
        chk.query('%s:always-CDefError' % label, 'sat', 0.0, detail='line %d of %d' % (ln, nlines))
        # replay: a bare '#line' directive makes pycparser report that line number
        src2 = ''.join('int x%d;\n' % i for i in range(max(nlines - 2, 0))) + '#line %d\nint x x;' % ln
        ok, script = py_replay(chk, 'parse-error-line', src2)
        chk.report_failure('%s: error at line %d in a %d-line source gives %s' % (label, ln, nlines, outcome),
                           {}, script, ok)

    res = ex.explore(h, max_paths=2000)
    hutil.finish_explore(chk, ex, res, label)
    return hutil.export(chk)


DECL_TEXT = {'struct': 'struct %s { int a; };', 'union': 'union %s { int a; };', 'typedef': 'typedef int %s;',
             'enum': 'enum %s { C30_A };', 'function': 'int %s(int);', 'variable': 'extern int %s;',
             'constant': 'static const int %s;', 'macro': '#define %s 1\n'}


def declare_worker(args):
    """Parser._declare (every declaration of a cdef ends here) on a declared identifier of n arbitrary identifier
    characters: only cffi errors may escape"""
    prop, tier, kind, n = args
    sys.path.insert(0, os.path.join(common.REPO, 'src'))
    chk = hutil.sub_check(prop, tier)
    from cffi import cparser, model
    ex = pysym.PyExplorer()
    label = 'declare:%s:name-length-%d' % (kind, n)
    IDENT = [c for c in range(128) if chr(c).isalnum() or chr(c) == '_']

    def h(ex):
        parser = cparser.Parser()
        name = symstr.SymStr.fresh(ex, 'name', n)
        for c in name.chars:
            ex.add_definition(z3.Or(*[c == v for v in IDENT]))
        ex.add_definition(z3.Not(z3.And(name.chars[0] >= 48, name.chars[0] <= 57)))
        key = symstr.SymStr(ex, [ord(ch) for ch in kind + ' '] + list(name.chars))

        class Decls(dict):
            def __contains__(self, k):
                return False
        parser._declarations = Decls()
        parser._declarations.__class__.__setitem__ = lambda self, k, v: None
        try:
            parser._declare(key, model.PrimitiveType('int'))
            outcome = 'declared'
        except (llsym.PathEnd, llsym.UnwindBound, llsym.Unsupported):
            raise
        except Exception as e:
            outcome = classify_exc(e)
        m = hutil.witness(chk, ex, '%s:%s' % (label, outcome))
        if outcome == 'declared' or outcome in ALLOWED:
            chk.query('%s:path-outcome-%s' % (label, outcome), 'unsat', 0.0)
            return
        text = ''.join(chr(hutil.mval(m, c)) for c in name.chars)
        src = DECL_TEXT[kind] % text
        chk.query('%s:only-cffi-errors' % label, 'sat', 0.0, detail=src)
        ok, script = py_replay(chk, 'declare-%s' % outcome, src)
        chk.report_failure('%s: %r raises %s' % (label, src, outcome), {}, script, ok)

    res = ex.explore(h, max_paths=5000)
    hutil.finish_explore(chk, ex, res, label)
    return hutil.export(chk)


def dispatch(args):
    kind = args[2]
    rest = args[:2] + args[3:]
    return {'macro': macro_worker, 'const': const_worker, 'ctext': constant_text_worker,
            'perr': parse_error_worker, 'c': c_worker, 'cstr': c_worker, 'decl': declare_worker}[kind](rest)


def c_worker(args):
    from harness import C30c
    return C30c.worker(args)


def c_cases(chk):
    try:
        from harness import C30c
    except ImportError:
        return []
    return C30c.cases(chk)


def run(chk):
    quick = chk.tier == 'quick'
    P = (chk.prop, chk.tier)
    N = 4 if quick else 6
    cases = [P + ('macro', n) for n in range(0, N + 1)]
    cases += [P + ('const', op) for op in ['+', '-', '*', '/', '%', '<<', '>>', '&', '|', '^']]
    cases += [P + ('ctext', n) for n in range(1, (4 if quick else 5) + 1)]
    cases += [P + ('perr', k) for k in range(0, 4 if quick else 7)]
    cases += [P + ('decl', k, n) for k in sorted(DECL_TEXT) for n in ((1, 5, 13) if quick else (1, 2, 3, 5, 8, 12, 13, 14))]
    cc = c_cases(chk)
    cases += cc
    chk.bounds = {'#define value text': 'every ASCII string without newline, length <= %d' % N,
                  'constant expressions': 'each binary operator with arbitrary leaves in [-2^64, 2^64] (shift counts <= 100)',
                  'C parser (typeof on a compiled FFI)': 'every byte string of length <= %d (any bytes), output arrays of 1..8 opcodes, empty declaration context; '
                                                         'str arguments of up to %d arbitrary BMP code points through _ffi_type' % (4 if quick else 5, 3 if quick else 4),
                  'Constant.value text': 'every ASCII string of length <= %d that pycparser can lex as a constant token' % (4 if quick else 5),
                  'declared identifiers': 'Parser._declare for every declaration kind and every identifier of the listed lengths (up to 13/14 characters)',
                  'parse-error conversion': 'any reported line number >= 0, sources of 0..%d lines' % (3 if quick else 6)}
    chk.outside = ['errors raised inside pycparser for texts it cannot lex/parse (converted by convert_pycparser_error, '
                   'whose own arithmetic is covered)', 'non-ASCII text', 'texts longer than the bounds',
                   'MemoryError from astronomically large shift counts']
    chk.assume('formatting of error messages is not modelled (placeholders); only the exception class is observed')
    chk.functions = [{'name': n, 'file': 'src/cffi/cparser.py'} for n in
                     ('Parser._process_macros', 'Parser._add_integer_constant', 'Parser._parse_constant',
                      'Parser._c_div', 'Parser.convert_pycparser_error')]
    hutil.run_cases(chk, cases, dispatch)
