"""C19 -- buffers, from_buffer and memmove match a byte-array model.

llsym on the real IR of minibuffer.h (mb_subscript, mb_ass_subscript, mb_item, mb_ass_item, mb_slice,
mb_ass_slice), direct_from_buffer, _fetch_as_buffer, b_memmove.
Symbolic: buffer size (0..NB, each size explored with a region of exactly that many bytes so that
any access outside [0,size) is reported), contents, indices / slice bounds (any Python int or
None), right-hand side length and bytes; for from_buffer the exporter's byte length and item size
and the array type's length/size; for memmove offsets and count.
Oracle: Python bytearray semantics (index wrap-around once, slice clamping) stated directly.
"""
import json
import z3
from vf import common, irgen, llsym, pystubs, hutil
from vf.llsym import bv, simp, mask, is_c
from vf.pystubs import W, V_const

REPLAY = r'''
# Replay for C19 against the real cffi build: ffi.buffer vs a bytearray model, from_buffer, memmove.
import sys, json, array, cffi
case = json.loads(%r)
ffi = cffi.FFI()
bad = []
k = case['kind']
def run(f):
    try:
        return ('ok', f())
    except Exception as e:
        return ('exc', type(e).__name__)
if k in ('getitem', 'setitem', 'getslice', 'setslice'):
    data = bytes(case['data'])
    p = ffi.new('char[]', data) if data else ffi.new('char[]', 1)
    buf = ffi.buffer(p, len(data))
    model = bytearray(data)
    key = case['key'] if k in ('getitem', 'setitem') else slice(case['start'], case['stop'], case.get('step'))
    if k in ('getitem', 'getslice'):
        a = run(lambda: bytes(buf[key]))
        b = run(lambda: bytes(model[key]) if isinstance(key, slice) else bytes([model[key]]))
        if k == 'getslice' and case.get('step') not in (None, 1):
            b = a   # stepped slices are refused by design (TypeError)
    else:
        rhs = bytes(case['rhs'])
        def seta():
            buf[key] = rhs
            return bytes(buf[:])
        def setb():
            if isinstance(key, slice):
                lo, hi, st = key.indices(len(model))
                if max(hi - lo, 0) != len(rhs):
                    raise ValueError('length')
                model[key] = rhs
            else:
                if len(rhs) != 1:
                    raise TypeError('len')
                model[key] = rhs[0]
            return bytes(model)
        a, b = run(seta), run(setb)
    if a != b:
        bad.append('%%s %%r on %%r: buffer -> %%r, bytearray model -> %%r' %% (k, key, data, a, b))
elif k == 'from_buffer':
    L, E, fixed, isz = case['len'], case['exp_itemsize'], case['fixed_len'], case['itemsize']
    if L %% E == 0 and L <= 4096 and E in (1, 2, 4, 8):
        src = array.array({1: 'B', 2: 'H', 4: 'I', 8: 'Q'}[E], [0] * (L // E))
        t = {1: 'char', 2: 'short', 4: 'int', 8: 'long long', 12: 'struct s12'}[isz]
        ffi.cdef('struct s12 { int a[3]; };')
        ctype = '%%s[%%s]' %% (t, '' if fixed is None else fixed)
        r = run(lambda: ffi.from_buffer(ctype, src))
        if fixed is None:
            if r[0] != 'ok' or len(r[1]) != L // isz:
                bad.append('from_buffer(%%r, <%%d bytes>) -> %%r' %% (ctype, L, r if r[0] != 'ok' else len(r[1])))
        else:
            too_small = L < fixed * isz
            if too_small != (r == ('exc', 'ValueError')):
                bad.append('from_buffer(%%r, <%%d bytes of itemsize %%d>) -> %%r' %% (ctype, L, E, r[0] if r[0] == 'ok' else r))
elif k == 'buffer-new':
    isz, n, size = case['itemsize'], case['n'], case['size']
    t = {1: 'char', 4: 'int'}[isz]
    p = ffi.new('%%s[%%d]' %% (t, max(n, 1))) if case['ckind'] == 'array' else ffi.cast(t + ' *', ffi.new('%%s[%%d]' %% (t, 16)))
    if case['ckind'] == 'array' and n == 0:
        p = ffi.cast('%%s[0]' %% t, 0) if False else ffi.new('%%s[]' %% t, 0)
    b = ffi.buffer(p, size) if case['given'] else ffi.buffer(p)
    want = size if case['given'] else (n * isz if case['ckind'] == 'array' else isz)
    if len(b) != want:
        bad.append('ffi.buffer(%%s%%s) has %%d bytes, expected %%d' %% (ffi.typeof(p).cname, (', %%d' %% size) if case['given'] else '', len(b), want))
elif k == 'memmove':
    data = bytes(case['data']); d, s, n = case['dst'], case['src'], case['n']
    p = ffi.new('char[]', data)
    ffi.memmove(p + d, p + s, n)
    model = bytearray(data); tmp = bytes(model[s:s + n]); model[d:d + n] = tmp
    if bytes(ffi.buffer(p, len(data))) != bytes(model):
        bad.append('memmove(+%%d, +%%d, %%d) on %%r -> %%r, model %%r' %% (d, s, n, data, bytes(ffi.buffer(p, len(data))), bytes(model)))
for b in bad:
    print('VIOLATED:', b)
sys.exit(1 if bad else 0)
'''


def make_replay(chk):
    def replay(case):
        path = chk.write_replay(case['kind'], REPLAY % json.dumps(case))
        rc, out = common.run_replay(path)
        return common.replay_verdict(rc, out), path
    return replay


def clamp_index(V, n):
    """Python: i += n if i < 0; then valid iff 0 <= i < n  (V: BV128, n: python int)"""
    idx = z3.If(V < 0, V + n, V)
    return idx, z3.And(idx >= 0, idx < n)


def slice_bound(V, is_none, n, default):
    """one bound of slice.indices(n) for step 1"""
    if is_none:
        return V_const(default)
    adj = z3.If(V < 0, V + n, V)
    return z3.If(adj < 0, V_const(0), z3.If(adj > n, V_const(n), adj))


def worker(args):
    prop, tier, what = args
    chk = hutil.sub_check(prop, tier)
    mod = irgen.backend()
    L = pystubs.CffiLayout(mod)
    F = L.flags
    replay = make_replay(chk)
    ex = llsym.Executor(mod, pystubs.stubs(), loop_bound=16)
    label = ':'.join(str(x) for x in what)

    def on_oob(ex, what_, model):
        chk.report_failure('%s: access outside the buffer: %s' % (label, what_), {}, None, None)
    ex.on_oob = on_oob

    def mk_buffer(ex, py, n):
        data = ex.mem.alloc(n, 'buffer bytes', 'input')
        bs = [z3.BitVec('d%d' % k, 8) for k in range(n)]
        for k, b in enumerate(bs):
            ex.mem.store(data.base + k, b, 1)
        mb = py.new_obj('minibuffer', 'MiniBuffer_Type', 48)
        # MiniBufferObj: mb_data, mb_size, mb_keepalive, mb_weakreflist
        base = data.base if n else data.base      # zero-size region: any access is out of bounds
        ex.mem.store(mb + 16, base, 8)
        ex.mem.store(mb + 24, n, 8)
        return mb, data, bs

    def cur(ex, data, n):
        return [bv(ex.mem.load(data.base + k, 1), 8) for k in range(n)]

    def mdata(m, bs):
        return [hutil.mval(m, b) for b in bs]

    if what[0] in ('getitem', 'setitem'):
        n = what[1]

        def h(ex):
            py = pystubs.PyEnv(ex)
            mb, data, bs = mk_buffer(ex, py, n)
            V = z3.BitVec('key', W)
            key = py.new_int(V)
            idx, valid = clamp_index(V, n)
            inputs = dict(('d%d' % k, b) for k, b in enumerate(bs))
            inputs['key'] = V
            if what[0] == 'getitem':
                r = simp(ex.call('mb_subscript', [mb, key]))

                def rp(c):
                    return replay({'kind': 'getitem', 'data': [c['d%d' % k] for k in range(n)], 'key': llsym.signed(c['key'], W)})
                if py.exc is None and is_c(r) and r != 0:
                    hutil.witness(chk, ex, label + ':ok')
                    hutil.discharge(chk, ex, label + ':accepted=>valid-index', valid, inputs, replay=rp)
                    res = py.info(r)
                    okk = res['kind'] == 'bytes' and len(res['data']) == 1
                    want = bs[0] if n else z3.BitVecVal(0, 8)
                    for k in range(n - 1, -1, -1):
                        want = z3.If(idx == k, bs[k], want)
                    hutil.discharge(chk, ex, label + ':value==model[key]', okk and (bv(res['data'][0], 8) == want), inputs, replay=rp)
                else:
                    hutil.witness(chk, ex, label + ':IndexError')
                    hutil.discharge(chk, ex, label + ':rejected=>invalid-index+IndexError',
                                    z3.And(z3.Not(valid), z3.BoolVal(py.exc == 'PyExc_IndexError')), inputs, replay=rp)
            else:
                rl = ex.concretize(z3.BitVec('rhs_len', 8) & 3, 8, 8, 'rhs length')
                rhs = [z3.BitVec('r%d' % k, 8) for k in range(rl)]
                for k, b in enumerate(rhs):
                    inputs['r%d' % k] = b
                other = py.new_bytes(rhs)
                r = simp(ex.call('mb_ass_subscript', [mb, key, other]))
                now = cur(ex, data, n)

                def rp(c):
                    return replay({'kind': 'setitem', 'data': [c['d%d' % k] for k in range(n)],
                                   'key': llsym.signed(c['key'], W), 'rhs': [c['r%d' % k] for k in range(rl)]})
                if r == 0 and py.exc is None:
                    hutil.witness(chk, ex, label + ':ok')
                    hutil.discharge(chk, ex, label + ':accepted=>valid-index-and-1-byte', z3.And(valid, z3.BoolVal(rl == 1)),
                                    inputs, replay=rp)
                    if rl == 1:
                        conds = [now[k] == z3.If(idx == k, rhs[0], bs[k]) for k in range(n)]
                        hutil.discharge(chk, ex, label + ':exactly-model[key]-changed', z3.And(*conds) if conds else True,
                                        inputs, replay=rp)
                else:
                    hutil.witness(chk, ex, label + ':rejected')
                    hutil.discharge(chk, ex, label + ':rejected=>invalid-or-wrong-length',
                                    z3.Or(z3.Not(valid), z3.BoolVal(rl != 1)), inputs, replay=rp)
                    hutil.discharge(chk, ex, label + ':rejected=>unchanged', z3.And(*[now[k] == bs[k] for k in range(n)]) if n else True,
                                    inputs, replay=rp)
    elif what[0] in ('getslice', 'setslice'):
        n, step = what[1], what[2]

        def h(ex):
            py = pystubs.PyEnv(ex)
            mb, data, bs = mk_buffer(ex, py, n)
            A, B = z3.BitVec('start', W), z3.BitVec('stop', W)
            none = ex.gaddr('_Py_NoneStruct')
            a_none = ex.decide(z3.Bool('start_is_None'))
            b_none = ex.decide(z3.Bool('stop_is_None'))
            sl = py.new_obj('slice', 'PySlice_Type', 40)
            ex.mem.store(sl + 16, none if a_none else py.new_int(A), 8)
            ex.mem.store(sl + 24, none if b_none else py.new_int(B), 8)
            ex.mem.store(sl + 32, none if step is None else py.new_int(V_const(step)), 8)
            lo = slice_bound(A, a_none, n, 0)
            hi = slice_bound(B, b_none, n, n)
            hi = z3.If(hi < lo, lo, hi)
            inputs = dict(('d%d' % k, b) for k, b in enumerate(bs))
            inputs.update(start=A, stop=B)

            def base_case(c):
                return {'data': [c['d%d' % k] for k in range(n)], 'start': None if a_none else llsym.signed(c['start'], W),
                        'stop': None if b_none else llsym.signed(c['stop'], W), 'step': step}
            if what[0] == 'getslice':
                r = simp(ex.call('mb_subscript', [mb, sl]))

                def rp(c):
                    return replay(dict(base_case(c), kind='getslice'))
                if step not in (None, 1):
                    hutil.witness(chk, ex, label + ':stepped')
                    hutil.discharge(chk, ex, label + ':stepped=>TypeError', (r == 0) and py.exc == 'PyExc_TypeError', inputs)
                    return
                okk = py.exc is None and is_c(r) and r != 0 and py.info(r)['kind'] == 'bytes'
                hutil.witness(chk, ex, label + ':ok')
                hutil.discharge(chk, ex, label + ':slice-never-fails', okk, inputs, replay=rp)
                if not okk:
                    return
                res = py.info(r)['data']
                cnt = len(res)
                hutil.discharge(chk, ex, label + ':length==hi-lo', hi - lo == cnt, inputs, replay=rp)
                conds = []
                for k in range(cnt):
                    want = z3.BitVecVal(0, 8)
                    for p in range(n - 1, -1, -1):
                        want = z3.If(lo + k == p, bs[p], want)
                    conds.append(bv(res[k], 8) == want)
                hutil.discharge(chk, ex, label + ':content==model[lo:hi]', z3.And(*conds) if conds else True, inputs, replay=rp)
            else:
                rls = z3.BitVec('rhs_len', 8)
                ex.assume(z3.ULE(rls, n + 1))
                rl = ex.concretize(rls, 8, 16, 'rhs length')
                rhs = [z3.BitVec('r%d' % k, 8) for k in range(rl)]
                for k, b in enumerate(rhs):
                    inputs['r%d' % k] = b
                other = py.new_bytes(rhs)
                r = simp(ex.call('mb_ass_subscript', [mb, sl, other]))
                now = cur(ex, data, n)

                def rp(c):
                    return replay(dict(base_case(c), kind='setslice', rhs=[c['r%d' % k] for k in range(rl)]))
                if step not in (None, 1):
                    hutil.discharge(chk, ex, label + ':stepped=>TypeError', (r != 0) and py.exc == 'PyExc_TypeError', inputs)
                    return
                if r == 0 and py.exc is None:
                    hutil.witness(chk, ex, label + ':ok')
                    hutil.discharge(chk, ex, label + ':accepted=>length-preserved', hi - lo == rl, inputs, replay=rp)
                    conds = []
                    for p in range(n):
                        newv = bs[p]
                        for k in range(rl):
                            newv = z3.If(lo + k == p, rhs[k], newv)
                        conds.append(now[p] == newv)
                    hutil.discharge(chk, ex, label + ':exactly-model[lo:hi]-replaced', z3.And(*conds) if conds else True,
                                    inputs, replay=rp)
                    exports = py.info(other).get('exports', 0)
                    hutil.discharge(chk, ex, label + ':source-buffer-released', exports == 0, inputs)
                else:
                    hutil.witness(chk, ex, label + ':rejected')
                    hutil.discharge(chk, ex, label + ':rejected=>length-differs+ValueError',
                                    z3.And(hi - lo != rl, z3.BoolVal(py.exc == 'PyExc_ValueError')), inputs, replay=rp)
                    hutil.discharge(chk, ex, label + ':rejected=>unchanged', z3.And(*[now[k] == bs[k] for k in range(n)]) if n else True,
                                    inputs, replay=rp)
                    hutil.discharge(chk, ex, label + ':source-buffer-released', py.info(other).get('exports', 0) == 0, inputs)
        ex.loop_bound = 24
    elif what[0] == 'from_buffer':
        arrkind, isz = what[1], what[2]

        def h(ex):
            py = pystubs.PyEnv(ex)
            Lb = z3.BitVec('len', 64)          # exporter's byte length
            E = z3.BitVec('exp_itemsize', 64)  # exporter's item size
            B = z3.BitVec('buf', 64)
            nfix = z3.BitVec('fixed_len', 64)
            ex.assume(z3.And(Lb >= 0, E >= 1, E <= 64, nfix >= 0, nfix <= (1 << 40)))
            item = pystubs.new_ctype(ex, L, isz, F['CT_PRIMITIVE_SIGNED'] | F['CT_PRIMITIVE_FITS_LONG'])
            ptr = pystubs.new_ctype(ex, L, 8, F['CT_POINTER'], itemdescr=item)
            if arrkind == 'open':
                ct = pystubs.new_ctype(ex, L, mask(64), F['CT_ARRAY'], itemdescr=item, stuff=ptr, length=mask(64))
            elif arrkind == 'fixed':
                ct = pystubs.new_ctype(ex, L, nfix * isz, F['CT_ARRAY'], itemdescr=item, stuff=ptr, length=nfix)
            else:
                ct = ptr
            x = py.new_opaque('exporter')
            py.info(x)['buffer'] = {'buf': B, 'len': Lb, 'itemsize': E, 'readonly': 0}
            r = simp(ex.call('direct_from_buffer', [ct, x, 0]))
            inputs = {'len': Lb, 'exp_itemsize': E, 'fixed_len': nfix}

            def rp(c):
                return replay({'kind': 'from_buffer', 'len': c['len'], 'exp_itemsize': c['exp_itemsize'],
                               'fixed_len': c['fixed_len'] if arrkind == 'fixed' else None, 'itemsize': isz})
            too_small = z3.And(z3.BoolVal(arrkind == 'fixed'), Lb < nfix * isz)
            # the region the replay script can build with array.array exporters
            pf = z3.And(z3.ULE(Lb, 4096), z3.Or(E == 1, E == 2, E == 4, E == 8), z3.URem(Lb, E) == 0)
            if py.exc is None and is_c(r) and r != 0:
                hutil.witness(chk, ex, label + ':ok')
                hutil.discharge(chk, ex, label + ':accepted=>large-enough', z3.Not(too_small), inputs, replay=rp, prefer=pf)
                length = bv(ex.mem.load(r + 40, 8), 64)
                hutil.discharge(chk, ex, label + ':aliases-exporter-memory', bv(ex.mem.load(r + 24, 8), 64) == B, inputs, replay=rp, prefer=pf)
                if arrkind == 'open':
                    # len(obj) // sizeof(T): q*isz <= len < (q+1)*isz
                    q = z3.ZeroExt(64, length)
                    l128 = z3.ZeroExt(64, Lb)
                    hutil.discharge(chk, ex, label + ':length==len//sizeof(T)',
                                    z3.And(q * isz <= l128, l128 < (q + 1) * isz), inputs, replay=rp, prefer=pf)
                elif arrkind == 'fixed':
                    hutil.discharge(chk, ex, label + ':length==declared', length == nfix, inputs, replay=rp, prefer=pf)
                hutil.discharge(chk, ex, label + ':exporter-stays-locked', py.info(x).get('exports', 0) == 1, inputs)
            else:
                hutil.witness(chk, ex, label + ':rejected')
                hutil.discharge(chk, ex, label + ':rejected=>too-small+ValueError',
                                z3.And(too_small, z3.BoolVal(py.exc == 'PyExc_ValueError')), inputs, replay=rp, prefer=pf)
                hutil.discharge(chk, ex, label + ':rejected=>exporter-released', py.info(x).get('exports', 0) == 0, inputs)
    elif what[0] == 'buffer-new':
        # ffi.buffer(cdata[, size]): the window is [c_data, c_data + size) with size = the explicit one (0 included), else the
        # array's byte length / the pointed-to item's size
        ckind, isz = what[1], what[2]

        def h(ex):
            py = pystubs.PyEnv(ex)
            item = pystubs.new_ctype(ex, L, isz, F['CT_PRIMITIVE_SIGNED'] | F['CT_PRIMITIVE_FITS_LONG'])
            ptr = pystubs.new_ctype(ex, L, 8, F['CT_POINTER'], itemdescr=item)
            N = z3.BitVec('array_length', 64)
            ex.assume(z3.And(N >= 0, N <= (1 << 40)))
            if ckind == 'array':
                ct = pystubs.new_ctype(ex, L, N * isz, F['CT_ARRAY'], itemdescr=item, stuff=ptr, length=N)
            else:
                ct = ptr
            D_ = z3.BitVec('c_data', 64)
            cd = pystubs.new_cdata(ex, L, ct, D_)
            S = z3.BitVec('size', 64)
            ex.assume(z3.And(S >= 0, S <= (1 << 40)))
            given = ex.decide(z3.Bool('size_given'))

            def parse(e, a_, k_, fmt, kw, *outs):
                e.mem.store(outs[1], cd, 8)
                if given:
                    e.mem.store(outs[2], S, 8)
                return 1
            made = []

            def mbnew(e, data, size, keepalive):
                made.append((simp(data), simp(size), simp(keepalive)))
                return py.new_opaque('minibuffer')
            ex.stubs.update({'_PyArg_ParseTupleAndKeywords_SizeT': parse, 'PyArg_ParseTupleAndKeywords': parse, 'minibuffer_new': mbnew})
            r = simp(ex.call('b_buffer_new', [0, py.new_opaque('args'), 0]))
            inputs = {'array_length': N, 'size': S, 'size_given': z3.If(z3.Bool('size_given'), z3.BitVecVal(1, 8), z3.BitVecVal(0, 8))}
            hutil.witness(chk, ex, label + (':explicit-size' if given else ':default-size'))
            okk = is_c(r) and r != 0 and py.exc is None and len(made) == 1
            hutil.discharge(chk, ex, label + ':buffer-created', okk, inputs)
            if okk:
                data, size, keep = made[0]
                want = S if given else ((N * isz) if ckind == 'array' else z3.BitVecVal(isz, 64))
                hutil.discharge(chk, ex, label + ':window-starts-at-the-cdata', bv(data, 64) == D_, inputs)
                hutil.discharge(chk, ex, label + ':window-size==explicit-size-else-natural-size', bv(size, 64) == want, inputs,
                                replay=lambda c: replay({'kind': 'buffer-new', 'ckind': ckind, 'itemsize': isz, 'n': min(c['array_length'], 64),
                                                         'size': min(c['size'], 64), 'given': bool(c['size_given'])}))
                hutil.discharge(chk, ex, label + ':cdata-kept-alive', keep == cd, inputs)
    elif what[0] == 'memmove':
        NB = what[1]

        def h(ex):
            py = pystubs.PyEnv(ex)
            data = ex.mem.alloc(NB, 'memory', 'input')
            bs = [z3.BitVec('d%d' % k, 8) for k in range(NB)]
            for k, b in enumerate(bs):
                ex.mem.store(data.base + k, b, 1)
            d = ex.concretize(z3.BitVec('dst', 8) & 7, 8, 16, 'dst offset')
            s = ex.concretize(z3.BitVec('src', 8) & 7, 8, 16, 'src offset')
            nn = ex.concretize(z3.BitVec('n', 8) & 7, 8, 16, 'count')
            if d + nn > NB or s + nn > NB:
                raise llsym.PathEnd()
            item = pystubs.new_ctype(ex, L, 1, F['CT_PRIMITIVE_CHAR'] | F['CT_PRIMITIVE_FITS_LONG'])
            ptr = pystubs.new_ctype(ex, L, 8, F['CT_POINTER'], itemdescr=item)
            dst_is_buffer = ex.decide(z3.Bool('dst_is_python_buffer'))
            if dst_is_buffer:
                dobj = py.new_opaque('exporter')
                py.info(dobj)['buffer'] = {'buf': data.base + d, 'len': NB - d, 'itemsize': 1, 'readonly': 0}
            else:
                dobj = pystubs.new_cdata(ex, L, ptr, data.base + d)
            sobj = pystubs.new_cdata(ex, L, ptr, data.base + s)

            def parse(ex2, a_, k_, fmt, kw, *outs):
                ex2.mem.store(outs[0], dobj, 8)
                ex2.mem.store(outs[1], sobj, 8)
                ex2.mem.store(outs[2], nn, 8)
                return 1
            ex.stubs['_PyArg_ParseTupleAndKeywords_SizeT'] = parse
            r = simp(ex.call('b_memmove', [0, 0, 0]))
            hutil.witness(chk, ex, '%s:d=%d,s=%d,n=%d' % (label, d, s, nn))
            inputs = dict(('d%d' % k, b) for k, b in enumerate(bs))

            def rp(c):
                return replay({'kind': 'memmove', 'data': [c['d%d' % k] for k in range(NB)], 'dst': d, 'src': s, 'n': nn})
            now = [bv(ex.mem.load(data.base + k, 1), 8) for k in range(NB)]
            want = list(bs)
            tmp = bs[s:s + nn]
            for k in range(nn):
                want[d + k] = tmp[k]
            hutil.discharge(chk, ex, '%s:d=%d,s=%d,n=%d:copy-via-temporary' % (label, d, s, nn),
                            z3.And(*[now[k] == want[k] for k in range(NB)]) if NB else True, inputs, replay=rp)
            if dst_is_buffer:
                hutil.discharge(chk, ex, label + ':dest-buffer-released', py.info(dobj).get('exports', 0) == 0, inputs)
    else:
        raise ValueError(what)

    res = ex.explore(h, max_paths=50000)
    hutil.finish_explore(chk, ex, res, label)
    if ex.ub_events:
        for key, (what_, m) in ex.ub_events.items():
            if key[0] == 'memcpy-overlap':
                chk.report_failure('%s: %s' % (label, what_), {}, None, None)
    chk.functions = irgen.func_info(mod, sorted(ex.called))
    return hutil.export(chk)


def run(chk):
    quick = chk.tier == 'quick'
    P = (chk.prop, chk.tier)
    NB = 3 if quick else 8
    cases = []
    for n in range(0, NB + 1):
        cases.append(P + (('getitem', n),))
        cases.append(P + (('setitem', n),))
        cases.append(P + (('getslice', n, None),))
        cases.append(P + (('setslice', n, None),))
    cases.append(P + (('getslice', 2, 2),))
    cases.append(P + (('setslice', 2, -1),))
    cases.append(P + (('getslice', 2, 1),))
    for isz in (1, 2, 4, 8, 12):
        cases.append(P + (('from_buffer', 'open', isz),))
        cases.append(P + (('from_buffer', 'fixed', isz),))
    cases.append(P + (('from_buffer', 'pointer', 4),))
    for ckind in ('array', 'pointer'):
        for isz in (1, 4):
            cases.append(P + (('buffer-new', ckind, isz),))
    cases.append(P + (('memmove', 4 if quick else 8),))
    chk.bounds = {'buffer size': '0..%d bytes (every size explored separately), any content' % NB,
                  'index / slice bounds': 'any Python int or None; step None, 1, 2, -1',
                  'right-hand side': 'bytes of length 0..3 (index) / 0..size+1 (slice), any content',
                  'from_buffer': 'any exporter byte length, exporter item size 1..64, declared length 0..2^40, item sizes {1,2,4,8,12}',
                  'memmove': 'every (dst, src, n) inside a %d-byte region, cdata or Python-buffer destination' % (4 if quick else 8)}
    chk.outside = ['buffers longer than the bound (the code has no size-dependent branches beyond the clamping)',
                   'non-contiguous exporters, PyObject_GetBuffer itself', 'ffi.buffer() over var-sized structs and the size warning for owning cdata']
    chk.assume('CPython contracts: PySlice_Unpack/PySlice_AdjustIndices as in CPython 3.12, PyObject_GetBuffer/PyBuffer_Release '
               'export counting, memmove == copy through a temporary (libc)')
    irgen.backend()
    hutil.run_cases(chk, cases, worker)
