"""C27 -- non-aggregate ctypes are canonical over any history.

History property decided by inductive steps from an arbitrary valid cache state (llsym on the real IR):

 State: unique_cache with K entries; every key is a bytes object with *symbolic content*; every value is
 a weakref that is alive (to a ctype whose ct_unique_key holds the same bytes) or dead.
 INV: keys are pairwise different (it is a dict) and an alive entry's ctype carries exactly its key.

 (a) get_unique_type(x, key) from any INV state: if an alive entry has this key the result is that very
     ctype and nothing is inserted; otherwise the result is x, the cache maps the key to a live weakref
     to x, x carries the key, every other entry is untouched; INV holds again.  Hence two live ctypes built
     with equal keys are one object, at any point of any history.
 (b) ctypedescr_dealloc(t): t's weakrefs are cleared and its entry is removed iff it is (still) the dead
     one -- an entry that was meanwhile replaced by a live weakref to another ctype stays; all other
     entries are untouched; INV holds again (so a rebuilt type is unique again).
 (c) keys say exactly "same C type": for two constructor calls with symbolic parameters the keys handed to
     get_unique_type are equal iff the parameters denote the same type:
       pointer [item]; array [pointer-to-item, length] with every negative length meaning '[]', for every
       item size including 0; function [result, abi, ellipsis, n, args...] with array arguments decayed to
       pointers; keys of different constructors differ in length or address space.
"""
import json
import z3
from vf import common, irgen, llsym, pystubs, hutil
from vf.llsym import bv, simp, mask, is_c

REPLAY = r'''
# Replay for C27 on the real build: identity of non-aggregate ctypes over a history with drops and gc.
import sys, gc, random
import _cffi_backend as B
rnd = random.Random(27)
bad = []
prims = [B.new_primitive_type(n) for n in ('int', 'char', 'short', 'long', 'double')]
void = B.new_void_type()
empty = B.new_struct_type('struct empty'); B.complete_struct_or_union(empty, [])
int0 = B.new_array_type(B.new_pointer_type(prims[0]), 0)
def build(desc):
    k = desc[0]
    if k == 'prim': return prims[desc[1]]
    if k == 'void': return void
    if k == 'empty': return empty
    if k == 'int0': return int0
    if k == 'ptr': return B.new_pointer_type(build(desc[1]))
    if k == 'arr': return B.new_array_type(B.new_pointer_type(build(desc[1])), desc[2])
    if k == 'fn': return B.new_function_type(tuple(build(a) for a in desc[2]), build(desc[1]), desc[3])
def rand_desc(depth=0):
    r = rnd.random()
    if depth > 2 or r < 0.3: return rnd.choice([('prim', rnd.randrange(5)), ('empty',), ('int0',)])
    if r < 0.55: return ('ptr', rnd.choice([rand_desc(depth + 1), ('void',)]))
    if r < 0.8: return ('arr', rand_desc(depth + 1), rnd.choice([None, 0, 1, 2, 3, 5, 7]))
    return ('fn', rnd.choice([rand_desc(depth + 1), ('void',)]), tuple(rand_desc(depth + 1) for _ in range(rnd.randrange(3))), rnd.random() < 0.3)
def norm(d):
    # C identity: array arguments of functions decay to pointers
    if d[0] == 'fn': return ('fn', norm(d[1]), tuple(('ptr', norm(a[1])) if a[0] == 'arr' else norm(a) for a in d[2]), d[3])
    if d[0] in ('ptr',): return ('ptr', norm(d[1]))
    if d[0] == 'arr': return ('arr', norm(d[1]), d[2])
    return d
def valid(d):
    try: build(d); return True
    except (TypeError, ValueError, NotImplementedError, OverflowError): return False
# directed part: array arguments decay to pointers, zero-size items, '[]' vs lengths
for T in prims + [empty, int0]:
    pT = B.new_pointer_type(T)
    try:
        variants = [B.new_function_type((a,), prims[0], False) for a in (pT, B.new_array_type(pT, 5), B.new_array_type(pT, None), B.new_array_type(pT, 0))]
    except (TypeError, ValueError, NotImplementedError):
        variants = []
    if any(v is not variants[0] for v in variants):
        bad.append('function types taking %r as pointer / array argument are %d different objects' % (T, len(set(map(id, variants)))))
    arrs = [B.new_array_type(pT, n) for n in (None, 0, 1, 2, 3)]
    if len(set(map(id, arrs))) != len(arrs):
        bad.append('array types of different lengths over %r share a ctype object' % (T,))
    if B.new_array_type(pT, 3) is not arrs[4] or B.new_array_type(pT, None) is not arrs[0]:
        bad.append('rebuilding an array type over %r gives another object' % (T,))
live = {}
for step in range(4000):
    d = rand_desc()
    if not valid(d): continue
    t = build(d)
    key = norm(d)
    if key in live and live[key] is not t:
        bad.append('two live ctypes for %r: %r / %r' % (key, live[key], t))
    for k2, t2 in live.items():
        if t2 is t and k2 != key:
            bad.append('one ctype object %r for two different types %r and %r' % (t, k2, key))
    live[key] = t
    if rnd.random() < 0.4 and live:
        for k2 in rnd.sample(sorted(live, key=repr), min(len(live), 3)): del live[k2]
    if step % 50 == 0: gc.collect()
    del t
for b in bad[:5]: print('VIOLATED:', b)
sys.exit(1 if bad else 0)
'''


def make_replay(chk):
    def replay(case):
        path = chk.write_replay('history', REPLAY)
        rc, out = common.run_replay(path, timeout=600)
        return common.replay_verdict(rc, out), path
    return replay


class Cache(object):
    """abstract unique_cache: list of [key bytes object, weakref object]; weakref info: referent or 0"""

    def __init__(self, ex, py, L):
        self.ex, self.py, self.L = ex, py, L
        self.items = []
        self.d = py.new_opaque('dict', 'PyDict_Type')
        ex.mem.store(ex.gaddr('unique_cache'), self.d, 8)
        self.log = []

    def key_bytes(self, k):
        return self.py.info(k)['data']

    def same(self, a, b):
        da, db = self.key_bytes(a), self.key_bytes(b)
        if len(da) != len(db):
            return False
        return self.ex.decide(z3.And(*[bv(x, 8) == bv(y, 8) for x, y in zip(da, db)])) if da else True

    def find(self, k):
        k = simp(k)
        for it in self.items:
            if it[0] == k or self.same(it[0], k):
                return it
        return None

    def new_wr(self, referent):
        return self.py.new_opaque('weakref', referent=referent)

    def install(self):
        ex, py = self.ex, self.py

        def getitemref(e, d, k, out):
            it = self.find(k)
            e.mem.store(out, it[1] if it else 0, 8)
            return 1 if it else 0

        def getitem(e, d, k):
            it = self.find(k)
            return it[1] if it else 0

        def setitem(e, d, k, v):
            it = self.find(k)
            self.log.append(('set', simp(k), simp(v)))
            if it:
                it[1] = simp(v)
            else:
                self.items.append([simp(k), simp(v)])
            return 0

        def delitem(e, d, k):
            it = self.find(k)
            self.log.append(('del', simp(k)))
            if it is None:
                py.exc = 'PyExc_KeyError'
                return mask(32)
            self.items.remove(it)
            return 0

        def wr_getref(e, wr, out):
            ref = py.info(wr)['referent']
            e.mem.store(out, ref, 8)
            return 1 if ref else 0

        def wr_new(e, ob, cb):
            return self.new_wr(simp(ob))

        def clear_weakrefs(e, ob):
            ob = simp(ob)
            for a, i in py.objs.items():
                if i.get('kind') == 'weakref' and i.get('referent') == ob:
                    i['referent'] = 0
        ex.stubs.update({'PyDict_GetItemRef': getitemref, 'PyDict_GetItemWithError': getitem, 'PyDict_GetItem': getitem,
                         'PyDict_SetItem': setitem, 'PyDict_DelItem': delitem, 'PyWeakref_GetRef': wr_getref,
                         'PyWeakref_NewRef': wr_new, 'PyObject_ClearWeakRefs': clear_weakrefs,
                         'PyWeakref_GetObject': lambda e, wr: (py.info(wr)['referent'] or e.gaddr('_Py_NoneStruct')),
                         '_Py_Dealloc': lambda e, o: None, 'PyErr_WriteUnraisable': lambda e, o: self.log.append(('unraisable',))})


def sym_key(py, tag, w):
    data = [z3.BitVec('%s_%d' % (tag, i), 8) for i in range(8 * w)]
    return py.new_bytes(data), data


def beq(a, b):
    return z3.And(*[bv(x, 8) == bv(y, 8) for x, y in zip(a, b)]) if len(a) == len(b) else z3.BoolVal(False)


def get_worker(args):
    prop, tier, kind, K, w = args
    chk = hutil.sub_check(prop, tier)
    mod = irgen.backend()
    L = pystubs.CffiLayout(mod)
    F = L.flags
    label = 'get_unique_type:%d-entries:%d-word-keys' % (K, w)
    replay = make_replay(chk)
    ex = llsym.Executor(mod, pystubs.stubs(), loop_bound=8, solver_timeout_ms=120000)

    def h(ex):
        py = pystubs.PyEnv(ex)
        C = Cache(ex, py, L)
        C.install()
        inputs = {}
        ent = []
        for i in range(K):
            kobj, data = sym_key(py, 'key%d' % i, w)
            alive = ex.decide(z3.Bool('alive%d' % i))
            inputs['alive%d' % i] = z3.Bool('alive%d' % i)
            t = pystubs.new_ctype(ex, L, 8, F['CT_POINTER'], name=b't%d' % i) if alive else 0
            if alive:
                ex.mem.store(t + L.ct['ct_unique_key'], kobj, 8)
            wr = C.new_wr(t)
            C.items.append([kobj, wr])
            ent.append((kobj, data, alive, t, wr))
            for j in range(i):                                  # dict: keys pairwise different
                ex.assume(z3.Not(beq(ent[j][1], data)))
            for k, b in enumerate(data):
                inputs['key%d_%d' % (i, k)] = b
        x = pystubs.new_ctype(ex, L, 8, F['CT_POINTER'], name=b'x')
        kbuf = ex.mem.alloc(8 * w, 'unique_key[]', 'input')
        newkey = [z3.BitVec('newkey_%d' % k, 8) for k in range(8 * w)]
        for k, b in enumerate(newkey):
            ex.mem.store(kbuf.base + k, b, 1)
            inputs['newkey_%d' % k] = b
        y = simp(ex.call('get_unique_type', [x, kbuf.base, w]))
        okk = is_c(y) and y != 0 and py.exc is None
        hutil.discharge(chk, ex, label + ':returns-a-ctype', okk, inputs, replay=replay)
        if not okk:
            return
        hit = z3.Or(*[beq(e[1], newkey) for e in ent if e[2]]) if any(e[2] for e in ent) else z3.BoolVal(False)
        if y != x:
            hutil.witness(chk, ex, label + ':existing')
            which = [e for e in ent if e[3] == y]
            okw = len(which) == 1 and which[0][2]
            hutil.discharge(chk, ex, label + ':existing-is-a-live-cached-ctype', okw, inputs, replay=replay)
            if okw:
                hutil.discharge(chk, ex, label + ':existing-has-exactly-this-key', beq(which[0][1], newkey), inputs, replay=replay)
            unchanged = len(C.items) == K and all(C.items[i][0] == ent[i][0] and C.items[i][1] == ent[i][4] for i in range(K))
            hutil.discharge(chk, ex, label + ':existing=>cache-unchanged', unchanged and not C.log, inputs, replay=replay)
            hutil.discharge(chk, ex, label + ':existing=>x-not-registered', simp(ex.mem.load(x + L.ct['ct_unique_key'], 8)) == 0, inputs, replay=replay)
        else:
            hutil.witness(chk, ex, label + ':inserted')
            hutil.discharge(chk, ex, label + ':inserted=>no-live-ctype-had-this-key', z3.Not(hit), inputs, replay=replay)
            mine = [it for it in C.items if py.info(it[1]).get('referent') == x]
            okm = len(mine) == 1
            hutil.discharge(chk, ex, label + ':inserted=>exactly-one-entry-refers-to-x', okm, inputs, replay=replay)
            if okm:
                hutil.discharge(chk, ex, label + ':inserted-under-this-key', beq(C.key_bytes(mine[0][0]), newkey), inputs, replay=replay)
                xk = simp(ex.mem.load(x + L.ct['ct_unique_key'], 8))
                okx = is_c(xk) and xk in py.objs and py.info(xk)['kind'] == 'bytes'
                hutil.discharge(chk, ex, label + ':x-carries-this-key', beq(C.key_bytes(xk), newkey) if okx else False, inputs, replay=replay)
            # every other live entry is untouched
            others = all(any(it[0] == e[0] and it[1] == e[4] for it in C.items) for e in ent if e[2])
            hutil.discharge(chk, ex, label + ':other-live-entries-untouched', others, inputs, replay=replay)
        # INV after: keys pairwise different, alive entries' ctypes carry their key
        conds = []
        for a in range(len(C.items)):
            for b in range(a):
                conds.append(z3.Not(beq(C.key_bytes(C.items[a][0]), C.key_bytes(C.items[b][0]))))
            ref = py.info(C.items[a][1]).get('referent')
            if ref:
                rk = simp(ex.mem.load(ref + L.ct['ct_unique_key'], 8))
                conds.append(beq(C.key_bytes(rk), C.key_bytes(C.items[a][0])) if (is_c(rk) and rk in py.objs) else z3.BoolVal(False))
        hutil.discharge(chk, ex, label + ':invariant-kept', z3.And(*conds) if conds else True, inputs, replay=replay)

    res = ex.explore(h, max_paths=5000)
    hutil.finish_explore(chk, ex, res, label)
    chk.functions = irgen.func_info(mod, sorted(ex.called))
    return hutil.export(chk)


def dealloc_worker(args):
    prop, tier, kind, K, w = args
    chk = hutil.sub_check(prop, tier)
    mod = irgen.backend()
    L = pystubs.CffiLayout(mod)
    F = L.flags
    label = 'ctypedescr_dealloc:%d-other-entries:%d-word-keys' % (K, w)
    replay = make_replay(chk)
    ex = llsym.Executor(mod, pystubs.stubs(), loop_bound=8, solver_timeout_ms=120000)

    def h(ex):
        py = pystubs.PyEnv(ex)
        C = Cache(ex, py, L)
        C.install()
        ex.stubs['!indirect'] = lambda e, addr, a: None           # tp_free
        ex.stubs['PyObject_GC_Del'] = lambda e, o: None
        inputs = {}
        ent = []
        for i in range(K):
            kobj, data = sym_key(py, 'key%d' % i, w)
            alive = ex.decide(z3.Bool('alive%d' % i))
            inputs['alive%d' % i] = z3.Bool('alive%d' % i)
            t = pystubs.new_ctype(ex, L, 8, F['CT_POINTER'], name=b't%d' % i) if alive else 0
            if alive:
                ex.mem.store(t + L.ct['ct_unique_key'], kobj, 8)
            wr = C.new_wr(t)
            C.items.append([kobj, wr])
            ent.append((kobj, data, alive, t, wr))
            for j in range(i):
                ex.assume(z3.Not(beq(ent[j][1], data)))
            for k, b in enumerate(data):
                inputs['key%d_%d' % (i, k)] = b
        # the dying ctype: its key may or may not (still) have an entry of its own
        t = pystubs.new_ctype(ex, L, 8, F['CT_POINTER'], name=b'dying')
        tk, tdata = sym_key(py, 'dying_key', w)
        for k, b in enumerate(tdata):
            inputs['dying_key_%d' % k] = b
        ex.mem.store(t + L.ct['ct_unique_key'], tk, 8)
        own = ex.decide(z3.Bool('own_entry_still_present'))
        inputs['own_entry_still_present'] = z3.Bool('own_entry_still_present')
        own_wr = None
        if own:
            for e_ in ent:
                ex.assume(z3.Not(beq(e_[1], tdata)))
            own_wr = C.new_wr(t)
            C.items.append([tk, own_wr])
        # (otherwise an entry of `ent` may carry the same key: it was re-created by another ctype, or is a dead leftover)
        before = [(it[0], it[1], py.info(it[1]).get('referent')) for it in C.items]
        ex.call('ctypedescr_dealloc', [t])
        hutil.witness(chk, ex, label + (':own-entry' if own else ':no-own-entry'))
        hutil.discharge(chk, ex, label + ':no-exception', py.exc is None and ('unraisable',) not in C.log, inputs, replay=replay)
        if own:
            hutil.discharge(chk, ex, label + ':own-dead-entry-removed', not any(it[1] == own_wr for it in C.items), inputs, replay=replay)
        for (k0, wr0, ref0) in before:
            if wr0 == own_wr:
                continue
            still = any(it[0] == k0 and it[1] == wr0 for it in C.items)
            if ref0:
                hutil.discharge(chk, ex, label + ':live-entries-stay', still and py.info(wr0).get('referent') == ref0, inputs, replay=replay)
            else:
                # a dead leftover may be removed only if it has the dying key
                kd = C.key_bytes(k0)
                hutil.discharge(chk, ex, label + ':dead-entries-removed-only-under-the-dying-key', z3.Or(z3.BoolVal(still), beq(kd, tdata)), inputs, replay=replay)
        # no dead entry remains under the dying key
        conds = []
        for it in C.items:
            if not py.info(it[1]).get('referent'):
                conds.append(z3.Not(beq(C.key_bytes(it[0]), tdata)))
        hutil.discharge(chk, ex, label + ':no-dead-entry-left-under-the-dying-key', z3.And(*conds) if conds else True, inputs, replay=replay)

    res = ex.explore(h, max_paths=5000)
    hutil.finish_explore(chk, ex, res, label)
    chk.functions = irgen.func_info(mod, sorted(ex.called))
    return hutil.export(chk)


def keys_worker(args):
    prop, tier, kind = args[:3]
    chk = hutil.sub_check(prop, tier)
    mod = irgen.backend()
    L = pystubs.CffiLayout(mod)
    F = L.flags
    label = 'keys:' + kind
    replay = make_replay(chk)

    def ext(ex, name, g, m):
        if name.startswith('ffi_type_'):
            return ex.mem.alloc(24, '@' + name, 'global', fill=0)
        return pystubs.extern_global(ex, name, g, m)
    st = pystubs.stubs()
    st['@*'] = ext
    ex = llsym.Executor(mod, st, loop_bound=16, solver_timeout_ms=120000)

    def h(ex):
        py = pystubs.PyEnv(ex)
        keys = []

        def get_unique(e, x, key, n):
            n = e.concretize(n, 64, 16, 'key length')
            keys.append([bv(e.mem.load(simp(key) + 8 * i, 8), 64) for i in range(n)])
            return x
        ex.stubs['get_unique_type'] = get_unique
        inputs = {}
        A = pystubs.new_ctype(ex, L, 4, F['CT_PRIMITIVE_SIGNED'], name=b'A')
        Bt = pystubs.new_ctype(ex, L, 8, F['CT_PRIMITIVE_SIGNED'], name=b'B')

        def pick(tag, choices):
            v = z3.BitVec(tag, 64)
            ex.assume(z3.Or(*[v == c for c in choices]))
            inputs[tag] = v
            return ex.concretize(v, 64, len(choices) + 1, tag)

        def keq(k1, k2):
            if len(k1) != len(k2):
                return z3.BoolVal(False)
            return z3.And(*[a == b for a, b in zip(k1, k2)])
        if kind == 'pointer':
            i1, i2 = pick('item1', [A, Bt]), pick('item2', [A, Bt])
            r1 = simp(ex.call('new_pointer_type', [i1]))
            r2 = simp(ex.call('new_pointer_type', [i2]))
            hutil.witness(chk, ex, label)
            okk = len(keys) == 2 and r1 != 0 and r2 != 0
            hutil.discharge(chk, ex, label + ':two-keys', okk, inputs, replay=replay)
            if okk:
                hutil.discharge(chk, ex, label + ':keys-equal-iff-same-item-type', keq(keys[0], keys[1]) == z3.BoolVal(i1 == i2), inputs, replay=replay)
        elif kind == 'array':
            size = z3.BitVec('itemsize', 64)
            ex.assume(z3.And(size >= 0, size <= 16))
            inputs['itemsize'] = size
            item = pystubs.new_ctype(ex, L, size, F['CT_PRIMITIVE_SIGNED'], name=b'I')
            item2 = pystubs.new_ctype(ex, L, size, F['CT_PRIMITIVE_SIGNED'], name=b'J')
            p1 = pystubs.new_ctype(ex, L, 8, F['CT_POINTER'], itemdescr=item, name=b'I *', name_position=3)
            p2 = pystubs.new_ctype(ex, L, 8, F['CT_POINTER'], itemdescr=item2, name=b'J *', name_position=3)
            q1, q2 = pick('ptr1', [p1, p2]), pick('ptr2', [p1, p2])
            n1, n2 = z3.BitVec('len1', 64), z3.BitVec('len2', 64)
            ex.assume(z3.And(n1 >= -2, n1 <= 1 << 40, n2 >= -2, n2 <= 1 << 40))
            inputs['len1'], inputs['len2'] = n1, n2
            # lengths are printed into the name: concretise them through the solver inside small windows, keep the item size symbolic
            ex.assume(z3.And(n1 <= 3, n2 <= 3))
            c1 = llsym.signed(ex.concretize(n1, 64, 8, 'len1'), 64)
            c2 = llsym.signed(ex.concretize(n2, 64, 8, 'len2'), 64)
            r1 = simp(ex.call('new_array_type', [q1, c1 & mask(64)]))
            r2 = simp(ex.call('new_array_type', [q2, c2 & mask(64)]))
            hutil.witness(chk, ex, label)
            okk = len(keys) == 2 and r1 != 0 and r2 != 0
            hutil.discharge(chk, ex, label + ':two-keys', okk, inputs, replay=replay)
            if okk:
                norm = lambda c: -1 if c < 0 else c          # every negative length means '[]'
                same = (q1 == q2) and norm(c1) == norm(c2)
                hutil.discharge(chk, ex, label + ':keys-equal-iff-same-item-and-length', keq(keys[0], keys[1]) == z3.BoolVal(bool(same)), inputs, replay=replay)
        else:   # function
            ex.stubs['fb_prepare_ctype'] = lambda e, fb, fargs, fres, ell, abi: (
                e.mem.store(simp(fb) + mod.struct_layout(('named', 'struct.funcbuilder_s'))[0][4], e.mem.load(simp(fargs) + 16, 8), 8),
                pystubs.new_ctype(e, L, 8, F['CT_FUNCTIONPTR'], name=b'fn'))[1]
            ex.stubs['fb_prepare_cif'] = lambda e, fargs, fres, n, abi: e.mem.alloc(64, 'cif', 'heap', fill=0).base
            pA = pystubs.new_ctype(ex, L, 8, F['CT_POINTER'], itemdescr=A, name=b'A *', name_position=3)
            arrA = pystubs.new_ctype(ex, L, 12, F['CT_ARRAY'], length=3, itemdescr=A, stuff=pA, name=b'A[3]', name_position=1)
            sigs = []
            for s_ in (1, 2):
                res = pick('result%d' % s_, [A, Bt])
                ell = z3.BitVec('ellipsis%d' % s_, 32)
                abi = z3.BitVec('abi%d' % s_, 32)
                ex.assume(z3.And(abi >= 0, abi <= 16))
                inputs['ellipsis%d' % s_], inputs['abi%d' % s_] = ell, abi
                n = pick('nargs%d' % s_, [0, 1, 2])
                a = [pick('arg%d_%d' % (s_, k), [A, pA, arrA]) for k in range(n)]
                sigs.append((res, ell, abi, a))
            rs = []
            for (res, ell, abi, a) in sigs:
                rs.append(simp(ex.call('new_function_type', [py.new_tuple(a), res, ell, abi])))
            hutil.witness(chk, ex, label)
            okk = len(keys) == 2 and all(r != 0 for r in rs) and py.exc is None
            hutil.discharge(chk, ex, label + ':two-keys', okk, inputs, replay=replay)
            if okk:
                decay = lambda t: pA if t == arrA else t
                n0 = (sigs[0][0], [decay(t) for t in sigs[0][3]])
                n1_ = (sigs[1][0], [decay(t) for t in sigs[1][3]])
                same = z3.And(z3.BoolVal(n0 == n1_), (sigs[0][1] != 0) == (sigs[1][1] != 0), sigs[0][2] == sigs[1][2])
                hutil.discharge(chk, ex, label + ':keys-equal-iff-same-signature', keq(keys[0], keys[1]) == same, inputs, replay=replay)

    res = ex.explore(h, max_paths=60000)
    hutil.finish_explore(chk, ex, res, label)
    chk.functions = irgen.func_info(mod, sorted(ex.called))
    return hutil.export(chk)


def dispatch(args):
    return {'get': get_worker, 'dealloc': dealloc_worker}.get(args[2], keys_worker)(args)


def run(chk):
    quick = chk.tier == 'quick'
    P = (chk.prop, chk.tier)
    cases = []
    for K in ((0, 1, 2) if quick else (0, 1, 2, 3, 4, 5)):
        for w in ((1, 2) if quick else (1, 2, 3)):
            cases.append(P + ('get', K, w))
            cases.append(P + ('dealloc', K, w))
    for kind in ('pointer', 'array', 'function'):
        cases.append(P + (kind,))
    chk.bounds = {'cache step': 'one get_unique_type / ctypedescr_dealloc from every INV state with <= %d other entries, keys of 1..%d words with symbolic bytes, each entry alive or dead' % ((2, 2) if quick else (5, 3)),
                  'keys': 'pairs of pointer / array (lengths -2..3, item size 0..16 symbolic) / function (result, abi, ellipsis, 0..2 arguments incl. an array argument) constructions'}
    chk.outside = ['model.global_cache of the in-line FFI (a Python-level memo in front of the same backend constructors)',
                   'CPython\'s dict and weakref implementations (contract stubs)', 'free-threaded build: the step is taken under LOCK_UNIQUE_CACHE',
                   'primitive and void keys (address of the static table row / of a literal: C06 checks the row is the one with the requested name)']
    chk.assume('INV is the representation invariant of unique_cache; PyObject_ClearWeakRefs kills exactly the weakrefs to the dying object')
    irgen.backend()
    hutil.run_cases(chk, cases, dispatch)
