"""C12 -- API-mode modules faithfully reflect the C source and detect mismatches (the checking kernels).

(1) integer constants: a module generated at run time by the working tree's Recompiler declares, for every
    integer type T, '#define K N' constants (checked: the cdef states a value) and 'static const T K;'
    constants (unchecked); in the C source K is an extern object, so the *compiler's* value is symbolic.
    llsym runs the generated _cffi_const_K together with the backend's realize_global_int: with a stated
    value an error (FFIError) is raised iff it differs from the compiler's value (sign included), otherwise
    -- and always for unchecked constants -- the Python int is exactly the compiler's value.
(2) struct layout: b_complete_struct_or_union_lock_held in "compiler-provided" mode (field offsets, total
    size and alignment as the C compiler reported them, symbolic): with the check flag the call fails
    (FFIError) iff some cdef-computed offset, the total size or the alignment differs from the compiler's;
    without it ('...') it never fails for consistent compiler data and records the compiler's numbers.
(3) detect_custom_layout itself: error iff flag and values differ.
"""
import os, sys, json, subprocess
import z3
from vf import common, irgen, llsym, pystubs, hutil
from vf.llsym import bv, simp, mask, is_c
from vf.pystubs import W, V_const
from harness.C01 import roundup, zmax

CTYPES = [('signed char', 1, True), ('short', 2, True), ('int', 4, True), ('long', 8, True), ('long long', 8, True),
          ('unsigned char', 1, False), ('unsigned short', 2, False), ('unsigned int', 4, False),
          ('unsigned long', 8, False), ('unsigned long long', 8, False)]
CDEF_VALUES = [42, -5, 0]

REPLAY = r'''
# Replay for C12 on the real build: a module whose cdef states one value and whose C source has another.
import sys, os, json, tempfile, shutil, importlib
import cffi
case = json.loads(%r)
tmp = tempfile.mkdtemp(prefix='verif-c12-')
bad = []
try:
    ffi = cffi.FFI()
    if case['checked']:
        ffi.cdef('#define K %%d' %% case['cdef'])
    else:
        ffi.cdef('static const %%s K;' %% case['ctype'])
    ffi.set_source('_verif_c12_replay', 'static const %%s K_value = (%%s)%%dULL;\n#define K K_value' %% (case['ctype'], case['ctype'], case['compiler'] & (2**64 - 1)))
    ffi.compile(tmpdir=tmp)
    sys.path.insert(0, tmp)
    m = importlib.import_module('_verif_c12_replay')
    real = case['compiler']
    agree = (not case['checked']) or real == case['cdef']
    try:
        v = m.lib.K
        if not agree: bad.append('lib.K == %%r although the cdef says %%r and the compiler %%r' %% (v, case['cdef'], real))
        elif v != real: bad.append('lib.K == %%r, the compiler says %%r' %% (v, real))
    except m.ffi.error as e:
        if agree: bad.append('lib.K raises although cdef and compiler agree: %%s' %% e)
    try:
        t = m.ffi.typeof('int[K]')
        if not agree or real < 0: bad.append('typeof("int[K]") accepted (length %%r); cdef %%r, compiler %%r' %% (t.length, case.get('cdef'), real))
        elif t.length != real: bad.append('typeof("int[K]").length == %%r, compiler says %%r' %% (t.length, real))
    except m.ffi.error as e:
        if agree and 0 <= real < 2**63: bad.append('typeof("int[K]") raises although the value is usable: %%s' %% e)
finally:
    shutil.rmtree(tmp, ignore_errors=True)
for b in bad: print('VIOLATED:', b)
sys.exit(1 if bad else 0)
'''


def make_replay(chk, t, size, sg, checked, cdef):
    def replay(case):
        raw = case.get('compiler_value', 0)
        c = {'ctype': t, 'checked': checked, 'cdef': cdef, 'compiler': llsym.signed(raw, 8 * size) if sg else raw}
        path = chk.write_replay('const', REPLAY % json.dumps(c))
        rc, out = common.run_replay(path, timeout=300)
        return common.replay_verdict(rc, out), path
    return replay


_gen = None


def generated_module():
    global _gen
    if _gen is not None:
        return _gen
    sd = common.scratch_dir()
    cdef, src = [], []
    for i, (t, size, sg) in enumerate(CTYPES):
        src.append('extern %s sym_%d;' % (t, i))
        for j, v in enumerate(CDEF_VALUES):
            cdef.append('#define K%d_%d %d' % (i, j, v))
            src.append('#define K%d_%d sym_%d' % (i, j, i))
        cdef.append('static const %s U%d;' % (t, i))
        src.append('#define U%d sym_%d' % (i, i))
    cdef.append('enum en { EA = 7, EB = -3 };')
    src.append('extern int sym_ea, sym_eb;\n#define EA sym_ea\n#define EB sym_eb\nenum en { EN_DUMMY };')
    code = '''
import sys
sys.path.insert(0, %r)
import cffi
ffi = cffi.FFI()
ffi.cdef(%r)
ffi.set_source('_verif_c12', %r)
ffi.emit_c_code(%r)
''' % (os.path.join(common.REPO, 'src'), '\n'.join(cdef), '\n'.join(src), os.path.join(sd, '_verif_c12.c'))
    r = subprocess.run(['/venv/bin/python', '-c', code], stdout=subprocess.PIPE, stderr=subprocess.STDOUT)
    if r.returncode != 0:
        raise common.Inconclusive('Recompiler failed on the constant family:\n' + r.stdout.decode()[-1500:])
    _gen = irgen.compile_ir(os.path.join(sd, '_verif_c12.c'), '_verif_c12', extra_flags=['-I' + os.path.join(common.REPO, 'src/cffi')])
    return _gen


def install_ffierror(ex):
    obj = ex.mem.alloc(64, 'exc:FFIError', 'pyobj', fill=0)
    ex.mem.store(obj.base, 1 << 32, 8)
    ex.mem.store(ex.gaddr('FFIError'), obj.base, 8)


def const_worker(args):
    prop, tier, kind, i, j = args
    chk = hutil.sub_check(prop, tier)
    back = irgen.backend()
    gen = generated_module()
    t, size, sg = CTYPES[i]
    checked = j is not None
    cname = ('K%d_%d' % (i, j)) if checked else ('U%d' % i)
    label = 'constant:%s:%s' % (t, ('cdef=%d' % CDEF_VALUES[j]) if checked else 'unchecked')
    replay = make_replay(chk, t, size, sg, checked, CDEF_VALUES[j] if checked else None)

    def ext(ex, name, g, m):
        if name.startswith('sym_'):
            k = int(name[4:]) if name[4:].isdigit() else None
            sz = CTYPES[k][1] if k is not None else 4
            r = ex.mem.alloc(sz, '@' + name, 'global')
            ex.mem.store(r.base, z3.BitVec('compiler_value', 8 * sz), sz)
            return r
        return pystubs.extern_global(ex, name, g, m)
    st = pystubs.stubs()
    st['@*'] = ext
    # message formatting only: the text goes to PyErr_Format (formatting is not the subject)
    st['sprintf'] = lambda e, dst, fmt, *a: (e.mem.store(dst, 0, 1), 0)[1]
    ex = llsym.Executor([gen, back], st, loop_bound=16)
    bl = back.struct_layout(('named', 'struct.builder_c_t'))
    ctxl = back.struct_layout(('named', 'struct._cffi_type_context_s'))
    gl = back.struct_layout(('named', 'struct._cffi_global_s'))

    def h(ex):
        py = pystubs.PyEnv(ex)
        install_ffierror(ex)
        C = z3.BitVec('compiler_value', 8 * size)
        cv = z3.SignExt(W - 8 * size, C) if sg else z3.ZeroExt(W - 8 * size, C)
        builder = ex.mem.alloc(bl[1], 'builder', 'heap', fill=0)
        globs = ex.mem.alloc(gl[1], 'globals[1]', 'heap', fill=0)
        nm = ex.mem.alloc(8, 'name', 'heap', fill=0)
        ex.mem.store(globs.base + gl[0][0], nm.base, 8)
        ex.mem.store(globs.base + gl[0][1], ex.faddr('_cffi_const_' + cname), 8)
        ex.mem.store(builder.base + bl[0][0] + ctxl[0][1], globs.base, 8)      # ctx.globals
        ex.mem.store(builder.base + bl[0][0] + ctxl[0][6], 1, 4)               # ctx.num_globals
        r = simp(ex.call('realize_global_int', [builder.base, 0]))
        inputs = {'compiler_value': C}
        if checked:
            differs = cv != V_const(CDEF_VALUES[j])
            if is_c(r) and r == 0:
                hutil.witness(chk, ex, label + ':error')
                hutil.discharge(chk, ex, label + ':error=>values-differ', differs, inputs, replay=replay)
                hutil.discharge(chk, ex, label + ':error-is-FFIError', py.exc == 'FFIError', inputs, replay=replay)
            else:
                hutil.witness(chk, ex, label + ':value')
                hutil.discharge(chk, ex, label + ':no-error=>values-agree', z3.Not(differs), inputs, replay=replay)
                hutil.discharge(chk, ex, label + ':value==compiler-value', py.info(r)['V'] == cv, inputs, replay=replay)
        else:
            hutil.witness(chk, ex, label)
            okk = is_c(r) and r != 0 and py.exc is None
            hutil.discharge(chk, ex, label + ':never-an-error', okk, inputs, replay=replay)
            if okk:
                hutil.discharge(chk, ex, label + ':value==compiler-value', py.info(r)['V'] == cv, inputs, replay=replay)

    res = ex.explore(h, max_paths=500)
    hutil.finish_explore(chk, ex, res, label)
    chk.functions = irgen.func_info(gen, sorted(ex.called)) + irgen.func_info(back, sorted(ex.called))
    return hutil.export(chk)


def struct_worker(args):
    prop, tier, kind, N, check = args
    chk = hutil.sub_check(prop, tier)
    mod = irgen.backend()
    L = pystubs.CffiLayout(mod)
    F = L.flags
    label = 'struct-%d-fields-%s' % (N, 'checked' if check else 'dotdotdot')

    def parse(ex, item, fmt, *outs):
        g = ex.ghost
        f = g['fields'][g['item_index'][simp(item)]]
        ex.mem.store(outs[1], f['fname'], 8)
        ex.mem.store(outs[3], f['ctype'], 8)
        ex.mem.store(outs[4], mask(32), 4)
        ex.mem.store(outs[5], f['foffset'], 8)
        return 1

    def add_field(ex, interned, fname, ftype, offset, bitshift, bitsize, flags):
        ex.ghost['added'].append({'offset': offset, 'ftype': simp(ftype)})
        return pystubs.new_cfield(ex, L, ftype, offset, 0, 0)
    st = pystubs.stubs(_PyArg_ParseTuple_SizeT=parse, _add_field=add_field,
                       PyDict_New=lambda ex: pystubs.py(ex).new_opaque('dict'))
    ex = llsym.Executor(mod, st, loop_bound=N + 3, solver_timeout_ms=120000)

    def h(ex):
        py = pystubs.PyEnv(ex)
        install_ffierror(ex)
        g = ex.ghost
        g['added'] = []
        fields = []
        sizes, aligns, foffs = [], [], []
        for i in range(N):
            size = z3.BitVec('size%d' % i, 64)
            ex.assume(z3.Or(*[size == (1 << k) for k in range(4)]))
            fo = z3.BitVec('compiler_offset%d' % i, 64)
            ex.assume(z3.And(fo >= 0, fo <= 4096))
            ct = pystubs.new_ctype(ex, L, size, F['CT_PRIMITIVE_SIGNED'], length=size)
            fields.append({'fname': py.new_unicode([ord('a') + i], 1), 'ctype': ct, 'foffset': fo})
            sizes.append(size)
            aligns.append(size)
            foffs.append(fo)
        tsize = z3.BitVec('compiler_sizeof', 64)
        talign = z3.BitVec('compiler_alignof', 32)
        ex.assume(z3.And(tsize >= 0, tsize <= 8192, talign >= 1, talign <= 64))
        items = [py.new_opaque('field-tuple') for _ in range(N)]
        g['fields'] = fields
        g['item_index'] = dict((it, i) for i, it in enumerate(items))
        lst = py.new_list(items)
        sct = pystubs.new_ctype(ex, L, mask(64), F['CT_STRUCT'], length=mask(64))
        ex.mem.store(sct + L.ct['ct_unrealized_struct_or_union'], 1, 1)
        sflags = F['SF_STD_FIELD_POS'] if check else 0
        r = simp(ex.call('b_complete_struct_or_union_lock_held', [sct, lst, tsize, talign, sflags, 0]))
        # what the cdef alone implies, given the compiler's previous positions
        B = lambda v: z3.BitVecVal(v, 64)
        pos, amax, endmax = B(0), B(1), B(0)
        agree = []
        for i in range(N):
            want = roundup(pos, aligns[i])
            agree.append(want == foffs[i])
            pos = foffs[i] + sizes[i]
            endmax = zmax(endmax, pos)
            amax = zmax(amax, aligns[i])
        wsize = roundup(endmax, amax)
        wsize = z3.If(wsize == 0, B(1), wsize)
        agree.append(wsize == tsize)
        agree.append(amax == z3.ZeroExt(32, talign))
        all_agree = z3.And(*agree)
        inputs = {'compiler_sizeof': tsize, 'compiler_alignof': talign}
        for i in range(N):
            inputs['size%d' % i] = sizes[i]
            inputs['compiler_offset%d' % i] = foffs[i]
        ok = is_c(r) and r != 0 and py.exc is None
        if check:
            if ok:
                hutil.witness(chk, ex, label + ':accepted')
                hutil.discharge(chk, ex, label + ':accepted=>cdef-agrees-with-compiler', all_agree, inputs)
            else:
                hutil.witness(chk, ex, label + ':rejected')
                consistent = z3.UGE(tsize, endmax)     # the compiler never reports a size smaller than its own fields
                hutil.discharge(chk, ex, label + ':rejected=>some-number-differs', z3.Or(z3.Not(all_agree), z3.Not(consistent)), inputs)
                hutil.discharge(chk, ex, label + ':rejected-with-FFIError-when-compiler-data-is-consistent',
                                z3.Or(z3.BoolVal(py.exc == 'FFIError'), z3.Not(consistent)), inputs)
        else:
            consistent = z3.UGE(tsize, endmax)
            if ok:
                hutil.witness(chk, ex, label + ':accepted')
                added = g['added']
                okf = len(added) == N
                hutil.discharge(chk, ex, label + ':all-fields-recorded', okf, inputs)
                if okf:
                    hutil.discharge(chk, ex, label + ':offsets==compiler-offsets',
                                    z3.And(*[bv(a['offset'], 64) == fo for a, fo in zip(added, foffs)]) if N else True, inputs)
                hutil.discharge(chk, ex, label + ':sizeof==compiler-sizeof', bv(ex.mem.load(sct + L.ct['ct_size'], 8), 64) == tsize, inputs)
                hutil.discharge(chk, ex, label + ':alignof==compiler-alignof',
                                bv(ex.mem.load(sct + L.ct['ct_length'], 8), 64) == z3.ZeroExt(32, talign), inputs)
                fm = bv(ex.mem.load(sct + L.ct['ct_flags_mut'], 4), 32)
                hutil.discharge(chk, ex, label + ':custom-layout-flag-iff-differs', ((fm & F['CT_CUSTOM_FIELD_POS']) != 0) == z3.Not(all_agree), inputs)
            else:
                hutil.witness(chk, ex, label + ':rejected')
                hutil.discharge(chk, ex, label + ':rejected=>inconsistent-compiler-data', z3.Not(consistent), inputs)

    res = ex.explore(h, max_paths=20000)
    hutil.finish_explore(chk, ex, res, label)
    chk.functions = irgen.func_info(mod, sorted(ex.called))
    return hutil.export(chk)


def detect_worker(args):
    prop, tier, kind = args
    chk = hutil.sub_check(prop, tier)
    mod = irgen.backend()
    L = pystubs.CffiLayout(mod)
    F = L.flags
    ex = llsym.Executor(mod, pystubs.stubs(), loop_bound=8)
    label = 'detect_custom_layout'

    def h(ex):
        py = pystubs.PyEnv(ex)
        install_ffierror(ex)
        a, b = z3.BitVec('cdef_value', 64), z3.BitVec('compiler_value', 64)
        fl = z3.BitVec('sflags', 32)
        ct = pystubs.new_ctype(ex, L, 8, F['CT_STRUCT'])
        msg = ex.mem.alloc(4, 'msg', 'heap', fill=0)
        r = simp(ex.call('detect_custom_layout', [ct, fl, a, b, msg.base, msg.base, msg.base]))
        r = ex.concretize(r, 32, 4, 'result') if not is_c(r) else r
        inputs = {'cdef_value': a, 'compiler_value': b, 'sflags': fl}
        strict = (fl & F['SF_STD_FIELD_POS']) != 0
        hutil.witness(chk, ex, label + (':error' if r else ':ok'))
        if r:
            hutil.discharge(chk, ex, label + ':error=>checked-and-different', z3.And(strict, a != b), inputs)
            hutil.discharge(chk, ex, label + ':error-is-FFIError', py.exc == 'FFIError', inputs)
        else:
            hutil.discharge(chk, ex, label + ':ok=>equal-or-unchecked', z3.Or(a == b, z3.Not(strict)), inputs)
            fm = bv(ex.mem.load(ct + L.ct['ct_flags_mut'], 4), 32)
            hutil.discharge(chk, ex, label + ':custom-flag-iff-different', ((fm & F['CT_CUSTOM_FIELD_POS']) != 0) == (a != b), inputs)

    res = ex.explore(h, max_paths=100)
    hutil.finish_explore(chk, ex, res, label)
    chk.functions = irgen.func_info(mod, sorted(ex.called))
    return hutil.export(chk)


def arraylen_worker(args):
    """the same constants used as an array length in a type string: parse_c_type's own decoding of the getter"""
    prop, tier, kind, i, j = args
    chk = hutil.sub_check(prop, tier)
    back = irgen.backend()
    gen = generated_module()
    t, size, sg = CTYPES[i]
    checked = j is not None
    cname = ('K%d_%d' % (i, j)) if checked else ('U%d' % i)
    label = 'array-length:%s:%s' % (t, ('cdef=%d' % CDEF_VALUES[j]) if checked else 'unchecked')
    replay = make_replay(chk, t, size, sg, checked, CDEF_VALUES[j] if checked else None)
    sys.path.insert(0, os.path.join(common.REPO, 'src'))
    from cffi import cffi_opcode

    def ext(ex, name, g, m):
        if name.startswith('sym_'):
            k = int(name[4:]) if name[4:].isdigit() else None
            sz = CTYPES[k][1] if k is not None else 4
            r = ex.mem.alloc(sz, '@' + name, 'global')
            ex.mem.store(r.base, z3.BitVec('compiler_value', 8 * sz), sz)
            return r
        return pystubs.extern_global(ex, name, g, m)
    st = pystubs.stubs()
    st['@*'] = ext
    st['sprintf'] = lambda e, dst, fmt, *a: (e.mem.store(dst, 0, 1), 0)[1]
    ex = llsym.Executor([gen, back], st, loop_bound=32)
    ctxl = back.struct_layout(('named', 'struct._cffi_type_context_s'))
    gl = back.struct_layout(('named', 'struct._cffi_global_s'))
    info_l = back.struct_layout(('named', 'struct._cffi_parse_info_s'))

    def h(ex):
        mem = ex.mem
        C = z3.BitVec('compiler_value', 8 * size)
        cv = z3.SignExt(W - 8 * size, C) if sg else z3.ZeroExt(W - 8 * size, C)
        globs = mem.alloc(gl[1], 'globals[1]', 'heap', fill=0)
        nm = mem.alloc(len(cname) + 1, 'name', 'heap', fill=0)
        for k, ch in enumerate(cname.encode()):
            mem.store(nm.base + k, ch, 1)
        mem.store(globs.base + gl[0][0], nm.base, 8)
        mem.store(globs.base + gl[0][1], ex.faddr('_cffi_const_' + cname), 8)
        mem.store(globs.base + gl[0][2], cffi_opcode.OP_CONSTANT_INT, 8)
        ctx = mem.alloc(ctxl[1], 'type context', 'heap', fill=0)
        mem.store(ctx.base + ctxl[0][1], globs.base, 8)
        mem.store(ctx.base + ctxl[0][6], 1, 4)
        text = ('int[%s]' % cname).encode()
        inp = mem.alloc(len(text) + 1, 'type string', 'input')
        for k, ch in enumerate(text):
            mem.store(inp.base + k, ch, 1)
        mem.store(inp.base + len(text), 0, 1)
        outp = mem.alloc(8 * 8, 'output opcodes', 'input')
        info = mem.alloc(info_l[1], 'parse info', 'heap', fill=0)
        mem.store(info.base + info_l[0][0], ctx.base, 8)
        mem.store(info.base + info_l[0][1], outp.base, 8)
        mem.store(info.base + info_l[0][2], 8, 4)
        r = simp(ex.call('parse_c_type', [info.base, inp.base]))
        r = ex.concretize(r, 32, 16, 'result') if not is_c(r) else r
        rs = llsym.signed(r, 32)
        inputs = {'compiler_value': C}
        agrees = (cv == V_const(CDEF_VALUES[j])) if checked else z3.BoolVal(True)
        usable = z3.And(agrees, cv >= 0)
        if rs >= 0:
            hutil.witness(chk, ex, label + ':accepted')
            hutil.discharge(chk, ex, label + ':accepted=>cdef-agrees-and-nonnegative', usable, inputs, replay=replay)
            op = simp(mem.load(outp.base + 8 * rs, 8))
            okop = is_c(op) and (op & 255) == cffi_opcode.OP_ARRAY
            hutil.discharge(chk, ex, label + ':accepted=>array-opcode', okop, inputs, replay=replay)
            if okop:
                ln = bv(mem.load(outp.base + 8 * (rs + 1), 8), 64)
                hutil.discharge(chk, ex, label + ':length==compiler-value', z3.SignExt(W - 64, ln) == cv, inputs, replay=replay)
        else:
            hutil.witness(chk, ex, label + ':rejected')
            hutil.discharge(chk, ex, label + ':rejected=>disagreement-or-negative-or-too-large',
                            z3.Or(z3.Not(usable), cv > V_const((1 << 63) - 1)), inputs)

    res = ex.explore(h, max_paths=500)
    hutil.finish_explore(chk, ex, res, label)
    chk.functions = irgen.func_info(gen, sorted(ex.called)) + irgen.func_info(back, sorted(ex.called))
    return hutil.export(chk)


LAZY_REPLAY = r'''
# Replay for C12 (struct checks through the real module machinery): a struct declared without "..." whose layout
# differs from the C source must be refused when first used -- for plain and for packed=True cdefs; with "..." the
# compiler's layout is taken.
import sys, os, tempfile, shutil, importlib
import cffi
tmp = tempfile.mkdtemp(prefix='verif-c12-')
bad = []
try:
    n = 0
    for packed in (False, True):
        for dots in (False, True):
            n += 1
            ffi = cffi.FFI()
            ffi.cdef('struct s { char a; int b; %s};' % ('...; ' if dots else ''), packed=packed)
            csrc = 'struct s { char a; int b; };' if packed else 'struct s { char a; long long pad; int b; };'
            name = '_verif_c12_lazy%d' % n
            ffi.set_source(name, csrc)
            ffi.compile(tmpdir=tmp)
            sys.path.insert(0, tmp)
            m = importlib.import_module(name)
            try:
                p = m.ffi.new('struct s *')
                size = m.ffi.sizeof('struct s')
                if not dots:
                    bad.append('packed=%r: layout mismatch not reported (sizeof %d)' % (packed, size))
                elif size != (8 if packed else 24):
                    bad.append('packed=%r with "...": sizeof %d is not the compiler\'s' % (packed, size))
            except m.ffi.error:
                if dots:
                    bad.append('packed=%r with "...": refused although the layout is to be taken from the compiler' % packed)
finally:
    shutil.rmtree(tmp, ignore_errors=True)
for b in bad: print('VIOLATED:', b)
sys.exit(1 if bad else 0)
'''


def lazy_worker(args):
    """do_realize_lazy_struct: the flags of the module's struct entry decide how the compiler's numbers are treated"""
    prop, tier, kind = args
    chk = hutil.sub_check(prop, tier)
    mod = irgen.backend()
    L = pystubs.CffiLayout(mod)
    F = L.flags
    sys.path.insert(0, os.path.join(common.REPO, 'src'))
    from cffi import cffi_opcode
    label = 'do_realize_lazy_struct'

    def replay(case):
        path = chk.write_replay('lazy', LAZY_REPLAY)
        rc, out = common.run_replay(path, timeout=600)
        return common.replay_verdict(rc, out), path
    bl = mod.struct_layout(('named', 'struct.builder_c_t'))
    ctxl = mod.struct_layout(('named', 'struct._cffi_type_context_s'))
    sul = mod.struct_layout(('named', 'struct._cffi_struct_union_s'))
    fl = mod.struct_layout(('named', 'struct._cffi_field_s'))
    ex = llsym.Executor(mod, pystubs.stubs(), loop_bound=16)

    def h(ex):
        py = pystubs.PyEnv(ex)
        install_ffierror(ex)
        mem = ex.mem
        flags = z3.BitVec('struct_flags', 32)
        ex.assume((flags & ~(cffi_opcode.F_CHECK_FIELDS | cffi_opcode.F_PACKED)) == 0)
        csize, calign = z3.BitVec('compiler_sizeof', 64), z3.BitVec('compiler_alignof', 32)
        foff, fsize = z3.BitVec('compiler_field_offset', 64), z3.BitVec('compiler_field_size', 64)
        realsize = z3.BitVec('cdef_field_type_size', 64)
        ex.assume(z3.And(realsize >= 1, realsize <= 16, fsize >= 0, fsize <= 64, foff >= 0, foff <= 64))
        inputs = {'struct_flags': flags, 'compiler_sizeof': csize, 'compiler_alignof': calign, 'compiler_field_offset': foff,
                  'compiler_field_size': fsize, 'cdef_field_type_size': realsize}
        name_s = mem.alloc(2, 'name "s"', 'heap', fill=0)
        mem.store(name_s.base, ord('s'), 1)
        name_f = mem.alloc(2, 'name "f"', 'heap', fill=0)
        mem.store(name_f.base, ord('f'), 1)
        su = mem.alloc(sul[1], 'struct_unions[1]', 'heap', fill=0)
        mem.store(su.base + sul[0][0], name_s.base, 8)
        mem.store(su.base + sul[0][2], flags, 4)
        mem.store(su.base + sul[0][3], csize, 8)
        mem.store(su.base + sul[0][4], calign, 4)
        mem.store(su.base + sul[0][5], 0, 4)
        mem.store(su.base + sul[0][6], 1, 4)
        fld = mem.alloc(fl[1], 'fields[1]', 'heap', fill=0)
        mem.store(fld.base + fl[0][0], name_f.base, 8)
        mem.store(fld.base + fl[0][1], foff, 8)
        mem.store(fld.base + fl[0][2], fsize, 8)
        mem.store(fld.base + fl[0][3], cffi_opcode.OP_NOOP, 8)
        builder = mem.alloc(bl[1], 'builder', 'heap', fill=0)
        mem.store(builder.base + bl[0][0] + ctxl[0][3], su.base, 8)
        mem.store(builder.base + bl[0][0] + ctxl[0][2], fld.base, 8)
        mem.store(builder.base + bl[0][0] + ctxl[0][7], 1, 4)
        ct = pystubs.new_ctype(ex, L, mask(64), F['CT_STRUCT'], length=mask(64), extra=builder.base, name=b'struct s')
        mem.store(ct + L.ct['ct_lazy_field_list'], 1, 1)
        ftype = pystubs.new_ctype(ex, L, realsize, F['CT_PRIMITIVE_SIGNED'], length=realsize)
        calls = []

        def complete(e, ct_, fields, tsize, talign, sflags, pack):
            calls.append((simp(fields), tsize, talign, sflags, pack))
            e.mem.store(simp(ct_) + L.ct['ct_stuff'], py.new_opaque('dict'), 8)
            return e.gaddr('_Py_NoneStruct')
        ex.stubs.update({'realize_c_type': lambda e, b, ops, idx: ftype, 'b_complete_struct_or_union_lock_held': complete,
                         'Py_BuildValue': lambda e, fmt, *a: py.new_opaque('field-tuple', args=[simp(x) for x in a]),
                         '_Py_BuildValue_SizeT': lambda e, fmt, *a: py.new_opaque('field-tuple', args=[simp(x) for x in a])})
        r = simp(ex.call('do_realize_lazy_struct_lock_held', [ct]))
        r = ex.concretize(r, 32, 4, 'result') if not is_c(r) else r
        ok = llsym.signed(r, 32) == 1
        hutil.witness(chk, ex, label + (':completed' if ok else ':rejected'))
        D = lambda nm, c: hutil.discharge(chk, ex, label + ':' + nm, c, inputs, replay=replay)
        if not ok:
            D('rejected=>field-size-differs', fsize != realsize)
            D('rejected-with-FFIError', py.exc == 'FFIError')
            D('rejected=>layout-not-completed', not calls)
            return
        D('completed=>field-size-agrees', fsize == realsize)
        okc = len(calls) == 1
        D('completed-once', okc)
        if not okc:
            return
        fields, tsize, talign, sflags, pack = calls[0]
        sf = bv(sflags, 32)
        D('offsets-checked-iff-declared-without-dotdotdot', ((sf & F['SF_STD_FIELD_POS']) != 0) == ((flags & cffi_opcode.F_CHECK_FIELDS) != 0))
        D('packed-iff-declared-packed', ((sf & F['SF_PACKED']) != 0) == ((flags & cffi_opcode.F_PACKED) != 0))
        D('no-other-layout-flag', (sf & ~(F['SF_STD_FIELD_POS'] | F['SF_PACKED'])) == 0)
        D('compiler-sizeof-and-alignof-handed-over', z3.And(bv(tsize, 64) == csize, bv(talign, 32) == calign))
        items = py.info(fields).get('items', [])
        a = py.info(simp(ex.mem.load(py.info(fields)['arr'].base, 8))).get('args') if 'arr' in py.info(fields) else None
        okf = a is not None and len(a) == 4
        D('one-field-tuple', okf)
        if okf:
            D('field-tuple==(name, type, no-bit-width, compiler-offset)',
              z3.And(z3.BoolVal(a[0] == name_f.base and a[1] == ftype), bv(a[2], 32) == mask(32), bv(a[3], 64) == foff))

    res = ex.explore(h, max_paths=500)
    hutil.finish_explore(chk, ex, res, label)
    chk.functions = irgen.func_info(mod, sorted(ex.called))
    return hutil.export(chk)


ENUM_REPLAY = r"""
# Replay for C12: the integer type of an enum in an API-mode module is the C compiler's, also for a typedef'd anonymous enum
# whose real definition has enumerators the cdef does not list.
import sys, os, tempfile, atexit, shutil, importlib
import cffi
d = tempfile.mkdtemp(); atexit.register(shutil.rmtree, d, True)
sys.path.insert(0, d)
ffi = cffi.FFI()
ffi.cdef("typedef enum { LV_A, LV_B, ... } level_t; typedef enum { PK_A, PK_B } packed_t; enum named_e { NM_A, NM_B, ... }; "
         "int sizeof_level(void); int sizeof_packed(void); int sizeof_named(void); level_t lowest(void);")
ffi.set_source('_c12_enum_replay',
    "typedef enum { LV_LOW = -5, LV_A = 0, LV_B = 1 } level_t;\n"
    "typedef enum { PK_A, PK_B } __attribute__((packed)) packed_t;\n"
    "enum named_e { NM_A, NM_B, NM_BIG = 0x100000000LL };\n"
    "static int sizeof_level(void) { return sizeof(level_t); }\n"
    "static int sizeof_packed(void) { return sizeof(packed_t); }\n"
    "static int sizeof_named(void) { return sizeof(enum named_e); }\n"
    "static level_t lowest(void) { return LV_LOW; }\n")
ffi.compile(tmpdir=d)
m = importlib.import_module('_c12_enum_replay')
ffi, lib = m.ffi, m.lib
bad = []
for t, f in (('level_t', lib.sizeof_level), ('packed_t', lib.sizeof_packed), ('enum named_e', lib.sizeof_named)):
    if ffi.sizeof(t) != f():
        bad.append('sizeof(%s) is %d for cffi and %d for the compiler' % (t, ffi.sizeof(t), f()))
if int(ffi.cast('level_t', -5)) != -5:
    bad.append('level_t is signed for the compiler, cast(-5) gives %d' % int(ffi.cast('level_t', -5)))
if int(ffi.cast('int', lib.lowest())) != -5:
    bad.append('a C function returning LV_LOW (-5) gives %r' % (lib.lowest(),))
for b in bad: print('VIOLATED:', b)
sys.exit(1 if bad else 0)
"""


def enumsrc_worker(args):
    """where the generated C module gets an enum's size and signedness from: whenever the enum has a C name (a tag, or the
    typedef name of an anonymous enum) it must be the compiler (sizeof(name), ((name)-1) <= 0), never a guess from the
    enumerators the cdef happens to list.  Structural check on the real Recompiler's table (concrete), replayed by compiling."""
    prop, tier, kind = args
    chk = hutil.sub_check(prop, tier)
    sys.path.insert(0, os.path.join(common.REPO, 'src'))
    import cffi
    from cffi import recompiler
    label = 'enum-size-source'
    ffi = cffi.FFI()
    ffi.cdef("enum named_e { NM_A, NM_B }; typedef enum { TD_A, TD_B } tdef_t; typedef enum { PT_A, PT_B, ... } part_t; "
             "typedef enum tagged_e { TG_A = -1 } tagged_t; struct holder { enum { AN_A, AN_B } anon_field; };")
    r = recompiler.Recompiler(ffi, '_c12_enumsrc', target_is_python=False)
    r.collect_type_table()
    r.collect_step_tables()
    want = {'named_e': ['enum named_e'], '$tdef_t': ['tdef_t'], '$part_t': ['part_t'], 'tagged_e': ['tagged_t', 'enum tagged_e']}
    problems, seen = [], set()
    for e in r._lsts['enum']:
        seen.add(e.name)
        cnames = want.get(e.name)
        if cnames is None:
            continue           # an enum without any C name: nothing to ask the compiler about
        ok_size = str(e.size) in ['sizeof(%s)' % c for c in cnames]
        ok_sign = str(e.signed) in ['((%s)-1) <= 0' % c for c in cnames]
        if not (ok_size and ok_sign):
            problems.append('enum %r (C name %r): size taken from %r, signedness from %r' % (e.name, cnames[0], e.size, e.signed))
    for n in want:
        if n not in seen:
            problems.append('enum %r missing from the table' % n)
    chk.witness(label)
    if problems:
        chk.query(label + ':size-and-sign-come-from-the-compiler', 'sat', 0.0, detail='; '.join(problems)[:300])
        path = chk.write_replay('enumsrc', ENUM_REPLAY)
        try:
            rc, out = common.run_replay(path, timeout=600)
            ok = common.replay_verdict(rc, out)
        except Exception:
            ok = None
        chk.report_failure('%s: %s' % (label, '; '.join(problems)), {}, path, ok)
    else:
        chk.query(label + ':size-and-sign-come-from-the-compiler', 'unsat', 0.0)
    chk.functions = [{'name': 'Recompiler._enum_ctx', 'file': 'src/cffi/recompiler.py'}]
    return hutil.export(chk)


def dispatch(args):
    if args[2] == 'enumsrc':
        return enumsrc_worker(args)
    return {'lazy': lazy_worker, 'arraylen': arraylen_worker, 'const': const_worker, 'struct': struct_worker, 'detect': detect_worker}[args[2]](args)


def run(chk):
    quick = chk.tier == 'quick'
    P = (chk.prop, chk.tier)
    cases = []
    for i in range(len(CTYPES)):
        for j in range(len(CDEF_VALUES)):
            cases.append(P + ('const', i, j))
        cases.append(P + ('const', i, None))
    for i in (0, 2, 4, 5, 7, 9):
        for j in (0, 1, 2, None):
            cases.append(P + ('arraylen', i, j))
    for N in range(0, 3 if quick else 6):
        cases.append(P + ('struct', N, True))
        cases.append(P + ('struct', N, False))
    cases.append(P + ('detect',))
    cases.append(P + ('lazy',))
    cases.append(P + ('enumsrc',))
    chk.bounds = {'integer constants': '%d integer types x cdef values %r x every compiler value; unchecked constants of every type' % (len(CTYPES), CDEF_VALUES),
                  'constants as array lengths': 'parse_c_type("int[K]") for 6 of the types x cdef values / unchecked x every compiler value',
                  'struct checks': '0..%d primitive fields of symbolic size, every compiler-reported offset (<= 4096), sizeof, alignof' % (2 if quick else 5)}
    chk.outside = ['functions and global variables of the module (call plumbing: C13), import machinery',
                   'structs with several fields in do_realize_lazy_struct (one loop body per field)',
                   'enum constants (same _cffi_const_ generator; the enum family is compiled but only constants are executed); where an enum\'s '
                   'size/signedness comes from is a structural check on the generator (enum-size-source), not a solver query']
    chk.assume('the module is generated at run time by the working tree\'s Recompiler; the C compiler\'s values are symbolic memory')
    irgen.backend()
    generated_module()
    hutil.run_cases(chk, cases, dispatch)
