"""C14 -- callbacks and extern "Python" pass values exactly and contain errors.

llsym on the real IR:
 (a) prepare_callback_info_tuple + general_invoke_callback + convert_from_object_fficallback +
     convert_to_object / convert_from_object, in both decoding modes (libffi: void*[] to exact-size cells;
     extern "Python": 8-byte slots), for signatures over the integer types, double and float with 0..2
     arguments, a symbolic error= value, with and without onerror=.
     The Python function is a stub with every behaviour: returns an int/float (any value, so out-of-range
     included), returns an unconvertible object, raises.  onerror returns None, a value, an unconvertible
     value, or raises.
     Obligations: the Python function receives exactly the C argument values; a convertible result reaches
     C exactly (and, through libffi, widened to a whole ffi_arg); otherwise C receives the declared error
     value (zeros without error=), or onerror's value when it returns a convertible one; in every case no
     exception is pending when control returns to C, and every swallowed exception was reported.
 (b) the wrappers generated at run time by the working tree's Recompiler for extern "Python" functions,
     executed together with cffi_call_python and (a): the C caller's arguments reach Python exactly and
     the C caller receives exactly the converted result / error value.
"""
import os, sys, json, subprocess
import z3
from vf import common, irgen, llsym, pystubs, hutil
from vf.llsym import bv, simp, mask, is_c
from vf.pystubs import W, V_const

INTS = [('signed char', 1, True), ('short', 2, True), ('int', 4, True), ('long', 8, True),
        ('unsigned char', 1, False), ('unsigned short', 2, False), ('unsigned int', 4, False), ('unsigned long', 8, False)]
TYPES = dict((t, ('int', s, sg)) for t, s, sg in INTS)
TYPES['double'] = ('float', 8, True)
TYPES['float'] = ('float', 4, True)
TYPES['struct S'] = ('aggr', 8, 'CT_STRUCT')          # passed by value: extern "Python" hands them over by reference
TYPES['union U'] = ('aggr', 8, 'CT_UNION')

REPLAY = r'''
# Replay for C14 against the real build: an ffi.callback() of the given signature, called through the
# cdata (libffi closure -> invoke_callback -> general_invoke_callback).
import sys, json, io, contextlib
import cffi
case = json.loads(%r)
ffi = cffi.FFI()
res, args = case['result'], case['args']
sig = '%%s(*)(%%s)' %% (res, ', '.join(args) or 'void')
seen = []
class Unconvertible(object): pass
def body(*a):
    seen.append(list(a))
    if case['behaviour'] == 'raise': raise ValueError('boom')
    if case['behaviour'] == 'bad': return Unconvertible()
    return case['ret']
kw = {}
if case.get('error') is not None: kw['error'] = case['error']
if case.get('onerror') is not None:
    def onerror(*a):
        oe = case['onerror']
        if oe == 'raise': raise KeyError('again')
        if oe == 'bad': return Unconvertible()
        if oe == 'none': return None
        return oe
    kw['onerror'] = onerror
import os
devnull = os.open(os.devnull, os.O_WRONLY); saved = os.dup(2); os.dup2(devnull, 2)
try:
    cb = ffi.callback(sig, body, **kw)
    got = cb(*case['argvals'])
finally:
    os.dup2(saved, 2)
bad = []
if seen != [case['argvals']]:
    bad.append('Python received %%r for C arguments %%r' %% (seen, case['argvals']))
if got != case['expect']:
    bad.append('C caller received %%r, expected %%r' %% (got, case['expect']))
for b in bad: print('VIOLATED:', sig, case, b)
sys.exit(1 if bad else 0)
'''


def mk_ctype(ex, L, tname):
    F = L.flags
    kind, size, sg = TYPES[tname]
    if kind == 'aggr':
        return pystubs.new_ctype(ex, L, size, F[sg], length=4, stuff=pystubs.py(ex).new_opaque('dict', items=[]), name=tname.encode())
    if kind == 'float':
        fl = F['CT_PRIMITIVE_FLOAT']
    else:
        fl = F['CT_PRIMITIVE_SIGNED'] if sg else F['CT_PRIMITIVE_UNSIGNED']
        if sg or size < 8:
            fl |= F['CT_PRIMITIVE_FITS_LONG']
    return pystubs.new_ctype(ex, L, size, fl, length=size, name=tname.encode())


def ext64(bits, size, sg):
    b = bv(bits, 8 * size)
    if size == 8:
        return b
    return z3.SignExt(64 - 8 * size, b) if sg else z3.ZeroExt(64 - 8 * size, b)


def in_range(V, size, sg):
    lo, hi = (-(1 << (8 * size - 1)), (1 << (8 * size - 1)) - 1) if sg else (0, (1 << (8 * size)) - 1)
    return z3.And(V >= V_const(lo), V <= V_const(hi))


class PyFunc(object):
    """Model of the user's Python function and onerror: every behaviour, chosen by the solver."""

    def __init__(self, ex, py, rtype, tag):
        self.ex, self.py, self.rtype, self.tag = ex, py, rtype, tag
        self.calls = []
        self.behaviour = None
        self.ret = None

    def result_object(self, allow_none=False):
        ex, py = self.ex, self.py
        kind, size, sg = TYPES[self.rtype]
        if ex.decide(z3.Bool(self.tag + '_raises')):
            self.behaviour = 'raise'
            py.exc = 'PyExc_ValueError' if self.tag == 'f' else 'PyExc_KeyError'
            py.exc_log.append((py.exc, 'raised by the Python ' + self.tag))
            return 0
        if allow_none and ex.decide(z3.Bool(self.tag + '_returns_None')):
            self.behaviour = 'none'
            return ex.gaddr('_Py_NoneStruct')
        if ex.decide(z3.Bool(self.tag + '_returns_unconvertible')):
            self.behaviour = 'bad'
            return py.new_opaque('object')
        self.behaviour = 'value'
        if kind == 'float':
            self.ret = z3.BitVec(self.tag + '_ret_bits', 64)
            return py.new_float(self.ret)
        self.ret = z3.BitVec(self.tag + '_ret', W)
        return py.new_int(self.ret)


def install(ex, py, L, rtype):
    """stubs of the interpreter around the callback machinery"""
    g = ex.ghost
    fn = PyFunc(ex, py, rtype, 'f')
    oe = PyFunc(ex, py, rtype, 'onerror')
    g['fn'], g['oe'] = fn, oe
    g['unraisable'] = []
    g['fetched'] = {}

    def call(e, ob, args, kw):
        items = [simp(e.mem.load(simp(args) + 24 + 8 * i, 8)) for i in range(simp(e.mem.load(simp(args) + 16, 8)))]
        fn.calls.append(items)
        # what a cdata argument shows to the Python function *during* the call (the C caller's copy may be a local)
        snap = {}
        for k_, it in enumerate(items):
            inf = py.objs.get(it)
            if inf is not None and str(inf.get('kind', '')).startswith('new:'):
                d_ = simp(e.mem.load(it + 24, 8))
                if is_c(d_) and e.mem.region_of(d_) is not None and e.mem.region_of(d_).base + e.mem.region_of(d_).size - d_ >= 8:
                    snap[k_] = bv(e.mem.load(d_, 8), 64)
        fn.snapshots = snap
        return fn.result_object()

    def call_objargs(e, ob, *a):
        oe.calls.append(a)
        return oe.result_object(allow_none=True)

    def fetch(e, pt, pv, ptb):
        tok = py.new_opaque('exception-class') if py.exc else 0
        g['fetched'][tok] = py.exc
        py.exc = None
        e.mem.store(pt, tok, 8)
        e.mem.store(pv, 0, 8)
        e.mem.store(ptb, 0, 8)

    def restore(e, t, v, tb):
        t = simp(t)
        py.exc = g['fetched'].get(t) if t else None

    def unraisable(e, *a):
        g['unraisable'].append(py.exc)
        py.exc = None
    ex.stubs.update({
        'PyObject_Call': call, 'PyObject_CallFunctionObjArgs': call_objargs,
        'PyErr_Fetch': fetch, 'PyErr_Restore': restore, 'PyErr_NormalizeException': lambda e, a, b, c: None,
        '_PyErr_WriteUnraisableMsg': unraisable, 'PyErr_WriteUnraisable': unraisable, 'PyErr_FormatUnraisable': unraisable,
        'PyUnicode_FromFormat': lambda e, fmt, *a: py.new_opaque('str', 'PyUnicode_Type'),
        'PyUnicode_AsUTF8': lambda e, s: e.mem.alloc(8, 'utf8', 'heap', fill=0).base,
        '_cffi_start_error_capture': lambda e: 0, '_cffi_stop_error_capture': lambda e, c: None,
        'PyCallable_Check': lambda e, o: 1,
        'Py_BuildValue': lambda e, fmt, *a: py.new_tuple([simp(x) for x in a]),
        '_Py_BuildValue_SizeT': lambda e, fmt, *a: py.new_tuple([simp(x) for x in a]),
    })
    return fn, oe


def expected_obligations(chk, ex, py, label, fn, oe, rtype, mode, have_onerror, E, result_bits8, inputs, replay=None):
    """result_bits8: the 8 bytes at `result` after the call (BV64).  E: Python int error= value or None."""
    kind, size, sg = TYPES[rtype]
    low = lambda b64: z3.Extract(8 * size - 1, 0, b64)
    widen = (mode == 'libffi' and kind == 'int')

    def enc_int(V):
        return z3.Extract(8 * size - 1, 0, V)

    def same_as_value(V_or_bits):
        if kind == 'float':
            if size == 8:
                return low(result_bits8) == V_or_bits
            f32 = z3.fpToFP(z3.RNE(), z3.fpBVToFP(V_or_bits, z3.Float64()), z3.Float32())
            got = z3.fpBVToFP(low(result_bits8), z3.Float32())
            return z3.Or(got == f32, z3.And(z3.fpIsNaN(got), z3.fpIsNaN(f32)), low(result_bits8) == z3.fpToIEEEBV(f32))
        if widen:
            return result_bits8 == z3.Extract(63, 0, V_or_bits)       # a whole ffi_arg, sign/zero-extended
        return low(result_bits8) == enc_int(V_or_bits)

    def is_error_value():
        if E is None:
            return (result_bits8 == 0) if (widen or size == 8) else (low(result_bits8) == 0)
        return same_as_value(E)

    def convertible(p):
        if p.behaviour != 'value':
            return z3.BoolVal(False)
        if kind == 'float':
            return z3.BoolVal(True)
        return in_range(p.ret, size, sg)

    hutil.discharge(chk, ex, label + ':no-exception-escapes-into-C', py.exc is None, inputs, replay=replay)
    ok_main = convertible(fn)
    branch = ex.decide(ok_main)
    name = label + ':' + fn.behaviour + ('' if fn.behaviour != 'value' else (':convertible' if branch else ':out-of-range'))
    if branch:
        hutil.witness(chk, ex, name)
        hutil.discharge(chk, ex, name + ':C-receives-exactly-the-result', same_as_value(fn.ret), inputs, replay=replay)
        hutil.discharge(chk, ex, name + ':nothing-reported', len(ex.ghost['unraisable']) == 0 and not oe.calls, inputs, replay=replay)
        return
    if not have_onerror:
        hutil.witness(chk, ex, name)
        hutil.discharge(chk, ex, name + ':C-receives-the-error-value', is_error_value(), inputs, replay=replay)
        hutil.discharge(chk, ex, name + ':the-exception-is-reported-once', len(ex.ghost['unraisable']) == 1 and ex.ghost['unraisable'][0] is not None,
                        inputs, replay=replay)
        return
    okoe = len(oe.calls) == 1
    hutil.discharge(chk, ex, name + ':onerror-called-once', okoe, inputs, replay=replay)
    if not okoe:
        return
    conv_oe = ex.decide(convertible(oe))
    name2 = name + ':onerror-' + oe.behaviour + ('' if oe.behaviour != 'value' else (':convertible' if conv_oe else ':out-of-range'))
    hutil.witness(chk, ex, name2)
    if conv_oe:
        hutil.discharge(chk, ex, name2 + ':C-receives-onerror-value', same_as_value(oe.ret), inputs, replay=replay)
        hutil.discharge(chk, ex, name2 + ':nothing-reported', len(ex.ghost['unraisable']) == 0, inputs, replay=replay)
    else:
        # None, or onerror itself failed: "the value of error will be used, if any" (docs, using.rst)
        hutil.discharge(chk, ex, name2 + ':C-receives-the-error-value', is_error_value(), inputs, replay=replay)
        if oe.behaviour == 'none':
            hutil.discharge(chk, ex, name2 + ':nothing-reported', len(ex.ghost['unraisable']) == 0, inputs, replay=replay)
        else:
            hutil.discharge(chk, ex, name2 + ':both-exceptions-reported', len(ex.ghost['unraisable']) == 2, inputs, replay=replay)


def check_args(chk, ex, py, label, fn, argtypes, argbits, inputs, replay=None):
    okc = len(fn.calls) == 1 and len(fn.calls[0]) == len(argtypes)
    hutil.discharge(chk, ex, label + ':python-function-called-once-with-all-arguments', okc, inputs, replay=replay)
    if not okc:
        return
    for i, t in enumerate(argtypes):
        kind, size, sg = TYPES[t]
        info = py.info(fn.calls[0][i])
        if kind == 'aggr':
            obj = fn.calls[0][i]
            if argbits[i][1] == 'by-value':
                seen = getattr(fn, 'snapshots', {}).get(i)
                okk = seen is not None and z3.And(bv(py.ex.mem.load(obj + 16, 8), 64) == argbits[i][0], seen == argbits[i][2])
                hutil.discharge(chk, ex, label + ':argument-%d-(%s)-shows-the-caller\'s-bytes' % (i, t), okk, inputs, replay=replay)
                continue
            okk = (info['kind'].startswith('new:') or info['kind'] == 'cdata') and z3.And(bv(py.ex.mem.load(obj + 16, 8), 64) == argbits[i][0],
                                                                   bv(py.ex.mem.load(obj + 24, 8), 64) == argbits[i][1])
            hutil.discharge(chk, ex, label + ':argument-%d-(%s)-is-a-cdata-of-that-type-at-the-caller\'s-copy' % (i, t), okk, inputs, replay=replay)
            continue
        if kind == 'int':
            want = z3.SignExt(W - 8 * size, argbits[i]) if sg else z3.ZeroExt(W - 8 * size, argbits[i])
            okk = info['kind'] == 'int' and (info['V'] == want)
        else:
            got = bv(info.get('bits', 0), 64)
            if size == 8:
                okk = info['kind'] == 'float' and (got == argbits[i])
            else:
                want = z3.fpToFP(z3.RNE(), z3.fpBVToFP(argbits[i], z3.Float32()), z3.Float64())
                gf = z3.fpBVToFP(got, z3.Float64())
                okk = info['kind'] == 'float' and z3.Or(gf == want, z3.And(z3.fpIsNaN(gf), z3.fpIsNaN(want)), got == z3.fpToIEEEBV(want))
        hutil.discharge(chk, ex, label + ':argument-%d-(%s)-reaches-python-exactly' % (i, t), okk, inputs, replay=replay)


def make_replay(chk, rtype, argtypes, have_error, have_onerror):
    kind, size, sg = TYPES[rtype]

    def replay(case):
        import struct
        sv = lambda name, w: llsym.signed(case.get(name, 0), w)
        beh = 'raise' if case.get('f_raises') else ('bad' if case.get('f_returns_unconvertible') else 'value')
        c = {'result': rtype, 'args': list(argtypes), 'behaviour': beh}
        argvals = []
        for i, t in enumerate(argtypes):
            k, s, g_ = TYPES[t]
            raw = case.get('arg%d' % i, 0)
            if k == 'int':
                argvals.append(llsym.signed(raw, 8 * s) if g_ else raw)
            else:
                v = struct.unpack('<d' if s == 8 else '<f', struct.pack('<Q' if s == 8 else '<I', raw))[0]
                if v != v:
                    return None, None
                argvals.append(v)
        c['argvals'] = argvals
        lo, hi = (-(1 << (8 * size - 1)), (1 << (8 * size - 1)) - 1) if sg else (0, (1 << (8 * size)) - 1)

        def pyval(tag):
            if kind == 'float':
                v = struct.unpack('<d', struct.pack('<Q', case.get(tag + '_ret_bits', 0)))[0]
                return v
            return sv(tag + '_ret', W)

        def conv(v):
            if kind == 'float':
                return struct.unpack('<f', struct.pack('<f', v))[0] if size == 4 and abs(v) < 3e38 else v
            return v
        fits = lambda v: kind == 'float' or lo <= v <= hi
        err = 0
        if have_error:
            err = sv('error', W) if kind == 'int' else 0
            c['error'] = err
        c['ret'] = pyval('f') if beh == 'value' else None
        if kind == 'float' and c['ret'] is not None and c['ret'] != c['ret']:
            return None, None
        if beh == 'value' and fits(c['ret']):
            c['expect'] = conv(c['ret'])
        else:
            c['expect'] = err
            if have_onerror:
                ob = 'raise' if case.get('onerror_raises') else ('none' if case.get('onerror_returns_None') else
                                                                  ('bad' if case.get('onerror_returns_unconvertible') else 'value'))
                if ob == 'value':
                    v = pyval('onerror')
                    if v != v:
                        return None, None
                    c['onerror'] = v
                    if fits(v):
                        c['expect'] = conv(v)
                else:
                    c['onerror'] = ob
        path = chk.write_replay('cb', REPLAY % json.dumps(c))
        rc, out = common.run_replay(path)
        return common.replay_verdict(rc, out), path
    return replay


def invoke_worker(args):
    prop, tier, kind_, mode, rtype, argtypes, have_error, have_onerror = args
    chk = hutil.sub_check(prop, tier)
    mod = irgen.backend()
    L = pystubs.CffiLayout(mod)
    F = L.flags
    label = '%s:%s(%s)%s%s' % (mode, rtype, ','.join(argtypes), ':error=' if have_error else '', ':onerror=' if have_onerror else '')
    replay = make_replay(chk, rtype, argtypes, have_error, have_onerror) if mode == 'libffi' else None
    ex = llsym.Executor(mod, pystubs.stubs(), loop_bound=8)

    def h(ex):
        py = pystubs.PyEnv(ex)
        fn, oe = install(ex, py, L, rtype)
        rct = mk_ctype(ex, L, rtype)
        acts = [mk_ctype(ex, L, t) for t in argtypes]
        sig = py.new_tuple([py.new_int(0), rct] + acts)
        fct = pystubs.new_ctype(ex, L, 8, F['CT_FUNCTIONPTR'], stuff=sig, name=b'fn')
        none = ex.gaddr('_Py_NoneStruct')
        pyfunc = py.new_opaque('function')
        onerr = py.new_opaque('function') if have_onerror else none
        inputs = {}
        E = None
        rk, rsize, rsg = TYPES[rtype]
        if have_error:
            if rk == 'int':
                E = z3.BitVec('error', W)
                ex.assume(in_range(E, rsize, rsg))
                err_ob = py.new_int(E)
                inputs['error'] = E
            else:
                E = z3.BitVecVal(0, 64)
                err_ob = py.new_float(E)
        else:
            err_ob = none
        libffi = 1 if mode == 'libffi' else 0
        info = simp(ex.call('prepare_callback_info_tuple', [fct, pyfunc, err_ob, onerr, libffi]))
        okk = is_c(info) and info != 0 and py.exc is None
        hutil.discharge(chk, ex, label + ':info-tuple-built', okk, inputs)
        if not okk:
            return
        # the C caller's side
        argbits = []
        n = len(argtypes)
        if libffi:
            ptrs = ex.mem.alloc(8 * max(n, 1), 'libffi args[]', 'input')
            for i, t in enumerate(argtypes):
                k, s, g_ = TYPES[t]
                if k == 'aggr':
                    cell = ex.mem.alloc(s, 'by-value aggregate %d' % i, 'input')
                    ex.mem.store(ptrs.base + 8 * i, cell.base, 8)
                    argbits.append((acts[i], cell.base))
                    continue
                cell = ex.mem.alloc(s, 'libffi arg cell %d' % i, 'input')
                b = z3.BitVec('arg%d' % i, 8 * s)
                ex.mem.store(cell.base, b, s)
                ex.mem.store(ptrs.base + 8 * i, cell.base, 8)
                argbits.append(b)
                inputs['arg%d' % i] = b
            result = ex.mem.alloc(8, 'libffi result (ffi_arg)', 'input')
            ex.mem.store(result.base, z3.BitVec('result_garbage', 64), 8)
            argp = ptrs.base
            resp = result.base
        else:
            buf = ex.mem.alloc(max(8 * n, 8), 'extern "Python" a[]', 'input')
            for i, t in enumerate(argtypes):
                k, s, g_ = TYPES[t]
                if k == 'aggr':
                    cell = ex.mem.alloc(s, 'by-value aggregate %d (the wrapper passes its address)' % i, 'input')
                    ex.mem.store(buf.base + 8 * i, cell.base, 8)
                    argbits.append((acts[i], cell.base))
                    continue
                ex.mem.store(buf.base + 8 * i, z3.BitVec('slot_garbage%d' % i, 64), 8)
                b = z3.BitVec('arg%d' % i, 8 * s)
                ex.mem.store(buf.base + 8 * i, b, s)
                argbits.append(b)
                inputs['arg%d' % i] = b
            if n == 0:
                ex.mem.store(buf.base, z3.BitVec('slot_garbage', 64), 8)
            argp = resp = buf.base
        ex.call('general_invoke_callback', [libffi, resp, argp, info])
        for p in (fn, oe):
            for nm in ('_raises', '_returns_None', '_returns_unconvertible'):
                inputs[p.tag + nm] = z3.Bool(p.tag + nm)
            if p.ret is not None:
                inputs[p.tag + ('_ret_bits' if rk == 'float' else '_ret')] = p.ret
        check_args(chk, ex, py, label, fn, argtypes, argbits, inputs, replay)
        res8 = bv(ex.mem.load(resp, 8), 64)
        expected_obligations(chk, ex, py, label, fn, oe, rtype, mode, have_onerror, E, res8, inputs, replay)

    def on_oob(ex2, what_, model):
        chk.report_failure('%s: access outside the argument / result buffers: %s' % (label, what_), {}, None, None)
    ex.on_oob = on_oob
    res = ex.explore(h, max_paths=4000)
    hutil.finish_explore(chk, ex, res, label)
    chk.functions = irgen.func_info(mod, sorted(ex.called))
    return hutil.export(chk)


# -----------------------------------------------------------------------------------------------
# generated extern "Python" wrappers

GEN_SIGS = [('ep_%d' % i, t, [t]) for i, (t, s, sg) in enumerate(INTS)] + [
    ('ep_d', 'double', ['double']), ('ep_f', 'float', ['float']),
    ('ep_mix', 'short', ['unsigned char', 'long', 'double']), ('ep_none', 'unsigned int', []),
    ('ep_su', 'int', ['struct S', 'union U', 'int'])]
_gen = None


def generated_module():
    global _gen
    if _gen is not None:
        return _gen
    sd = common.scratch_dir()
    cdef = ['struct S { int a; int b; }; union U { long long i; char c[8]; };']
    cdef += ['extern "Python" %s %s(%s);' % (r, n, ', '.join(a) or 'void') for n, r, a in GEN_SIGS]
    code = '''
import sys
sys.path.insert(0, %r)
import cffi
ffi = cffi.FFI()
ffi.cdef(%r)
ffi.set_source('_verif_c14', 'struct S { int a; int b; }; union U { long long i; char c[8]; };')
ffi.emit_c_code(%r)
''' % (os.path.join(common.REPO, 'src'), '\n'.join(cdef), os.path.join(sd, '_verif_c14.c'))
    r = subprocess.run(['/venv/bin/python', '-c', code], stdout=subprocess.PIPE, stderr=subprocess.STDOUT)
    if r.returncode != 0:
        raise common.Inconclusive('Recompiler failed on the extern "Python" family:\n' + r.stdout.decode()[-1500:])
    _gen = irgen.compile_ir(os.path.join(sd, '_verif_c14.c'), '_verif_c14', extra_flags=['-I' + os.path.join(common.REPO, 'src/cffi')])
    return _gen


def externpy_worker(args):
    prop, tier, kind_, fname, rtype, argtypes, have_error = args
    chk = hutil.sub_check(prop, tier)
    back = irgen.backend()
    gen = generated_module()
    L = pystubs.CffiLayout(back)
    F = L.flags
    label = 'generated:%s %s(%s)%s' % (rtype, fname, ','.join(argtypes), ':error=' if have_error else '')
    ex = llsym.Executor([gen, back], pystubs.stubs(), loop_bound=8)

    def h(ex):
        py = pystubs.PyEnv(ex)
        fn, oe = install(ex, py, L, rtype)
        src, dst = ex.gaddr('cffi_exports'), ex.gaddr('_cffi_exports')
        for k in range(back.sizeof(back.globals['cffi_exports'].ty) // 8):
            ex.mem.store(dst + 8 * k, ex.mem.load(src + 8 * k, 8), 8)
        ex.stubs['gil_ensure'] = lambda e: 1
        ex.stubs['gil_release'] = lambda e, s: None
        cell = ex.mem.alloc(4, 'errno', 'heap', fill=0)
        ex.stubs['__errno_location'] = lambda e: cell.base
        rct = mk_ctype(ex, L, rtype)
        acts = [mk_ctype(ex, L, t) for t in argtypes]
        sig = py.new_tuple([py.new_int(0), rct] + acts)
        fct = pystubs.new_ctype(ex, L, 8, F['CT_FUNCTIONPTR'], stuff=sig, name=b'fn')
        none = ex.gaddr('_Py_NoneStruct')
        inputs = {}
        E = None
        rk, rsize, rsg = TYPES[rtype]
        if have_error and rk == 'int':
            E = z3.BitVec('error', W)
            ex.assume(in_range(E, rsize, rsg))
            err_ob = py.new_int(E)
            inputs['error'] = E
        else:
            err_ob = none
        info = simp(ex.call('prepare_callback_info_tuple', [fct, py.new_opaque('function'), err_ob, none, 0]))
        okk = is_c(info) and info != 0 and py.exc is None
        hutil.discharge(chk, ex, label + ':info-tuple-built', okk, inputs)
        if not okk:
            return
        # what @ffi.def_extern() leaves in the externpy structure
        ep = ex.gaddr('_cffi_externpy__' + fname)
        st = back.struct_layout(('named', 'struct._cffi_externpy_s'))[0]
        key = py.new_opaque('interp-key')
        ex.mem.store(ep + st[2], key, 8)
        ex.mem.store(ep + st[3], info, 8)
        ex.stubs['_current_interp_key'] = lambda e: key
        sor = simp(ex.mem.load(ep + st[1], 4))
        hutil.discharge(chk, ex, label + ':size_of_result==sizeof(result type)', sor == rsize, inputs)
        argbits, cargs = [], []
        for i, t in enumerate(argtypes):
            k, s, g_ = TYPES[t]
            b = z3.BitVec('arg%d' % i, 8 * s)
            argbits.append(b if k != 'aggr' else (acts[i], 'by-value', b))
            inputs['arg%d' % i] = b
            cargs.append(b)
        r = ex.call(fname, cargs)
        r8 = bv(r, 8 * rsize)
        res8 = z3.ZeroExt(64 - 8 * rsize, r8) if rsize < 8 else r8
        for p in (fn,):
            for nm in ('_raises', '_returns_unconvertible'):
                inputs[p.tag + nm] = z3.Bool(p.tag + nm)
            if p.ret is not None:
                inputs[p.tag + ('_ret_bits' if rk == 'float' else '_ret')] = p.ret
        check_args(chk, ex, py, label, fn, argtypes, argbits, inputs)
        expected_obligations(chk, ex, py, label, fn, oe, rtype, 'externpy', False, E, res8, inputs)

    def on_oob(ex2, what_, model):
        chk.report_failure('%s: access outside the a[] buffer of the generated wrapper: %s' % (label, what_), {}, None, None)
    ex.on_oob = on_oob
    res = ex.explore(h, max_paths=4000)
    hutil.finish_explore(chk, ex, res, label)
    chk.functions = irgen.func_info(gen, sorted(ex.called)) + irgen.func_info(back, sorted(ex.called))
    return hutil.export(chk)


STRUCT_REPLAY = r"""
# Replay for C14: a callback returning a struct; the Python function raises and onerror returns an initializer that fails after
# some fields were written: the C caller must receive the declared error value, not a mixture.
import sys, json
import cffi
case = json.loads(%r)
ffi = cffi.FFI()
ffi.cdef("struct T { long a, b, c; };")
err = ffi.new("struct T *", case['error'])[0]
def f():
    raise ValueError
def onerror(exc, val, tb):
    return [case['v1'], case['v2'], object() if case['third_bad'] else case['v3']]
cb = ffi.callback("struct T(void)", f, error=err, onerror=onerror)
r = cb()
got = [r.a, r.b, r.c]
want = case['error'] if case['third_bad'] else [case['v1'], case['v2'], case['v3']]
if got != want:
    print('VIOLATED: the C caller received %%r, expected %%r' %% (got, want)); sys.exit(1)
sys.exit(0)
"""


def structres_worker(args):
    """a callback whose result is a struct {long a, b, c}: the function raises, onerror returns a list whose third item is valid or
    not convertible (after two fields were written): the C caller receives onerror's value, or exactly the error= value"""
    prop, tier, kind_ = args
    chk = hutil.sub_check(prop, tier)
    mod = irgen.backend()
    L = pystubs.CffiLayout(mod)
    F = L.flags
    label = 'libffi:struct-result:onerror-list'
    ex = llsym.Executor(mod, pystubs.stubs(), loop_bound=8)

    def replay(case):
        sg = lambda v: v - (1 << 64) if v >= (1 << 63) else v
        c = {'error': [sg(case['error_%d' % i]) for i in range(3)], 'v1': sg(case['v1']), 'v2': sg(case['v2']), 'v3': sg(case['v3']),
             'third_bad': bool(case.get('third_bad'))}
        path = chk.write_replay('structres', STRUCT_REPLAY % json.dumps(c))
        rc, out = common.run_replay(path, timeout=120)
        return common.replay_verdict(rc, out), path

    def h(ex):
        py = pystubs.PyEnv(ex)
        fn, oe = install(ex, py, L, 'long')
        i64 = pystubs.new_ctype(ex, L, 8, F['CT_PRIMITIVE_SIGNED'] | F['CT_PRIMITIVE_FITS_LONG'], name=b'long')
        fields = [pystubs.new_cfield(ex, L, i64, 8 * k, mask(16), mask(16)) for k in range(3)]
        for a_, b_ in zip(fields, fields[1:]):
            ex.mem.store(a_ + L.cf['cf_next'], b_, 8)
        rct = pystubs.new_ctype(ex, L, 24, F['CT_STRUCT'], length=8, stuff=py.new_opaque('dict', 'PyDict_Type', items=[]), extra=fields[0],
                                name=b'struct T')
        sig = py.new_tuple([py.new_int(0), rct])
        fct = pystubs.new_ctype(ex, L, 8, F['CT_FUNCTIONPTR'], stuff=sig, name=b'fn')
        Es = [z3.BitVec('error_%d' % i, 64) for i in range(3)]
        errmem = ex.mem.alloc(24, 'error= struct value', 'input')
        for i, e_ in enumerate(Es):
            ex.mem.store(errmem.base + 8 * i, e_, 8)
        err_ob = pystubs.new_cdata(ex, L, rct, errmem.base)
        pyfunc, onerr = py.new_opaque('function'), py.new_opaque('function')
        info = simp(ex.call('prepare_callback_info_tuple', [fct, pyfunc, err_ob, onerr, 1]))
        inputs = dict(('error_%d' % i, e_) for i, e_ in enumerate(Es))
        okk = is_c(info) and info != 0 and py.exc is None
        hutil.discharge(chk, ex, label + ':info-tuple-built', okk, inputs)
        if not okk:
            return
        Vs = [z3.BitVec('v%d' % (i + 1), 64) for i in range(3)]
        for i, v in enumerate(Vs):
            inputs['v%d' % (i + 1)] = v
        third_bad = ex.decide(z3.Bool('third_bad'))
        inputs['third_bad'] = z3.If(z3.Bool('third_bad'), z3.BitVecVal(1, 8), z3.BitVecVal(0, 8))

        def call(e, ob, args_, kw):
            py.exc = 'PyExc_ValueError'
            return 0

        def call_objargs(e, ob, *a):
            items = [py.new_int(z3.SignExt(W - 64, v)) for v in Vs[:2]]
            items.append(py.new_opaque('object') if third_bad else py.new_int(z3.SignExt(W - 64, Vs[2])))
            return py.new_list(items)
        ex.stubs.update({'PyObject_Call': call, 'PyObject_CallFunctionObjArgs': call_objargs})
        result = ex.mem.alloc(24, 'libffi result (struct T)', 'input')
        for i in range(3):
            ex.mem.store(result.base + 8 * i, z3.BitVec('result_garbage_%d' % i, 64), 8)
        ptrs = ex.mem.alloc(8, 'libffi args[]', 'input')
        ex.call('general_invoke_callback', [1, result.base, ptrs.base, info])
        got = [bv(ex.mem.load(result.base + 8 * i, 8), 64) for i in range(3)]
        hutil.witness(chk, ex, label + (':third-item-unconvertible' if third_bad else ':valid-list'))
        if third_bad:
            hutil.discharge(chk, ex, label + ':unconvertible-onerror-value=>C-receives-exactly-the-error-value',
                            z3.And(*[g == e_ for g, e_ in zip(got, Es)]), inputs, replay=replay)
        else:
            hutil.discharge(chk, ex, label + ':C-receives-the-onerror-value', z3.And(*[g == v for g, v in zip(got, Vs)]), inputs, replay=replay)

    def on_oob(ex2, what_, model):
        chk.report_failure('%s: access outside the argument / result buffers: %s' % (label, what_), {}, None, None)
    ex.on_oob = on_oob
    res = ex.explore(h, max_paths=400)
    hutil.finish_explore(chk, ex, res, label)
    if not chk.witnesses:
        chk.inconc(label + ': no path reached an obligation')
    chk.functions = irgen.func_info(mod, sorted(ex.called))
    return hutil.export(chk)


def dispatch(args):
    if args[2] == 'structres':
        return structres_worker(args)
    return (invoke_worker if args[2] == 'invoke' else externpy_worker)(args)


def run(chk):
    quick = chk.tier == 'quick'
    P = (chk.prop, chk.tier)
    cases = [P + ('structres',)]
    all_types = [t for t, s, sg in INTS] + ['double', 'float']
    for mode in ('libffi', 'externpy'):
        for rt in all_types:
            # each result type with one argument of a rotating type, all error/onerror combinations
            at = all_types[(all_types.index(rt) + 3) % len(all_types)]
            for he in (False, True):
                for ho in (False, True):
                    cases.append(P + ('invoke', mode, rt, (at,), he, ho))
        cases.append(P + ('invoke', mode, 'int', (), True, True))
        cases.append(P + ('invoke', mode, 'short', ('unsigned char', 'long'), True, False))
        cases.append(P + ('invoke', mode, 'int', ('struct S', 'union U'), False, False))
        cases.append(P + ('invoke', mode, 'long', ('union U', 'int'), True, False))
        if not quick:
            for rt in all_types:
                for at in all_types:
                    cases.append(P + ('invoke', mode, rt, (at, all_types[(all_types.index(at) + 5) % len(all_types)]), True, True))
    for n, r, a in GEN_SIGS:
        for he in (False, True):
            cases.append(P + ('gen', n, r, tuple(a), he))
    chk.bounds = {'signatures': 'result and argument types over %s; 0..2 arguments (%s combinations)' % (all_types, 'selected' if quick else 'all pairs'),
                  'values': 'every argument bit pattern, every Python int / double returned, every error= value in range',
                  'behaviours': 'function: value | unconvertible object | raises; onerror: absent | None | value | unconvertible | raises'}
    chk.outside = ['libffi\'s closure trampoline (assembly) before invoke_callback; long double/pointer/char/void signatures, struct/union results',
                   'the text written by the unraisable hook (formatting stubs)', 'sub-interpreter cache refresh of extern "Python"',
                   'b_callback closure allocation (C29)']
    chk.assume('the Python function and onerror are nondeterministic stubs; PyErr_Fetch/Restore move the pending exception; '
               '_cffi_start/stop_error_capture (stderr capture for Windows GUI apps) are no-ops')
    irgen.backend()
    generated_module()
    hutil.run_cases(chk, cases, dispatch)
