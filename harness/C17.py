"""C17 -- cdata equality, ordering and hashing are mutually consistent.

llsym on cdata_richcompare, cdata_hash, convert_to_object (+ raw readers).
Symbolic: both cdata's type flags (within their class), addresses, the bytes of primitive
cdata.  Concrete split: op 0..5, class of v and w.
PyObject_RichCompare / PyObject_Hash / _Py_HashPointer are uninterpreted: the obligation is
that cffi delegates to them with exactly the converted values ("exactly as the Python value").
"""
import json
import z3
from vf import common, irgen, llsym, pystubs, hutil
from vf.llsym import bv, simp, mask
from vf.pystubs import W, V_const

OPS = {0: 'LT', 1: 'LE', 2: 'EQ', 3: 'NE', 4: 'GT', 5: 'GE'}
PRIMS = [('signed', 1), ('signed', 2), ('signed', 4), ('signed', 8), ('unsigned', 1), ('unsigned', 2),
         ('unsigned', 4), ('unsigned', 8), ('bool', 1), ('float', 4), ('float', 8), ('char', 1)]

REPLAY = r'''
# Replay for C17 (pointer-like comparison / hashing) against the real cffi build.
import sys, json, cffi
case = json.loads(%r)
ffi = cffi.FFI()
A, B, op = case['A'], case['B'], case['op']
kinds = {'pointer': lambda a: ffi.cast('int *', a), 'array': lambda a: ffi.cast('int(*)[3]', a)[0],
         'funcptr': lambda a: ffi.cast('int(*)(void)', a), 'voidp': lambda a: ffi.cast('void *', a)}
a = kinds[case.get('kv', 'pointer')](A)
b = kinds[case.get('kw', 'voidp')](B)
import operator
f = [operator.lt, operator.le, operator.eq, operator.ne, operator.gt, operator.ge][op]
bad = []
if f(a, b) != f(A, B):
    bad.append('cdata at %%#x %%s cdata at %%#x gives %%s' %% (A, f.__name__, B, f(a, b)))
if a == b and hash(a) != hash(b):
    bad.append('equal cdata with different hashes')
for x in bad:
    print('VIOLATED:', x)
sys.exit(1 if bad else 0)
'''


REPLAY_PRIM = r'''
# Replay for C17 (two primitive cdata of the same type) against the real cffi build:
# a OP b must be what the Python values they convert to give.
import sys, json, struct, operator, cffi
case = json.loads(%r)
ffi = cffi.FFI()
kind, size, op = case['kind'], case['size'], case['op']
tn = {'signed': {1: 'signed char', 2: 'short', 4: 'int', 8: 'long long'},
      'unsigned': {1: 'unsigned char', 2: 'unsigned short', 4: 'unsigned int', 8: 'unsigned long long'},
      'bool': {1: '_Bool'}, 'float': {4: 'float', 8: 'double'}, 'char': {1: 'char'}}[kind][size]
def mk(raw):
    b = raw.to_bytes(size, 'little')
    if kind == 'float':
        return ffi.cast(tn, struct.unpack('<f' if size == 4 else '<d', b)[0])
    if kind == 'char':
        return ffi.cast(tn, b)
    return ffi.cast(tn, int.from_bytes(b, 'little', signed=(kind == 'signed')))
if kind == 'bool' and (case['raw_v'] > 1 or case['raw_w'] > 1):
    sys.exit(2)          # no public way to build such a cdata
a, b = mk(case['raw_v']), mk(case['raw_w'])
pa, pb = ffi.new(tn + '*', a)[0], ffi.new(tn + '*', b)[0]
f = [operator.lt, operator.le, operator.eq, operator.ne, operator.gt, operator.ge][op]
if f(a, b) != f(pa, pb):
    print('VIOLATED: %%r %%s %%r gives %%s, the Python values %%r, %%r give %%s' %% (a, f.__name__, b, f(a, b), pa, pb, f(pa, pb)))
    sys.exit(1)
sys.exit(0)
'''


def make_replay(chk):
    def replay(case):
        if 'raw_w' in case and 'kind' in case:
            body = REPLAY_PRIM % json.dumps(case)
            path = chk.write_replay('prim-%s%d-%s' % (case['kind'], case['size'], OPS.get(case.get('op'), 'x')), body)
            rc, out = common.run_replay(path)
            if rc == 2:
                return None, None
            return common.replay_verdict(rc, out), path
        if 'A' not in case:
            return None, None
        body = REPLAY % json.dumps(case)
        path = chk.write_replay('ptr-%s' % OPS.get(case.get('op'), 'x'), body)
        rc, out = common.run_replay(path)
        return common.replay_verdict(rc, out), path
    return replay


def prim_flags(F, kind, size):
    if kind == 'signed':
        fl = F['CT_PRIMITIVE_SIGNED'] | F['CT_PRIMITIVE_FITS_LONG']
    elif kind in ('unsigned', 'bool'):
        fl = F['CT_PRIMITIVE_UNSIGNED'] | (F['CT_PRIMITIVE_FITS_LONG'] if size < 8 else 0)
        if kind == 'bool':
            fl |= F['CT_IS_BOOL']
    elif kind == 'float':
        fl = F['CT_PRIMITIVE_FLOAT']
    else:
        fl = F['CT_PRIMITIVE_CHAR'] | F['CT_PRIMITIVE_FITS_LONG']
    return fl


def make_stubs():
    Hptr = z3.Function('_Py_HashPointer', z3.BitVecSort(64), z3.BitVecSort(64))

    def rich(ex, a, b, op):
        p = pystubs.py(ex)
        o = p.new_opaque('cmpresult')
        ex.ghost['rich'] = (simp(a), simp(b), simp(op), o)
        return o

    def phash(ex, o):
        h = ex.fresh('pyhash', 64)
        ex.ghost['hash'] = (simp(o), h)
        return h

    def hashptr(ex, p):
        return Hptr(bv(p, 64))

    st = pystubs.stubs(PyObject_RichCompare=rich, PyObject_Hash=phash, _Py_HashPointer=hashptr)
    return st, Hptr


def value_spec(py, o, kind, size, raw):
    """z3 Bool: Python object o carries exactly the value C reads from `raw` (BV 8*size)."""
    i = py.info(o)
    if kind == 'signed':
        return b_kind(i, 'int') and (i['V'] == z3.SignExt(W - 8 * size, raw))
    if kind == 'unsigned':
        return b_kind(i, 'int') and (i['V'] == z3.ZeroExt(W - 8 * size, raw))
    if kind == 'bool':
        return b_kind(i, 'int') and (i['V'] == z3.ZeroExt(W - 8, raw)) and ('bool' in i)
    if kind == 'float':
        if i['kind'] != 'float':
            return False
        bits = bv(i['bits'], 64)
        if size == 8:
            return bits == raw
        # float -> double widening (exact); NaN payloads are not part of the claim
        want = z3.fpToFP(z3.RNE(), z3.fpBVToFP(raw, z3.Float32()), z3.Float64())
        got = z3.fpBVToFP(bits, z3.Float64())
        return z3.Or(got == want, z3.And(z3.fpIsNaN(got), z3.fpIsNaN(want)))
    if kind == 'char':
        return i['kind'] == 'bytes' and len(i['data']) == 1 and (bv(i['data'][0], 8) == raw)
    return False


def b_kind(i, k):
    return i['kind'] == k


def worker(args):
    prop, tier, what = args
    chk = hutil.sub_check(prop, tier)
    mod = irgen.backend()
    L = pystubs.CffiLayout(mod)
    F = L.flags
    st, Hptr = make_stubs()
    ex = llsym.Executor(mod, st, loop_bound=16)
    replay = make_replay(chk)
    ANY = F['CT_PRIMITIVE_SIGNED'] | F['CT_PRIMITIVE_UNSIGNED'] | F['CT_PRIMITIVE_CHAR'] | \
        F['CT_PRIMITIVE_FLOAT'] | F['CT_PRIMITIVE_COMPLEX']
    PTRLIKE = [F['CT_POINTER'], F['CT_ARRAY'], F['CT_STRUCT'], F['CT_UNION'], F['CT_FUNCTIONPTR']]

    def ptr_cdata(ex, name, cdata_tp='CData_Type'):
        flags = z3.BitVec('flags_' + name, 32)
        ex.assume(z3.And((flags & ANY) == 0, z3.Or(*[(flags & f) != 0 for f in PTRLIKE])))
        ct = pystubs.new_ctype(ex, L, 8, flags)
        addr = z3.BitVec('addr_' + name, 64)
        return pystubs.new_cdata(ex, L, ct, addr, tp=cdata_tp), addr, flags

    def prim_cdata(ex, name, kind, size, ct=None):
        ct = ct or pystubs.new_ctype(ex, L, size, prim_flags(F, kind, size))
        ex.ghost['last_ct'] = ct
        data = ex.mem.alloc(size, 'prim data ' + name, 'input')
        raw = z3.BitVec('raw_' + name, 8 * size)
        ex.mem.store(data.base, raw, size)
        return pystubs.new_cdata(ex, L, ct, data.base), raw

    if what[0] == 'ptrptr':
        op = what[1]

        def h(ex):
            py = pystubs.PyEnv(ex)
            v, A, fa = ptr_cdata(ex, 'v')
            w, B, fb = ptr_cdata(ex, 'w', 'CDataOwning_Type')
            r = ex.concretize(ex.call('cdata_richcompare', [v, w, op]), 64, 8, 'result pointer')
            spec = {0: z3.ULT(A, B), 1: z3.ULE(A, B), 2: A == B, 3: A != B, 4: z3.UGT(A, B), 5: z3.UGE(A, B)}[op]
            T = ex.gaddr('_Py_TrueStruct')
            Fa = ex.gaddr('_Py_FalseStruct')
            name = 'ptr-%s-ptr' % OPS[op]
            kw = dict(inputs={'A': A, 'B': B, 'flags_v': fa, 'flags_w': fb}, extra_case={'op': op}, replay=replay)
            m = hutil.witness(chk, ex, name + (':true' if r == T else ':false'))
            if m is not None:
                chk.sample({'case': name, 'A': hex(hutil.mval(m, A)), 'B': hex(hutil.mval(m, B)), 'result': r == T})
            if r == T:
                hutil.discharge(chk, ex, name + ':True=>addresses-compare', spec, **kw)
            elif r == Fa:
                hutil.discharge(chk, ex, name + ':False=>addresses-compare', z3.Not(spec), **kw)
            else:
                chk.report_failure(name + ': result is neither True nor False', {}, None, None)
            hutil.discharge(chk, ex, name + ':no-exception', py.exc is None, **kw)
    elif what[0] == 'ptrhash':
        def h(ex):
            py = pystubs.PyEnv(ex)
            v, A, fa = ptr_cdata(ex, 'v')
            r = ex.call('cdata_hash', [v])
            hutil.witness(chk, ex, 'ptr-hash')
            hutil.discharge(chk, ex, 'ptr-hash==_Py_HashPointer(address)', bv(r, 64) == Hptr(A),
                            inputs={'A': A, 'flags_v': fa})
            # a == b  =>  hash(a) == hash(b): both are H(address) and == compares addresses
            B = z3.BitVec('addr_w', 64)
            hutil.discharge(chk, ex, 'ptr-eq=>hash-eq', z3.Implies(A == B, Hptr(A) == Hptr(B)), inputs={'A': A, 'B': B})
    elif what[0] == 'mixed':
        op, side, kind, size = what[1:]

        def h(ex):
            py = pystubs.PyEnv(ex)
            if side == 'v-ptr':
                v, A, fa = ptr_cdata(ex, 'v')
                if kind == 'pyobj':
                    w = py.new_opaque('object')
                else:
                    w, raw = prim_cdata(ex, 'w', kind, size)
            else:
                v, raw = prim_cdata(ex, 'v', kind, size)
                w, B, fb = ptr_cdata(ex, 'w')
            r = ex.concretize(ex.call('cdata_richcompare', [v, w, op]), 64, 8, 'result pointer')
            name = 'mixed-%s-%s-%s%d' % (OPS[op], side, kind, size)
            hutil.witness(chk, ex, name)
            ok = (r == ex.gaddr('_Py_NotImplementedStruct')) and py.exc is None and 'rich' not in ex.ghost
            hutil.discharge(chk, ex, name + ':NotImplemented', ok, inputs={})
    elif what[0] == 'prim':
        op, kind, size, wkind = what[1:]

        def h(ex, wkind=wkind):
            py = pystubs.PyEnv(ex)
            v, raw = prim_cdata(ex, 'v', kind, size)
            inputs = {'raw_v': raw}
            kwr = {}
            if wkind == 'pyobj':
                w = py.new_opaque('object')
                raww = None
            elif wkind == 'same':
                # both operands are cdata of the very same ctype object
                w, raww = prim_cdata(ex, 'w', kind, size, ct=ex.ghost['last_ct'])
                inputs['raw_w'] = raww
                kwr = dict(replay=replay, extra_case={'kind': kind, 'size': size, 'op': op})
            else:
                w, raww = prim_cdata(ex, 'w', wkind[0], wkind[1])
                inputs['raw_w'] = raww
            name = 'prim-%s-%s%d-vs-%s' % (OPS[op], kind, size, wkind if isinstance(wkind, str) else '%s%d' % wkind)
            if wkind == 'same':
                wkind = (kind, size)
            r = ex.concretize(ex.call('cdata_richcompare', [v, w, op]), 64, 8, 'result pointer')
            w_bool = wkind != 'pyobj' and wkind[0] == 'bool'
            if (kind == 'bool' or w_bool) and py.exc == 'PyExc_ValueError':
                # a _Bool byte other than 0/1 cannot be converted: same error as reading it (either operand may be the one)
                hutil.witness(chk, ex, name + ':bad-bool')
                culprit = ([z3.UGT(raw, 1)] if kind == 'bool' else []) + ([z3.UGT(raww, 1)] if w_bool else [])
                hutil.discharge(chk, ex, name + ':bad-bool=>byte>1', z3.Or(*culprit), inputs=inputs)
                hutil.discharge(chk, ex, name + ':bad-bool=>NULL', r == 0, inputs=inputs)
                return
            m = hutil.witness(chk, ex, name)
            if m is not None:
                chk.sample({'case': name, 'bytes_of_v': hex(hutil.mval(m, raw))})
            g = ex.ghost.get('rich')
            ok = g is not None and py.exc is None
            T_, F_ = ex.gaddr('_Py_TrueStruct'), ex.gaddr('_Py_FalseStruct')
            if kwr and g is None and py.exc is None and r in (T_, F_):
                # answered without PyObject_RichCompare: then the answer itself must be what the two Python values give
                if kind == 'float':
                    srt = z3.Float32() if size == 4 else z3.Float64()
                    x, y = z3.fpBVToFP(raw, srt), z3.fpBVToFP(raww, srt)
                    spec = {0: z3.fpLT(x, y), 1: z3.fpLEQ(x, y), 2: z3.fpEQ(x, y), 3: z3.Not(z3.fpEQ(x, y)),
                            4: z3.fpGT(x, y), 5: z3.fpGEQ(x, y)}[op]
                elif kind == 'signed':
                    spec = {0: raw < raww, 1: raw <= raww, 2: raw == raww, 3: raw != raww, 4: raw > raww, 5: raw >= raww}[op]
                else:
                    spec = {0: z3.ULT(raw, raww), 1: z3.ULE(raw, raww), 2: raw == raww, 3: raw != raww,
                            4: z3.UGT(raw, raww), 5: z3.UGE(raw, raww)}[op]
                    if kind == 'bool':      # a byte other than 0/1 has no Python value: an answer is wrong
                        spec = z3.And(spec, z3.ULE(raw, 1), z3.ULE(raww, 1))
                hutil.discharge(chk, ex, name + ':direct-answer==comparison-of-python-values',
                                spec if r == T_ else z3.Not(spec) if kind != 'bool' else z3.And(z3.Not({2: raw == raww, 3: raw != raww}.get(op, spec)), z3.ULE(raw, 1), z3.ULE(raww, 1)),
                                inputs=inputs, **kwr)
                return
            hutil.discharge(chk, ex, name + ':delegates-to-PyObject_RichCompare', ok, inputs=inputs, **kwr)
            if not ok:
                return
            a, b, gop, res = g
            hutil.discharge(chk, ex, name + ':same-op-and-result', (gop == op) and (r == res), inputs=inputs)
            hutil.discharge(chk, ex, name + ':left-operand==python-value', value_spec(py, a, kind, size, raw), inputs=inputs)
            if wkind == 'pyobj':
                hutil.discharge(chk, ex, name + ':right-operand-unchanged', b == w, inputs=inputs)
            else:
                hutil.discharge(chk, ex, name + ':right-operand==python-value',
                                value_spec(py, b, wkind[0], wkind[1], raww), inputs=inputs)
    elif what[0] == 'primhash':
        kind, size = what[1:]

        def h(ex):
            py = pystubs.PyEnv(ex)
            v, raw = prim_cdata(ex, 'v', kind, size)
            r = ex.call('cdata_hash', [v])
            name = 'hash-%s%d' % (kind, size)
            if kind == 'bool' and py.exc == 'PyExc_ValueError':
                hutil.witness(chk, ex, name + ':bad-bool')
                hutil.discharge(chk, ex, name + ':bad-bool=>byte>1', z3.UGT(raw, 1), inputs={'raw_v': raw})
                hutil.discharge(chk, ex, name + ':bad-bool=>-1', bv(r, 64) == mask(64), inputs={'raw_v': raw})
                return
            hutil.witness(chk, ex, name)
            g = ex.ghost.get('hash')
            ok = g is not None and py.exc is None
            hutil.discharge(chk, ex, name + ':delegates-to-PyObject_Hash', ok, inputs={'raw_v': raw})
            if ok:
                o, hv = g
                hutil.discharge(chk, ex, name + ':returns-that-hash', bv(r, 64) == hv, inputs={'raw_v': raw})
                hutil.discharge(chk, ex, name + ':hashed-object==python-value', value_spec(py, o, kind, size, raw),
                                inputs={'raw_v': raw})
    else:
        raise ValueError(what)

    def on_oob(ex, what_, model):
        chk.report_failure('%r: memory access outside the cdata: %s' % (what, what_), {}, None, None)
    ex.on_oob = on_oob
    res = ex.explore(h)
    hutil.finish_explore(chk, ex, res, repr(what))
    chk.functions = irgen.func_info(mod, sorted(ex.called))
    return hutil.export(chk)


def run(chk):
    P = chk.prop, chk.tier
    cases = [P + (('ptrptr', op),) for op in range(6)]
    cases.append(P + (('ptrhash',),))
    quick = chk.tier == 'quick'
    for op in ((2, 0) if quick else range(6)):
        cases.append(P + (('mixed', op, 'v-ptr', 'pyobj', 0),))
        cases.append(P + (('mixed', op, 'v-ptr', 'signed', 4),))
        cases.append(P + (('mixed', op, 'w-ptr', 'signed', 4),))
        cases.append(P + (('mixed', op, 'w-ptr', 'float', 8),))
    for kind, size in PRIMS:
        cases.append(P + (('primhash', kind, size),))
        for op in ((2, 4) if quick else range(6)):
            cases.append(P + (('prim', op, kind, size, 'pyobj'),))
        cases.append(P + (('prim', 2, kind, size, ('signed', 4)),))
        for op in ((2, 3) if quick else range(6)):
            cases.append(P + (('prim', op, kind, size, 'same'),))
        if not quick:
            for wk in PRIMS:
                cases.append(P + (('prim', 0, kind, size, wk),))
    chk.bounds = {'pointer-like cdata': 'any ct_flags without primitive bits and with a pointer/array/struct/union/'
                  'function bit, any two 64-bit addresses, all 6 operators',
                  'primitive cdata': [list(p) for p in PRIMS], 'primitive bytes': 'all values',
                  'operators for primitive cases': 'EQ, GT (quick) / all (thorough); two cdata of the very same ctype: EQ, NE (quick) / all (thorough)'}
    chk.outside = ['long double and complex cdata (no Python value to convert to for long double)',
                   'wchar_t/char16_t/char32_t primitives (conversion decided under C15)',
                   'what PyObject_RichCompare/PyObject_Hash themselves compute (CPython)']
    chk.assume('PyObject_RichCompare, PyObject_Hash, _Py_HashPointer are uninterpreted functions (CPython)')
    chk.assume('a==b => hash(a)==hash(b) for Python values is CPython\'s own invariant')
    irgen.backend()
    hutil.run_cases(chk, cases, worker)
