"""C15 -- character arrays and strings round-trip, including the terminator.

llsym on convert_array_from_object (bytes / char16 / char32 branches), _my_PyUnicode_SizeAsChar16,
_my_PyUnicode_AsChar16/32, _my_PyUnicode_FromChar16/32, b_string (length scan).
Symbolic: every byte / code point of the string (any non-zero value of its storage kind, incl. lone
surrogates and astral characters), the previous content of the array.  Concrete per case: element
type, string length, array length, str storage kind.
Obligations: the units written are the UTF-16/UTF-32 (or byte) encoding; if the string is shorter
than the array exactly one zero unit follows and later units are untouched; too-long strings are
rejected with nothing written; ffi.string() of the result decodes back to the same string.
"""
import json
import z3
from vf import common, irgen, llsym, pystubs, hutil
from vf.llsym import bv, simp, mask, is_c

TAGS = [
    hutil.Tag('char16_adjacent_lone_surrogates',
              lambda c: c.get('unit') == 2 and any(0xD800 <= a <= 0xDBFF and 0xDC00 <= b <= 0xDFFF
                                                   for a, b in zip(c['cps'], c['cps'][1:])),
              lambda i: z3.Or(*[z3.And(z3.UGE(a, 0xD800), z3.ULE(a, 0xDBFF), z3.UGE(b, 0xDC00), z3.ULE(b, 0xDFFF))
                                for a, b in zip(i['_cps32'], i['_cps32'][1:])]) if len(i['_cps32']) > 1 else z3.BoolVal(False)),
]

REPLAY = r'''
# Replay for C15 against the real cffi build.
import sys, json, cffi
case = json.loads(%r)
ffi = cffi.FFI()
unit, cps, n_arr, old = case['unit'], case['cps'], case['n_arr'], case['old']
bad = []
if unit == 1:
    s = bytes(cps); tname = 'char'; zero = b'\0'
    enc = list(s)
else:
    s = ''.join(chr(c) for c in cps); tname = {2: 'char16_t', 4: 'char32_t'}[unit]
    enc = []
    for c in cps:
        if unit == 2 and c > 0xFFFF:
            c -= 0x10000; enc += [0xD800 | (c >> 10), 0xDC00 | (c & 0x3FF)]
        else:
            enc.append(c)
a = ffi.new('%%s[%%d]' %% (tname, n_arr))
itype = {1: 'unsigned char', 2: 'uint16_t', 4: 'uint32_t'}[unit]
raw = ffi.cast(itype + ' *', a)
for k in range(n_arr):
    raw[k] = old[k]
try:
    a[0:0] = a[0:0]
    ffi.cast(tname + '(*)[%%d]' %% n_arr, a)[0] = s
    ok = True
except IndexError:
    ok = False
now = [raw[k] for k in range(n_arr)]
if len(enc) > n_arr:
    if ok or now != old:
        bad.append('string of %%d units into %%s[%%d]: accepted=%%s, memory changed=%%s' %% (len(enc), tname, n_arr, ok, now != old))
else:
    want = enc + ([0] if len(enc) < n_arr else []) + old[len(enc) + 1:]
    if not ok:
        bad.append('string of %%d units into %%s[%%d] rejected' %% (len(enc), tname, n_arr))
    elif now != want:
        bad.append('%%s[%%d] <- %%r over %%r: memory %%r, expected %%r' %% (tname, n_arr, s, old, now, want))
    else:
        back = ffi.string(a)
        if back != s:
            bad.append('%%s: %%r round-trips to %%r' %% (tname, s, back))
for b in bad:
    print('VIOLATED:', b)
sys.exit(1 if bad else 0)
'''


def make_replay(chk):
    def replay(case):
        path = chk.write_replay('u%d-k%d-n%d' % (case['unit'], len(case['cps']), case['n_arr']), REPLAY % json.dumps(case))
        rc, out = common.run_replay(path)
        return common.replay_verdict(rc, out), path
    return replay


def worker(args):
    prop, tier, unit, skind, k, n_arr = args
    chk = hutil.sub_check(prop, tier)
    mod = irgen.backend()
    L = pystubs.CffiLayout(mod)
    F = L.flags
    replay = make_replay(chk)

    def parse(ex, a_, kw_, fmt, keywords, *outs):
        ex.mem.store(outs[1], ex.ghost['cd'], 8)
        ex.mem.store(outs[2], mask(64), 8)       # maxlen = -1
        return 1
    ex = llsym.Executor(mod, pystubs.stubs(_PyArg_ParseTupleAndKeywords_SizeT=parse), loop_bound=24)
    label = 'unit%d:%s:len%d:arr%d' % (unit, skind, k, n_arr)

    def h(ex):
        py = pystubs.PyEnv(ex)
        ub = 8 * unit
        item = pystubs.new_ctype(ex, L, unit, F['CT_PRIMITIVE_CHAR'] | F['CT_PRIMITIVE_FITS_LONG'])
        ptr = pystubs.new_ctype(ex, L, 8, F['CT_POINTER'], itemdescr=item)
        arr = pystubs.new_ctype(ex, L, n_arr * unit, F['CT_ARRAY'], itemdescr=item, stuff=ptr, length=n_arr)
        data = ex.mem.alloc(n_arr * unit, 'array', 'input')
        old = [z3.BitVec('old%d' % j, ub) for j in range(n_arr)]
        for j, o in enumerate(old):
            ex.mem.store(data.base + unit * j, o, unit)
        inputs = dict(('old%d' % j, o) for j, o in enumerate(old))
        # the string
        if unit == 1:
            cps = [z3.BitVec('c%d' % j, 8) for j in range(k)]
            for c in cps:
                ex.assume(c != 0)
            init = py.new_bytes(cps)
            cps32 = [z3.ZeroExt(24, c) for c in cps]
        else:
            sk = {'ascii': 1, 'latin1': 1, 'ucs2': 2, 'ucs4': 4}[skind]
            cps = [z3.BitVec('c%d' % j, 8 * sk) for j in range(k)]
            for c in cps:
                ex.assume(c != 0)
                if skind == 'ascii':
                    ex.assume(z3.ULT(c, 128))
                if skind == 'ucs4':
                    ex.assume(z3.ULE(c, 0x10FFFF))
            init = py.new_unicode(cps, (1, skind) if sk == 1 else sk)
            cps32 = [z3.ZeroExt(32 - 8 * sk, c) if sk < 4 else c for c in cps]
        for j, c in enumerate(cps):
            inputs['c%d' % j] = c
        inputs['_cps32'] = cps32

        def rp(case):
            return replay({'unit': unit, 'cps': [case['c%d' % j] for j in range(k)], 'n_arr': n_arr,
                           'old': [case['old%d' % j] for j in range(n_arr)]})
        extra = {'unit': unit}

        def disch(name, prop_):
            ins = dict((kk, vv) for kk, vv in inputs.items() if kk != '_cps32')
            # tags need cps: provide through extra_case at failure time
            excl_inputs = inputs

            def describe(c):
                return '%s: string %r into array of %d (previous %r)' % (
                    label, [c['c%d' % j] for j in range(k)], n_arr, [c['old%d' % j] for j in range(n_arr)])
            # hutil.discharge evaluates Tag.symbolic on `inputs`: pass the full dict but evaluate only BV entries
            return _discharge(chk, ex, label + ':' + name, prop_, ins, inputs, rp, describe, extra, k)

        r = simp(ex.call('convert_array_from_object', [data.base, arr, init]))
        now = [bv(ex.mem.load(data.base + unit * j, unit), ub) for j in range(n_arr)]
        # expected encoding
        enc = []           # list of (cond, unit expr) is complicated: fork on astral characters instead
        for c in cps32:
            if unit == 2 and ex.decide(z3.UGT(c, 0xFFFF)):
                cc = c - 0x10000
                enc.append(z3.Extract(15, 0, 0xD800 | z3.LShR(cc, 10)))
                enc.append(z3.Extract(15, 0, 0xDC00 | (cc & 0x3FF)))
            else:
                enc.append(z3.Extract(ub - 1, 0, c))
        ne = len(enc)
        if ne > n_arr:
            hutil.witness(chk, ex, label + ':too-long')
            disch('too-long=>IndexError', (r != 0) and py.exc == 'PyExc_IndexError')
            disch('too-long=>nothing-written', z3.And(*[now[j] == old[j] for j in range(n_arr)]))
            return
        hutil.witness(chk, ex, label + ':fits(%d units)' % ne)
        disch('fits=>accepted', (r == 0) and py.exc is None)
        if r != 0:
            return
        conds = [now[j] == enc[j] for j in range(ne)]
        disch('units==encoding', z3.And(*conds) if conds else True)
        if ne < n_arr:
            disch('one-terminating-zero', now[ne] == 0)
            rest = [now[j] == old[j] for j in range(ne + 1, n_arr)]
            disch('later-elements-untouched', z3.And(*rest) if rest else True)
        # round trip through ffi.string(array)
        cd = pystubs.new_cdata(ex, L, arr, data.base)
        ex.ghost['cd'] = cd
        if ne == n_arr or True:
            res = simp(ex.call('b_string', [0, 0, 0]))
            okk = is_c(res) and res != 0 and py.exc is None
            disch('ffi.string-succeeds', okk)
            if not okk:
                return
            # what a correct write leaves in the array: the encoding, then (if room) a zero
            if unit == 1:
                got = [z3.ZeroExt(24, bv(b, 8)) for b in py.info(res)['data']]
            else:
                kind2, gcps = py.read_unicode(res)
                got = [z3.ZeroExt(32 - 8 * kind2, bv(c, 8 * kind2)) if kind2 < 4 else bv(c, 32) for c in gcps]
            # the array may not be terminated when ne == n_arr: ffi.string then stops at the array length
            same = (len(got) == len(cps32)) and z3.And(*[g == c for g, c in zip(got, cps32)]) if cps32 else (len(got) == 0)
            if same is False:
                same = z3.BoolVal(False)
            if ne < n_arr or True:
                # only when the write path put the terminator (checked above) is the scan well-defined;
                # otherwise ffi.string stops at the array length, which is also the string's end
                disch('ffi.string==original', same)

    def on_oob(ex, what_, model):
        chk.report_failure('%s: access outside the array/string: %s' % (label, what_), {}, None, None)
    ex.on_oob = on_oob
    res = ex.explore(h, max_paths=20000)
    hutil.finish_explore(chk, ex, res, label)
    chk.functions = irgen.func_info(mod, sorted(ex.called))
    return hutil.export(chk)


def _discharge(chk, ex, name, prop_, ins, inputs, rp, describe, extra, k):
    import time
    excl = []
    for rnd in range(4):
        t = time.time()
        m = ex.sat(llsym.b_and(llsym.b_not(prop_), *[llsym.b_not(e) for e in excl]))
        dt = time.time() - t
        if m is None:
            chk.query(name, 'unsat', dt)
            return True
        case = {kk: hutil.mval(m, vv) for kk, vv in ins.items()}
        case.update(extra)
        case['cps'] = [case['c%d' % j] for j in range(k)]
        ctags = {t_.name: True for t_ in TAGS if t_.concrete(case)}
        ok, script = rp(case)
        chk.query(name, 'sat', dt, detail=describe(case)[:300])
        res = chk.report_failure('%s: %s' % (name, describe(case)), ctags, script, ok)
        if res == 'known':
            rec = chk.match_known(ctags)
            excl.append(llsym.b_and(*[t_.symbolic(inputs) for t_ in TAGS if t_.name in rec.get('match', {})]))
            continue
        return False
    return False


def run(chk):
    quick = chk.tier == 'quick'
    P = (chk.prop, chk.tier)
    K = 2 if quick else 5
    cases = []
    for k in range(0, K + 1):
        for n_arr in range(1, K + 2):
            cases.append(P + (1, 'bytes', k, n_arr))
            for skind in (('ucs2', 'ucs4') if quick else ('ascii', 'latin1', 'ucs2', 'ucs4')):
                if k == 0 and skind != 'ucs2':
                    continue
                cases.append(P + (2, skind, k, n_arr + (1 if skind == 'ucs4' and n_arr == K + 1 else 0)))
                cases.append(P + (4, skind, k, n_arr))
    chk.bounds = {'string length': '0..%d code points / bytes, every non-zero value of the storage kind '
                  '(incl. lone surrogates, astral characters up to U+10FFFF)' % K,
                  'array length': '1..%d elements, any previous content' % (K + 2),
                  'element types': ['char', 'char16_t', 'char32_t (= wchar_t on this platform)']}
    chk.outside = ['longer strings/arrays (loops are per-character)', 'ffi.unpack of character arrays',
                   'strings containing U+0000 (excluded by the statement)', 'maxlen argument of ffi.string']
    chk.assume('CPython contracts: PyUnicode_AsUCS4, PyUnicode_FromKindAndData, PyUnicode_New; compact str layout of 3.12')
    irgen.backend()
    hutil.run_cases(chk, cases, worker)
