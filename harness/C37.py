"""C37 -- closed dlopen libraries refuse further symbol access.

llsym on the real IR of the in-line backend library object (dl_load_function, dl_read_variable,
dl_write_variable, dl_close_lib, dl_check_closed, dl_dealloc) and of the out-of-line one
(ffi_dlclose, cdlopen_fetch, cdlopen_close, lib_getattr, lib_setattr, read_global_var,
write_global_var, fetch_global_var_addr).
The library's memory is a region that the dlclose stub marks as unmapped: any later load/store
through a cached symbol address is reported.  dlsym/dlclose calls are recorded.
Each operation is one step from the closed (resp. open) state, which every step preserves, so any
access history after a close is covered.
"""
import json
import z3
from vf import common, irgen, llsym, pystubs, hutil
from vf.llsym import bv, simp, mask, is_c
from vf.pystubs import W, V_const


def worker(args):
    prop, tier, what = args
    chk = hutil.sub_check(prop, tier)
    mod = irgen.backend()
    L = pystubs.CffiLayout(mod)
    F = L.flags
    label = ':'.join(str(w) for w in what)

    def dlsym(ex, handle, name):
        g = ex.ghost
        g['calls'].append(('dlsym', simp(handle)))
        lib = g.get('libmem')
        return lib.base if lib is not None else 0

    def dlclose(ex, handle):
        g = ex.ghost
        g['calls'].append(('dlclose', simp(handle)))
        lib = g.get('libmem')
        if lib is not None:
            lib.freed = True
        return 0

    def dlerror(ex):
        r = ex.mem.alloc(8, 'dlerror text', 'heap', fill=0)
        return r.base

    def pyobject_del(ex, o):
        return None
    st = pystubs.stubs(dlsym=dlsym, dlclose=dlclose, dlerror=dlerror, PyObject_Free=pyobject_del, free=lambda ex, p: None)
    ex = llsym.Executor(mod, st, loop_bound=16)

    def on_oob(ex, what_, model):
        chk.report_failure('%s: the unloaded library is touched: %s' % (label, what_), {}, None, None)
    ex.on_oob = on_oob

    def setup_common(ex):
        py = pystubs.PyEnv(ex)
        g = ex.ghost
        g['calls'] = []
        g['libmem'] = ex.mem.alloc(16, 'memory of the dlopen()ed library', 'input', fill=0)
        return py, g

    if what[0] == 'inline':
        op, state = what[1], what[2]

        def h(ex):
            py, g = setup_common(ex)
            handle = 0 if state == 'closed' else z3.BitVec('handle', 64)
            if state == 'open':
                ex.assume(handle != 0)
            else:
                g['libmem'].freed = True
            name = ex.mem.alloc(8, 'dl_name', 'heap', fill=0)
            dl = py.new_obj('clibrary', 'dl_type', 40)
            ex.mem.store(dl + 16, handle, 8)
            ex.mem.store(dl + 24, name.base, 8)
            auto = z3.BitVec('auto_close', 32)
            ex.mem.store(dl + 32, auto, 4)
            ct = pystubs.new_ctype(ex, L, 4, F['CT_PRIMITIVE_SIGNED'] | F['CT_PRIMITIVE_FITS_LONG'], length=4)
            fct = pystubs.new_ctype(ex, L, 8, F['CT_FUNCTIONPTR'])
            sym = ex.mem.alloc(8, 'symbol name', 'heap', fill=0)
            val = py.new_int(V_const(5))

            def parse(ex2, a_, fmt, *outs):
                fm = ''.join(chr(simp(ex2.mem.load(simp(fmt) + k, 1))) for k in range(6))
                if fm.startswith('O!s:'):
                    ex2.mem.store(outs[1], fct if op == 'load_function' else ct, 8)
                    ex2.mem.store(outs[2], sym.base, 8)
                elif fm.startswith('O!sO'):
                    ex2.mem.store(outs[1], ct, 8)
                    ex2.mem.store(outs[2], sym.base, 8)
                    ex2.mem.store(outs[3], val, 8)
                return 1
            ex.stubs['_PyArg_ParseTuple_SizeT'] = parse
            fn = {'load_function': 'dl_load_function', 'read_variable': 'dl_read_variable',
                  'write_variable': 'dl_write_variable', 'close_lib': 'dl_close_lib', 'dealloc': 'dl_dealloc'}[op]
            r = ex.call(fn, [dl, 0] if op != 'dealloc' else [dl])
            r = simp(r) if r is not None else None
            calls = g['calls']
            inputs = {'auto_close': auto}
            if state == 'open':
                inputs['handle'] = handle
            hutil.witness(chk, ex, label)
            if state == 'closed':
                hutil.discharge(chk, ex, label + ':no-dlsym-no-dlclose', len(calls) == 0, inputs)
                if op in ('load_function', 'read_variable', 'write_variable'):
                    hutil.discharge(chk, ex, label + ':raises', (r == 0) and py.exc is not None, inputs)
                elif op == 'close_lib':
                    hutil.discharge(chk, ex, label + ':closing-again-is-harmless', (r != 0) and py.exc is None, inputs)
                hutil.discharge(chk, ex, label + ':stays-closed', simp(ex.mem.load(dl + 16, 8)) == 0, inputs) \
                    if op != 'dealloc' else None
            else:
                if op == 'close_lib':
                    hutil.discharge(chk, ex, label + ':dlclose-once-with-the-handle',
                                    (len(calls) == 1 and calls[0][0] == 'dlclose') and (bv(calls[0][1], 64) == handle), inputs)
                    hutil.discharge(chk, ex, label + ':handle-cleared', simp(ex.mem.load(dl + 16, 8)) == 0, inputs)
                elif op == 'dealloc':
                    nclose = len([c for c in calls if c[0] == 'dlclose'])
                    hutil.discharge(chk, ex, label + ':dlclose-iff-auto_close', z3.BoolVal(nclose == 1) == (auto != 0)
                                    if nclose <= 1 else False, inputs)
                else:
                    hutil.discharge(chk, ex, label + ':uses-dlsym-on-the-handle',
                                    len(calls) >= 1 and calls[0][0] == 'dlsym' and (bv(calls[0][1], 64) == handle), inputs)
    else:
        op, ncached = what[1], what[2]

        def h(ex):
            py, g = setup_common(ex)
            handle = z3.BitVec('handle', 64)
            ex.assume(handle != 0)
            libname = py.new_unicode([ord('l')], 1)
            d = pystubs.PyDict_New(ex)
            lib = py.new_obj('lib', 'Lib_Type', 64)
            # LibObject: l_types_builder(16) l_dict(24) l_libname(32) l_ffi(40) l_libhandle(48) l_auto_close(56)
            ex.mem.store(lib + 24, d, 8)
            ex.mem.store(lib + 32, libname, 8)
            ex.mem.store(lib + 48, handle, 8)
            ex.mem.store(lib + 56, 1, 4)
            ct = pystubs.new_ctype(ex, L, 4, F['CT_PRIMITIVE_SIGNED'] | F['CT_PRIMITIVE_FITS_LONG'], length=4)
            # cached entries: a global variable (GlobSupport with the dlsym address), a function cdata, a constant
            varname = py.new_unicode([ord('v')], 1)
            gs = py.new_obj('globsupport', 'GlobSupport_Type', 48)
            ex.mem.store(gs + 16, varname, 8)
            ex.mem.store(gs + 24, ct, 8)
            ex.mem.store(gs + 32, g['libmem'].base, 8)
            ex.mem.store(gs + 40, 0, 8)
            fname = py.new_unicode([ord('f')], 1)
            fct = pystubs.new_ctype(ex, L, 8, F['CT_FUNCTIONPTR'])
            fcd = pystubs.new_cdata(ex, L, fct, g['libmem'].base + 8)
            cname = py.new_unicode([ord('c')], 1)
            cval = py.new_int(V_const(42))
            entries = [(varname, gs), (fname, fcd), (cname, cval)][:ncached]
            for k_, v_ in entries:
                pystubs.PyDict_SetItem(ex, d, k_, v_)

            def parse(ex2, a_, fmt, *outs):
                ex2.mem.store(outs[1], lib, 8)
                return 1
            ex.stubs['_PyArg_ParseTuple_SizeT'] = parse

            def slow_path(ex2, lib_, name_, recursion):
                # model of lib_build_and_cache_attr for a dlopen()ed library: the symbol is resolved through the
                # real cdlopen_fetch() with the library's *current* handle (all call sites do, see assumptions)
                nm = ex2.mem.alloc(8, 'symbol', 'heap', fill=0)
                a = ex2.call('cdlopen_fetch', [ex2.mem.load(simp(lib_) + 32, 8), ex2.mem.load(simp(lib_) + 48, 8), nm.base])
                if is_c(simp(a)) and simp(a) == 0:
                    return 0
                o = py.new_obj('globsupport', 'GlobSupport_Type', 48)
                ex2.mem.store(o + 16, name_, 8)
                ex2.mem.store(o + 24, ct, 8)
                ex2.mem.store(o + 32, a, 8)
                pystubs.PyDict_SetItem(ex2, ex2.mem.load(simp(lib_) + 24, 8), name_, o)
                return o
            ex.stubs['lib_build_and_cache_attr'] = slow_path
            ex.stubs['PyEval_SaveThread'] = lambda ex2: 0
            ex.stubs['PyEval_RestoreThread'] = lambda ex2, t: None
            r = simp(ex.call('ffi_dlclose', [0, 0]))
            calls = g['calls']
            inputs = {'handle': handle}
            hutil.witness(chk, ex, label)
            hutil.discharge(chk, ex, label + ':close-succeeds', (r != 0) and py.exc is None, inputs)
            hutil.discharge(chk, ex, label + ':dlclose-once-with-the-handle',
                            (len(calls) == 1 and calls[0][0] == 'dlclose') and (bv(calls[0][1], 64) == handle), inputs)
            hutil.discharge(chk, ex, label + ':handle-cleared', simp(ex.mem.load(lib + 48, 8)) == 0, inputs)
            hutil.discharge(chk, ex, label + ':no-cached-symbol-survives', len(pystubs._dict_items(ex, d)) == 0, inputs)
            del calls[:]
            if op == 'read':
                x = simp(ex.call('lib_getattr', [lib, varname]))
                hutil.discharge(chk, ex, label + ':read-after-close-raises', (x == 0) and py.exc is not None, inputs)
            elif op == 'write':
                x = simp(ex.call('lib_setattr', [lib, varname, py.new_int(V_const(7))]))
                hutil.discharge(chk, ex, label + ':write-after-close-raises', (x != 0) and py.exc is not None, inputs)
            elif op == 'fetch-function':
                x = simp(ex.call('lib_getattr', [lib, fname]))
                hutil.discharge(chk, ex, label + ':function-fetch-after-close-raises', (x == 0) and py.exc is not None, inputs)
            else:
                py.exc = None
                x = simp(ex.call('ffi_dlclose', [0, 0]))
                hutil.discharge(chk, ex, label + ':closing-again-is-harmless', (x != 0) and py.exc is None, inputs)
            hutil.discharge(chk, ex, label + ':no-dlsym-no-dlclose-after-close', len(calls) == 0, inputs)

    res = ex.explore(h, max_paths=2000)
    hutil.finish_explore(chk, ex, res, label)
    chk.functions = irgen.func_info(mod, sorted(ex.called))
    return hutil.export(chk)


def run(chk):
    P = (chk.prop, chk.tier)
    cases = []
    for op in ('load_function', 'read_variable', 'write_variable', 'close_lib', 'dealloc'):
        for state in ('closed', 'open'):
            cases.append(P + (('inline', op, state),))
    for op in ('read', 'write', 'fetch-function', 'close-again'):
        for ncached in (0, 1, 2, 3):
            cases.append(P + (('outofline', op, ncached),))
    chk.bounds = {'in-line backend library': 'every accessor from the closed and from the open state, any handle / auto_close flag',
                  'out-of-line library': 'ffi.dlclose() with 0..3 cached attributes (global variable, function, constant) '
                  'followed by a read, a write, a function fetch or a second close'}
    chk.outside = ['the Python wrapper FFILibrary in api.py (it forwards every variable access to the backend object and '
                   'clears its own cache in __cffi_close__)', 'lib_build_and_cache_attr beyond its use of cdlopen_fetch',
                   'dlopen()/dlsym() themselves']
    chk.assume('for dlopen()ed libraries every symbol resolution in lib_build_and_cache_attr goes through cdlopen_fetch() '
               'with lib->l_libhandle (the three call sites in lib_obj.c)')
    chk.assume('dlclose() unmaps the library: its memory is marked freed in the model and any access is reported')
    irgen.backend()
    hutil.run_cases(chk, cases, worker)
