"""C01 -- ABI-mode struct and union layout equals the C compiler's layout.

llsym (path mode) on the real IR of b_complete_struct_or_union_lock_held, complete_sflags,
get_alignment, detect_custom_layout.  The field list is a concrete sequence of field *kinds*; within
each kind the sizes, alignments, bit widths and named/anonymous flags are symbolic.  The oracle is an
independent statement of the SysV x86-64 / GCC rule at bit granularity (specs below), itself
validated against gcc on concrete samples at every run.
Nested aggregates are represented by (size, alignment, has-var-array) under the inductive assumption
"alignment is a power of two and size is a multiple of it", which the harness also proves of the
function's own result.
"""
import json, os, random, subprocess, tempfile, itertools
import z3
from vf import common, irgen, llsym, pystubs, hutil
from vf.llsym import bv, simp, mask, is_c

KINDS = ['prim', 'ptr', 'array', 'nested', 'bitfield', 'flex']


# ----------------------------------------------------------------------------------------------
# reference model (symbolic: z3 BV64 terms)

def roundup(x, a):
    return (x + (a - 1)) & ~(a - 1)


def zmin(a, b):
    return z3.If(z3.ULT(a, b), a, b)


def zmax(a, b):
    return z3.If(z3.UGT(a, b), a, b)


def spec_layout(fields, is_union, pack):
    """fields: list of dict(kind, size, align, width, named) with z3 BV64 / python values.
    pack: python int (0 = none).  Returns (per-field dict(bitpos, offset, shift, has_field), size, align, var_array)"""
    B = lambda v: v if not isinstance(v, int) else z3.BitVecVal(v, 64)
    pos = B(0)          # running position in bits
    maxpos = B(0)
    salign = B(1)
    out = []
    var_array = z3.BoolVal(False)
    for f in fields:
        size, align = B(f['size']), B(f['align'])
        if is_union:
            pos = B(0)
        a = zmin(align, B(pack)) if pack else align
        if f['kind'] == 'bitfield':
            w = B(f['width'])
            unit = pos & ~(8 * a - 1)                       # start of the aligned storage unit, in bits
            crosses = z3.UGT(pos + w, unit + 8 * size)
            start = z3.If(crosses, unit + 8 * a, pos)
            zero_pos = roundup(pos, 8 * a)
            newpos = z3.If(w == 0, zero_pos, start + w)
            ustart = start & ~(8 * a - 1)
            out.append({'bitpos': start, 'offset': z3.LShR(ustart, 3), 'shift': start - ustart,
                        'has_field': z3.And(w != 0, f['named']), 'width': w})
            salign = z3.If(f['named'], zmax(salign, a), salign)
            pos = newpos
        else:
            pos = roundup(pos, 8 * a)
            out.append({'bitpos': pos, 'offset': z3.LShR(pos, 3), 'shift': None, 'has_field': z3.BoolVal(True)})
            salign = zmax(salign, a)
            if f['kind'] == 'flex':
                var_array = z3.BoolVal(True)
            else:
                pos = pos + 8 * size
            if f['kind'] == 'nested':
                var_array = z3.Or(var_array, f['vararray'])
        maxpos = zmax(maxpos, pos)
    nbytes = z3.LShR(maxpos + 7, 3)
    total = roundup(nbytes, salign)
    total = z3.If(total == 0, B(1), total)
    return out, total, salign, var_array


# ----------------------------------------------------------------------------------------------
# validation of the reference model against gcc (concrete samples)

CTYPES = {1: 'char', 2: 'short', 4: 'int', 8: 'long long', 16: 'long double'}


def gcc_validate(chk, n_samples):
    rnd = random.Random(chk.seed)
    decls = []
    for s in range(n_samples):
        is_union = rnd.random() < 0.25
        pack = rnd.choice([0, 0, 0, 1, 2, 4])
        nf = rnd.randint(1, 5)
        fields = []
        for i in range(nf):
            kind = rnd.choice(['prim', 'ptr', 'array', 'nested', 'bitfield', 'bitfield'] + (['flex'] if i == nf - 1 and not is_union and i > 0 else []))
            if pack and kind == 'bitfield':
                kind = 'prim'
            if kind == 'prim':
                sz = rnd.choice([1, 2, 4, 8, 16])
                fields.append(dict(kind='prim', size=sz, align=sz, c='%s f%d;' % (CTYPES[sz], i)))
            elif kind == 'ptr':
                fields.append(dict(kind='ptr', size=8, align=8, c='void *f%d;' % i))
            elif kind == 'array':
                sz = rnd.choice([1, 2, 4, 8])
                k = rnd.randint(1, 5)
                fields.append(dict(kind='array', size=sz * k, align=sz, c='%s f%d[%d];' % (CTYPES[sz], i, k)))
            elif kind == 'nested':
                a, b = rnd.choice([1, 2, 4, 8]), rnd.choice([1, 2, 4, 8])
                al = max(a, b)
                size = (max(a, 0) + b + (al - 1)) // al * al if a <= b else ((a + b + al - 1) // al * al)
                # struct { Ta x; Tb y; }: compute by the plain rule
                off_b = (a + b - 1) // b * b
                size = (off_b + b + al - 1) // al * al
                fields.append(dict(kind='nested', size=size, align=al, vararray=False,
                                   pre='struct N%d_%d { %s x; %s y; };' % (s, i, CTYPES[a], CTYPES[b]),
                                   c='struct N%d_%d f%d;' % (s, i, i)))
            elif kind == 'bitfield':
                sz = rnd.choice([1, 2, 4, 8])
                named = rnd.random() < 0.8
                w = rnd.randint(0 if not named else 1, 8 * sz)
                sign = rnd.choice(['signed ', 'unsigned '])
                fields.append(dict(kind='bitfield', size=sz, align=sz, width=w, named=named,
                                   c='%s%s %s:%d;' % (sign, CTYPES[sz], ('f%d' % i) if named else '', w)))
            else:
                sz = rnd.choice([1, 2, 4, 8])
                fields.append(dict(kind='flex', size=0, align=sz, c='%s f%d[];' % (CTYPES[sz], i)))
        if not any(f['kind'] != 'bitfield' or f['named'] for f in fields):
            fields.append(dict(kind='prim', size=1, align=1, c='char f%d;' % len(fields)))
        decls.append((is_union, pack, fields))
    # C program
    lines = ['#include <stdio.h>', '#include <stddef.h>', '#include <string.h>']
    body = []
    for s, (is_union, pack, fields) in enumerate(decls):
        kw = 'union' if is_union else 'struct'
        for f in fields:
            if 'pre' in f:
                lines.append(f['pre'])
        if pack:
            lines.append('#pragma pack(push, %d)' % pack)
        lines.append('%s S%d { %s };' % (kw, s, ' '.join(f['c'] for f in fields)))
        if pack:
            lines.append('#pragma pack(pop)')
        body.append('printf("S %d %%zu %%zu\\n", sizeof(%s S%d), _Alignof(%s S%d));' % (s, kw, s, kw, s))
        for i, f in enumerate(fields):
            if f['kind'] == 'bitfield':
                if f['named'] and f['width'] > 0:
                    body.append('{ %s S%d v; unsigned char *p = (unsigned char*)&v; memset(&v, 0, sizeof v); v.f%d = -1; '
                                'long lo = -1; for (size_t k = 0; k < 8 * sizeof v; k++) if (p[k / 8] >> (k %% 8) & 1) { lo = k; break; } '
                                'printf("B %d %d %%ld\\n", lo); }' % (kw, s, i, s, i))
            else:
                body.append('printf("F %d %d %%zu\\n", offsetof(%s S%d, f%d));' % (s, i, kw, s, i))
    src = '\n'.join(lines) + '\nint main(void) {\n' + '\n'.join(body) + '\nreturn 0; }\n'
    d = os.path.join(common.scratch_dir(), 'gccval')
    os.makedirs(d, exist_ok=True)
    open(os.path.join(d, 't.c'), 'w').write(src)
    r = subprocess.run(['gcc', '-w', '-o', os.path.join(d, 't'), os.path.join(d, 't.c')], capture_output=True)
    if r.returncode != 0:
        raise common.HarnessError('gcc failed on the layout validation program: ' + r.stderr.decode()[-1500:])
    out = subprocess.run([os.path.join(d, 't')], capture_output=True).stdout.decode().split('\n')
    gcc = {}
    for l in out:
        p = l.split()
        if p:
            gcc[tuple(p[:3]) if p[0] != 'S' else ('S', p[1])] = [int(x) for x in (p[2:] if p[0] == 'S' else p[3:])]
    bad = 0
    for s, (is_union, pack, fields) in enumerate(decls):
        fl = []
        for f in fields:
            g = dict(f)
            g['named'] = z3.BoolVal(bool(f.get('named', True)))
            g['vararray'] = z3.BoolVal(False)
            g['width'] = f.get('width', 0)
            fl.append(g)
        per, total, salign, va = spec_layout(fl, is_union, pack)
        ev = lambda t: z3.simplify(t).as_long()
        mine = [ev(total), ev(salign)]
        if mine != gcc[('S', str(s))]:
            bad += 1
            print('spec/gcc disagree on size/align of', ' '.join(f['c'] for f in fields), mine, gcc[('S', str(s))])
        for i, f in enumerate(fields):
            if f['kind'] == 'bitfield':
                if f['named'] and f['width'] > 0 and [ev(per[i]['bitpos'])] != gcc[('B', str(s), str(i))]:
                    bad += 1
                    print('spec/gcc disagree on bit position', f['c'], 'in', ' '.join(x['c'] for x in fields),
                          ev(per[i]['bitpos']), gcc[('B', str(s), str(i))])
            elif [ev(per[i]['offset'])] != gcc[('F', str(s), str(i))]:
                bad += 1
                print('spec/gcc disagree on offset', f['c'], 'in', ' '.join(x['c'] for x in fields),
                      ev(per[i]['offset']), gcc[('F', str(s), str(i))])
    chk.extra['reference_model_vs_gcc'] = {'structs': n_samples, 'disagreements': bad}
    if bad:
        chk.harness_error('the SysV reference model disagrees with gcc on %d items' % bad)


# ----------------------------------------------------------------------------------------------

REPLAY = r'''
# Replay for C01: cffi's layout of the declaration vs gcc's.
import sys, json, subprocess, tempfile, os
import cffi
case = json.loads(%r)
decl, kw, names, bitfields = case['decl'], case['kw'], case['names'], case['bitfields']
ffi = cffi.FFI()
bad = []
try:
    ffi.cdef(decl, pack=case['pack'] or None)
    ct = ffi.typeof(kw + ' S')
    mine = {'size': ffi.sizeof(ct), 'align': ffi.alignof(ct)}
    flds = dict(ct.fields)
    for n in names:
        mine[n] = flds[n].offset
    for n in bitfields:
        mine['bit:' + n] = 8 * flds[n].offset + flds[n].bitshift
except Exception as e:
    print('VIOLATED: declaration rejected: %%s: %%s' %% (type(e).__name__, e))
    sys.exit(1)
d = tempfile.mkdtemp()
lines = ['#include <stdio.h>', '#include <stddef.h>', '#include <string.h>']
if case['pack']:
    lines.append('#pragma pack(push, %%d)' %% case['pack'])
lines.append(decl)
body = ['printf("size %%%%zu\\nalign %%%%zu\\n", sizeof(%%s S), _Alignof(%%s S));' %% (kw, kw)]
for n in names:
    body.append('printf("%%s %%%%zu\\n", offsetof(%%s S, %%s));' %% (n, kw, n))
for n in bitfields:
    body.append('{ %%s S v; unsigned char *p = (unsigned char*)&v; memset(&v, 0, sizeof v); v.%%s = -1; long lo = -1; '
                'for (size_t k = 0; k < 8 * sizeof v; k++) if (p[k / 8] >> (k %%%% 8) & 1) { lo = k; break; } printf("bit:%%s %%%%ld\\n", lo); }' %% (kw, n, n))
open(os.path.join(d, 't.c'), 'w').write('\n'.join(lines) + '\nint main(void){' + '\n'.join(body) + 'return 0;}')
r = subprocess.run(['gcc', '-w', '-o', os.path.join(d, 't'), os.path.join(d, 't.c')], capture_output=True)
if r.returncode != 0:
    print('gcc rejects the declaration', r.stderr.decode()[-300:]); sys.exit(0)
want = {}
for l in subprocess.run([os.path.join(d, 't')], capture_output=True).stdout.decode().split('\n'):
    if l.strip():
        k, v = l.split(); want[k] = int(v)
if mine != want:
    print('VIOLATED: %%s: cffi %%r, gcc %%r' %% (decl, mine, want))
    sys.exit(1)
sys.exit(0)
'''


def make_replay(chk):
    def replay(case):
        path = chk.write_replay('layout', REPLAY % json.dumps(case))
        rc, out = common.run_replay(path, timeout=120)
        return common.replay_verdict(rc, out), path
    return replay


def decl_from_model(kinds, is_union, m, vars_):
    """C declaration realising a model (None if some field cannot be written in C)"""
    parts, names, bitfields = [], [], []
    pre = []
    for i, (k, v) in enumerate(zip(kinds, vars_)):
        g = lambda name: hutil.mval(m, v[name]) if name in v else None
        if k == 'prim':
            sz = g('size')
            if sz not in CTYPES:
                return None
            parts.append('%s f%d;' % (CTYPES[sz], i))
            names.append('f%d' % i)
        elif k == 'ptr':
            parts.append('void *f%d;' % i)
            names.append('f%d' % i)
        elif k == 'array':
            es, cnt = g('esize'), g('count')
            if es not in (1, 2, 4, 8) or not (1 <= cnt <= 64):
                return None
            parts.append('%s f%d[%d];' % (CTYPES[es], i, cnt))
            names.append('f%d' % i)
        elif k == 'nested':
            sz, al = g('size'), g('align')
            if al not in (1, 2, 4, 8) or sz % al or not (al <= sz <= 64):
                return None
            pre.append('struct N%d { %s a[%d]; };' % (i, CTYPES[al], sz // al))
            parts.append('struct N%d f%d;' % (i, i))
            names.append('f%d' % i)
        elif k == 'bitfield':
            sz, w, named = g('size'), g('width'), g('named')
            if sz not in (1, 2, 4, 8):
                return None
            if named:
                parts.append('unsigned %s f%d:%d;' % (CTYPES[sz], i, w))
                bitfields.append('f%d' % i)
            else:
                parts.append('unsigned %s :%d;' % (CTYPES[sz], w))
        else:
            es = g('esize')
            if es not in (1, 2, 4, 8):
                return None
            parts.append('%s f%d[];' % (CTYPES[es], i))
            names.append('f%d' % i)
    kw = 'union' if is_union else 'struct'
    return {'decl': ' '.join(pre) + ' %s S { %s };' % (kw, ' '.join(parts)), 'kw': kw, 'names': names, 'bitfields': bitfields}


def worker(args):
    prop, tier, kinds, is_union, pack = args[:5]
    fix = args[5] if len(args) > 5 else {}
    chk = hutil.sub_check(prop, tier)
    mod = irgen.backend()
    L = pystubs.CffiLayout(mod)
    F = L.flags
    replay = make_replay(chk)
    label = '%s{%s}%s%s' % ('union' if is_union else 'struct', ','.join(kinds), (' pack=%d' % pack) if pack else '',
                            ''.join(' %s=%d' % kv for kv in sorted(fix.items())))
    N = len(kinds)

    def parse(ex, item, fmt, *outs):
        g = ex.ghost
        f = g['fields'][g['item_index'][simp(item)]]
        # "O!O!|in": &PyUnicode_Type, &fname, &CTypeDescr_Type, &ftype, &fbitsize, &foffset
        ex.mem.store(outs[1], f['fname'], 8)
        ex.mem.store(outs[3], f['ctype'], 8)
        ex.mem.store(outs[4], f['fbitsize'], 4)
        return 1

    def add_field(ex, interned, fname, ftype, offset, bitshift, bitsize, flags):
        g = ex.ghost
        p = pystubs.py(ex)
        cf = pystubs.new_cfield(ex, L, ftype, offset, 0, 0)
        g['added'].append({'fname': simp(fname), 'ftype': simp(ftype), 'offset': offset, 'bitshift': bitshift,
                           'bitsize': bitsize, 'flags': flags})
        return cf

    def dict_new(ex):
        return pystubs.py(ex).new_opaque('dict')

    st = pystubs.stubs(_PyArg_ParseTuple_SizeT=parse, _add_field=add_field, PyDict_New=dict_new)
    ex = llsym.Executor(mod, st, loop_bound=N + 3, solver_timeout_ms=120000)

    def h(ex):
        py = pystubs.PyEnv(ex)
        g = ex.ghost
        g['added'] = []
        fields, vars_ = [], []
        specf = []
        pw2 = lambda a, hi: z3.Or(*[a == (1 << k) for k in range(0, hi + 1)])
        for i, k in enumerate(kinds):
            v = {}
            named = z3.BoolVal(True)
            width = None
            if k == 'prim':
                size = z3.BitVec('size%d' % i, 64)
                ex.assume(pw2(size, 4))
                align = size
                ct = pystubs.new_ctype(ex, L, size, F['CT_PRIMITIVE_SIGNED'], length=align)
                v['size'] = size
            elif k == 'ptr':
                size = align = 8
                ct = pystubs.new_ctype(ex, L, 8, F['CT_POINTER'])
            elif k == 'array':
                es = z3.BitVec('esize%d' % i, 64)
                cnt = z3.BitVec('count%d' % i, 64)
                ex.assume(z3.And(pw2(es, 3), cnt >= 1, cnt <= 64))
                item = pystubs.new_ctype(ex, L, es, F['CT_PRIMITIVE_SIGNED'], length=es)
                size, align = es * cnt, es
                ct = pystubs.new_ctype(ex, L, size, F['CT_ARRAY'], length=cnt, itemdescr=item)
                v['esize'], v['count'] = es, cnt
            elif k == 'nested':
                size = z3.BitVec('size%d' % i, 64)
                align = z3.BitVec('align%d' % i, 64)
                va = z3.Bool('vararray%d' % i)
                ex.assume(z3.And(pw2(align, 4), size >= 1, size <= 4096, (size & (align - 1)) == 0))
                ct = pystubs.new_ctype(ex, L, size, F['CT_STRUCT'], length=align)
                has_va = ex.decide(va)
                ex.mem.store(ct + L.ct['ct_flags_mut'], F['CT_WITH_VAR_ARRAY'] if has_va else 0, 4)
                v['size'], v['align'] = size, align
            elif k == 'bitfield':
                size = z3.BitVec('size%d' % i, 64)
                ex.assume(pw2(size, 3))
                align = size
                width = z3.BitVec('width%d' % i, 64)
                named = z3.Bool('named%d' % i)
                ex.assume(z3.And(width >= 0, width <= 8 * size, z3.Implies(width == 0, z3.Not(named))))
                ct = pystubs.new_ctype(ex, L, size, F['CT_PRIMITIVE_UNSIGNED'], length=align)
                v['size'], v['width'], v['named'] = size, width, named
            else:   # flex: T[] as last field
                es = z3.BitVec('esize%d' % i, 64)
                ex.assume(pw2(es, 3))
                item = pystubs.new_ctype(ex, L, es, F['CT_PRIMITIVE_SIGNED'], length=es)
                size, align = 0, es
                ct = pystubs.new_ctype(ex, L, mask(64), F['CT_ARRAY'], length=mask(64), itemdescr=item)
                v['esize'] = es
            is_named = True
            if k == 'bitfield':
                is_named = ex.decide(named)
            fname = py.new_unicode([ord('a') + i] if is_named else [], 1)
            fb = z3.Extract(31, 0, width) if width is not None else mask(32)
            fields.append({'fname': fname, 'ctype': ct, 'fbitsize': fb})
            vars_.append(v)
            specf.append({'kind': k, 'size': size, 'align': align, 'width': width if width is not None else 0,
                          'named': named, 'vararray': (z3.Bool('vararray%d' % i) if k == 'nested' else z3.BoolVal(False))})
        # C requires at least one named member (C11 6.7.2.1p8), and a flexible array member must follow one
        named_before_last = [specf[i]['named'] for i in range(N - 1 if kinds[-1] == 'flex' else N)
                             if kinds[i] != 'bitfield' or True]
        ex.assume(z3.Or(*named_before_last) if named_before_last else z3.BoolVal(True))
        for name_, val_ in fix.items():       # partition of a heavy case over several workers
            i_ = int(name_[-1])
            ex.assume(vars_[i_][name_[:-1]] == val_)
        items = [py.new_opaque('field-tuple') for _ in range(N)]
        g['fields'] = fields
        g['item_index'] = dict((it, i) for i, it in enumerate(items))
        lst = py.new_list(items)
        sct = pystubs.new_ctype(ex, L, mask(64), F['CT_UNION'] if is_union else F['CT_STRUCT'], length=mask(64))
        ex.mem.store(sct + L.ct['ct_unrealized_struct_or_union'], 1, 1)
        r = simp(ex.call('b_complete_struct_or_union_lock_held', [sct, lst, mask(64), mask(32), 0, pack]))
        per, total, salign, va = spec_layout(specf, is_union, pack)
        inputs = {}
        for i, v in enumerate(vars_):
            for kname, t in v.items():
                inputs['%s%d' % (kname, i)] = t

        def rp(case):
            class M(object):
                def eval(self, t, model_completion=True):
                    return case['_m'].eval(t, model_completion=True)
            return None, None
        # replay needs the model: wrap discharge
        import time

        def disch(name, prop_):
            t0 = time.time()
            m = ex.sat(llsym.b_not(prop_))
            dt = time.time() - t0
            if m is None:
                chk.query(label + ':' + name, 'unsat', dt)
                return True
            case = decl_from_model(kinds, is_union, m, vars_)
            vals = dict((k_, hutil.mval(m, t)) for k_, t in inputs.items())
            ok, script = (None, None)
            if case is not None:
                case['pack'] = pack
                ok, script = replay(case)
            chk.query(label + ':' + name, 'sat', dt, detail=json.dumps(vals)[:300])
            chk.report_failure('%s:%s: %s %s' % (label, name, case['decl'] if case else '(not expressible in C)', vals), {}, script, ok)
            return False

        m0 = hutil.witness(chk, ex, label + ':path%d' % (len(g['added'])))
        if m0 is not None and len(chk.samples) < 3:
            c = decl_from_model(kinds, is_union, m0, vars_)
            if c:
                chk.sample({'declaration': c['decl'], 'pack': pack})
        if not disch('accepted', is_c(r) and r == ex.gaddr('_Py_NoneStruct') and py.exc is None):
            return
        # fields recorded through _add_field, in order, one per field that has one
        added = g['added']
        ai = 0
        ok_struct = True
        for i, k in enumerate(kinds):
            hf = z3.simplify(per[i]['has_field'])
            has = ex.decide(hf) if not z3.is_true(hf) and not z3.is_false(hf) else z3.is_true(hf)
            if not has:
                continue
            if ai >= len(added):
                disch('field%d-recorded' % i, False)
                ok_struct = False
                break
            a = added[ai]
            ai += 1
            disch('field%d-type' % i, a['ftype'] == fields[i]['ctype'])
            # sequence initializers of a union set its first member only (C20 relies on this flag)
            # (only stated for aggregates whose earlier members are all named: cffi counts an unnamed bit-field as a
            #  position, so a union that *starts* with unnamed bit-fields has no member settable by position)
            if ai - 1 == i:
                want_fl = F['BF_IGNORE_IN_CTOR'] if (is_union and i > 0) else 0
                disch('field%d-ctor-flag' % i, bv(a['flags'], 32) & F['BF_IGNORE_IN_CTOR'] == want_fl)
            if k == 'bitfield':
                disch('field%d-bit-position' % i, 8 * bv(a['offset'], 64) + z3.SignExt(32, bv(a['bitshift'], 32)) == per[i]['bitpos'])
                disch('field%d-bit-width' % i, z3.SignExt(32, bv(a['bitsize'], 32)) == per[i]['width'])
                # the storage unit read by the accessors stays inside the aggregate and is aligned for its type
                disch('field%d-unit-inside' % i, z3.ULE(bv(a['offset'], 64) + specf[i]['size'], total))
            else:
                disch('field%d-offset' % i, bv(a['offset'], 64) == per[i]['offset'])
        if ok_struct:
            disch('no-extra-fields', ai == len(added))
        disch('sizeof', bv(ex.mem.load(sct + L.ct['ct_size'], 8), 64) == total)
        disch('alignof', bv(ex.mem.load(sct + L.ct['ct_length'], 8), 64) == salign)
        fm = bv(ex.mem.load(sct + L.ct['ct_flags_mut'], 4), 32)
        disch('var-array-flag', ((fm & F['CT_WITH_VAR_ARRAY']) != 0) == va)
        # inductive assumption about nested aggregates holds of the result
        disch('result-size-multiple-of-power-of-two-alignment',
              z3.And((total & (salign - 1)) == 0, (salign & (salign - 1)) == 0, salign != 0))

    def on_oob(ex, what_, model):
        chk.report_failure('%s: stray memory access: %s' % (label, what_), {}, None, None)
    ex.on_oob = on_oob
    res = ex.explore(h, max_paths=60000, time_limit=1500)
    hutil.finish_explore(chk, ex, res, label)
    chk.functions = irgen.func_info(mod, sorted(ex.called))
    return hutil.export(chk)


def anon_worker(args):
    """a nested *anonymous* struct/union: its members are copied into the enclosing aggregate"""
    prop, tier, tag, outer_union, n_inner = args
    chk = hutil.sub_check(prop, tier)
    mod = irgen.backend()
    L = pystubs.CffiLayout(mod)
    F = L.flags
    label = '%s{prim, anonymous-struct-with-%d-members}' % ('union' if outer_union else 'struct', n_inner)

    def parse(ex, item, fmt, *outs):
        g = ex.ghost
        f = g['fields'][g['item_index'][simp(item)]]
        ex.mem.store(outs[1], f['fname'], 8)
        ex.mem.store(outs[3], f['ctype'], 8)
        ex.mem.store(outs[4], mask(32), 4)
        return 1

    def add_field(ex, interned, fname, ftype, offset, bitshift, bitsize, flags):
        cf = pystubs.new_cfield(ex, L, ftype, offset, 0, 0)
        ex.ghost['added'].append({'fname': simp(fname), 'ftype': simp(ftype), 'offset': offset, 'bitshift': bitshift,
                                  'bitsize': bitsize, 'flags': flags})
        return cf
    st = pystubs.stubs(_PyArg_ParseTuple_SizeT=parse, _add_field=add_field, PyDict_New=lambda ex: pystubs.py(ex).new_opaque('dict'))
    ex = llsym.Executor(mod, st, loop_bound=n_inner + 4, solver_timeout_ms=120000)

    def h(ex):
        py = pystubs.PyEnv(ex)
        g = ex.ghost
        g['added'] = []
        inputs = {}
        psize = z3.BitVec('prim_size', 64)
        ex.assume(z3.Or(*[psize == (1 << k) for k in range(4)]))
        inputs['prim_size'] = psize
        pt = pystubs.new_ctype(ex, L, psize, F['CT_PRIMITIVE_SIGNED'], length=psize)
        isize, ialign = z3.BitVec('inner_size', 64), z3.BitVec('inner_align', 64)
        ex.assume(z3.And(z3.Or(*[ialign == (1 << k) for k in range(4)]), isize >= 1, isize <= 256, (isize & (ialign - 1)) == 0))
        inputs['inner_size'], inputs['inner_align'] = isize, ialign
        inner_fields = []
        items = []
        mt = pystubs.new_ctype(ex, L, 4, F['CT_PRIMITIVE_UNSIGNED'], length=4)
        for k in range(n_inner):
            off = z3.BitVec('member%d_offset' % k, 64)
            sh = z3.BitVec('member%d_bitshift' % k, 16)
            bs = z3.BitVec('member%d_bitsize' % k, 16)
            fl = z3.BitVec('member%d_flags' % k, 8)
            ex.assume(z3.And(off >= 0, off <= 252, z3.Or(z3.And(sh == -1, bs == -1), z3.And(sh >= 0, sh <= 31, bs >= 1, bs <= 32)),
                             z3.Or(fl == 0, fl == F['BF_IGNORE_IN_CTOR'])))
            inputs.update({'member%d_offset' % k: off, 'member%d_bitshift' % k: sh, 'member%d_bitsize' % k: bs, 'member%d_flags' % k: fl})
            cf = pystubs.new_cfield(ex, L, mt, off, sh, bs, flags=fl)
            name = py.new_unicode([ord('m'), ord('0') + k], 1)
            inner_fields.append((cf, name, off, sh, bs, fl))
            items.append([name, cf])
        for (a, *_), (b, *_) in zip(inner_fields, inner_fields[1:]):
            ex.mem.store(a + L.cf['cf_next'], b, 8)
        idict = py.new_opaque('dict', 'PyDict_Type', items=items)
        it = pystubs.new_ctype(ex, L, isize, F['CT_STRUCT'], length=ialign, stuff=idict, extra=inner_fields[0][0] if inner_fields else 0)
        fields = [{'fname': py.new_unicode([ord('p')], 1), 'ctype': pt}, {'fname': py.new_unicode([], 1), 'ctype': it}]
        tup = [py.new_opaque('field-tuple') for _ in fields]
        g['fields'] = fields
        g['item_index'] = dict((t_, i) for i, t_ in enumerate(tup))
        lst = py.new_list(tup)
        sct = pystubs.new_ctype(ex, L, mask(64), F['CT_UNION'] if outer_union else F['CT_STRUCT'], length=mask(64))
        ex.mem.store(sct + L.ct['ct_unrealized_struct_or_union'], 1, 1)
        r = simp(ex.call('b_complete_struct_or_union_lock_held', [sct, lst, mask(64), mask(32), 0, 0]))
        hutil.witness(chk, ex, label)
        D = lambda nm, c: hutil.discharge(chk, ex, label + ':' + nm, c, inputs)
        okk = is_c(r) and r == ex.gaddr('_Py_NoneStruct') and py.exc is None
        D('accepted', okk)
        if not okk:
            return
        added = g['added']
        okn = len(added) == 1 + n_inner
        D('one-field-per-member-of-the-anonymous-aggregate', okn)
        if not okn:
            return
        base = z3.BitVecVal(0, 64) if outer_union else roundup(psize, ialign)
        D('first-field', z3.And(z3.BoolVal(added[0]['ftype'] == pt), bv(added[0]['offset'], 64) == 0))
        for k, (cf, name, off, sh, bs, fl) in enumerate(inner_fields):
            a = added[1 + k]
            D('member%d-keeps-its-name-and-type' % k, a['fname'] == name and a['ftype'] == mt)
            D('member%d-offset==offset-of-the-aggregate+own-offset' % k, bv(a['offset'], 64) == base + off)
            D('member%d-keeps-its-bit-position-and-width' % k,
              z3.And(z3.Extract(15, 0, bv(a['bitshift'], 32)) == sh, z3.Extract(15, 0, bv(a['bitsize'], 32)) == bs))
            want_fl = z3.ZeroExt(24, fl) | (F['BF_IGNORE_IN_CTOR'] if outer_union else 0)
            D('member%d-ctor-flag' % k, bv(a['flags'], 32) == want_fl)
        amax = zmax(psize, ialign)
        total = zmax(psize, isize) if outer_union else base + isize
        total = roundup(total, amax)
        D('sizeof', bv(ex.mem.load(sct + L.ct['ct_size'], 8), 64) == total)
        D('alignof', bv(ex.mem.load(sct + L.ct['ct_length'], 8), 64) == amax)
        fm = bv(ex.mem.load(sct + L.ct['ct_flags_mut'], 4), 32)
        D('not-passable-by-value', (fm & F['CT_CUSTOM_FIELD_POS']) != 0)

    def on_oob(ex, what_, model):
        chk.report_failure('%s: stray memory access: %s' % (label, what_), {}, None, None)
    ex.on_oob = on_oob
    res = ex.explore(h, max_paths=5000)
    hutil.finish_explore(chk, ex, res, label)
    chk.functions = irgen.func_info(mod, sorted(ex.called))
    return hutil.export(chk)


def dispatch(args):
    return anon_worker(args) if args[2] == 'anon' else worker(args)


def run(chk):
    quick = chk.tier == 'quick'
    P = (chk.prop, chk.tier)
    cases = []
    for outer_union in (False, True):
        for n_inner in ((1, 2) if quick else (1, 2, 3)):
            cases.append(P + ('anon', outer_union, n_inner))
    nonflex = ['prim', 'ptr', 'array', 'nested', 'bitfield']
    seqs = []
    for n in (1, 2):
        for seq in itertools.product(nonflex, repeat=n):
            seqs.append(seq)
    for first in nonflex:
        seqs.append((first, 'flex'))
    tri = [('bitfield', 'bitfield', 'bitfield'), ('prim', 'bitfield', 'bitfield'), ('bitfield', 'bitfield', 'prim'),
           ('bitfield', 'prim', 'bitfield'), ('prim', 'nested', 'flex'), ('array', 'bitfield', 'ptr'),
           ('nested', 'bitfield', 'bitfield'), ('prim', 'prim', 'prim')]
    if not quick:
        tri = list(itertools.product(nonflex, repeat=3)) + [(a, b, 'flex') for a in nonflex for b in nonflex]
        tri += [('bitfield',) * 4, ('prim', 'bitfield', 'bitfield', 'bitfield'), ('bitfield', 'bitfield', 'prim', 'bitfield')]
    seqs += tri
    heavy = {('bitfield', 'bitfield', 'bitfield'): ('size0',), ('nested', 'bitfield', 'bitfield'): ('size1',),
             ('prim', 'bitfield', 'bitfield'): ('size1',), ('bitfield',) * 4: ('size0', 'size1', 'size2'),
             ('prim', 'bitfield', 'bitfield', 'bitfield'): ('size1', 'size2'), ('bitfield', 'bitfield', 'prim', 'bitfield'): ('size0', 'size1')}
    for seq in seqs:
        if seq in heavy:
            # the heaviest shapes are split over workers by fixing the storage sizes of some bit-fields
            for vs in itertools.product((1, 2, 4, 8), repeat=len(heavy[seq])):
                cases.append(P + (seq, False, 0, dict(zip(heavy[seq], vs))))
        else:
            cases.append(P + (seq, False, 0))
        if 'flex' not in seq:
            cases.append(P + (seq, True, 0))
        if 'bitfield' not in seq and len(seq) <= 2:
            for pack in (1, 2, 4):
                cases.append(P + (seq, False, pack))
    chk.bounds = {'fields per aggregate': '1..3 (quick: all sequences of 1-2 kinds + selected triples) / all triples + selected 4 (thorough)',
                  'field kinds': KINDS, 'primitive sizes': '1,2,4,8,16 (alignment = size)', 'arrays': '1..64 items of size 1,2,4,8',
                  'nested aggregates': 'size 1..4096 multiple of a power-of-two alignment <= 16 (inductive representation)',
                  'bit-fields': 'type size 1,2,4,8, width 0..8*size, named or anonymous', 'pack': [0, 1, 2, 4]}
    chk.bounds['anonymous nested aggregates'] = 'struct/union {prim; anonymous struct of 1..3 members}: every member offset, bit position/width (or none), ctor flag'
    chk.outside = ['the Python plumbing from cdef text to the backend call (cparser/model.py), exercised only by replays',
                   'MSVC/ARM bit-field conventions (not this platform)', 'packed structs with bit-fields (excluded by the statement)',
                   'more fields than the bound']
    chk.assume('reference model = SysV x86-64 / GCC layout rule at bit granularity (harness/C01.py: spec_layout), validated '
               'against gcc on seeded random structs at every run')
    chk.assume('CPython contracts of vf/pystubs.py; _add_field is a recorder returning a fresh field object')
    irgen.backend()
    gcc_validate(chk, 60 if quick else 600)
    hutil.run_cases(chk, cases, dispatch)
