"""C06 -- primitive type facts agree with the compiler and across all type tables.

Reference tables are read at run time from the working tree's Python sources (model.PrimitiveType.
ALL_PRIMITIVE_TYPES, cffi_opcode.PRIMITIVE_TO_INDEX) and from gcc (a generated program prints sizeof,
_Alignof, signedness and floating-ness of every name).  The C side is decided on the real IR:

 (a) new_primitive_type(name) for *every byte string* name of length 0..22 (symbolic bytes): it succeeds
     iff the string is a key of ALL_PRIMITIVE_TYPES, and then the ctype carries that very name, gcc's
     size and alignment, and the kind/signedness flags that gcc and model.py report for the name.
 (b) search_standard_typename(p, size) (the C parser's hand-written perfect hash) for every byte string of
     length 0..24: it returns i >= 0 iff the string is the '..._t' name that PRIMITIVE_TO_INDEX maps to i.
 (c) build_primitive_type(num) for every int num: for 0 <= num < _NUM_PRIM the name handed to
     new_primitive_type is the name PRIMITIVE_TO_INDEX maps to num (void for 0), outside that range an
     exception is raised and all_primitives[] is not touched (bounds monitor).
 (d) parse_c_type on each table name (concrete string, single path of the real C parser): the opcode is
     OP_PRIMITIVE with PRIMITIVE_TO_INDEX[name].
"""
import os, sys, json, subprocess
import z3
from vf import common, irgen, llsym, pystubs, hutil
from vf.llsym import bv, simp, mask, is_c

C_SPELLING = {'_cffi_float_complex_t': 'float _Complex', '_cffi_double_complex_t': 'double _Complex'}

REPLAY = r'''
# Replay for C06: the backend's answer for a primitive name vs gcc's and the Python tables'.
import sys, json, subprocess, tempfile, os
import _cffi_backend as B
case = json.loads(%r)
name = bytes(case['name']).decode('latin1')
bad = []
try:
    ct = B.new_primitive_type(name)
except KeyError:
    ct = None
except Exception as e:
    print('HARNESS: unexpected', type(e).__name__, e); sys.exit(3)
if (ct is not None) != case['known']:
    bad.append('new_primitive_type(%%r) %%s but the name is %%sin ALL_PRIMITIVE_TYPES' %% (name, 'succeeds' if ct is not None else 'fails', '' if case['known'] else 'not '))
if ct is not None and case['known']:
    f = case['facts']
    got = {'size': B.sizeof(ct), 'align': B.alignof(ct), 'cname': ct.cname}
    if got['size'] != f['size'] or got['align'] != f['align'] or got['cname'] != name:
        bad.append('new_primitive_type(%%r): %%r but gcc says %%r' %% (name, got, f))
    if f['kind'] == 'i':
        neg = int(B.cast(ct, -1)) < 0
        if neg != f['signed']:
            bad.append('%%r: signedness %%r but gcc says %%r' %% (name, neg, f['signed']))
for b in bad: print('VIOLATED:', b)
sys.exit(1 if bad else 0)
'''


_tables = None
_facts = None


def python_tables():
    global _tables
    if _tables is None:
        _tables = _python_tables()
    return _tables


def _python_tables():
    sys.path.insert(0, os.path.join(common.REPO, 'src'))
    for k in [k for k in sys.modules if k == 'cffi' or k.startswith('cffi.')]:
        del sys.modules[k]
    from cffi import model, cffi_opcode
    return dict(model.PrimitiveType.ALL_PRIMITIVE_TYPES), dict(cffi_opcode.PRIMITIVE_TO_INDEX), cffi_opcode


def gcc_facts(names):
    global _facts
    if _facts is None:
        _facts = _gcc_facts(names)
    return _facts


def _gcc_facts(names):
    d = common.scratch_dir()
    lines = ['#include <stdio.h>', '#include <stddef.h>', '#include <stdint.h>', '#include <sys/types.h>', '#include <wchar.h>',
             '#include <uchar.h>', '#include <complex.h>', '#include <stdbool.h>', 'int main(void) {']
    for i, n in enumerate(names):
        t = C_SPELLING.get(n, n)
        cplx = 'complex' in n
        lines.append('{ typedef %s T; printf("%d %%zu %%zu %%d %%d\\n", sizeof(T), _Alignof(T), %s, %s); }'
                     % (t, i, '0' if cplx else '((T)-1) < (T)0', '0' if cplx else '((T)1.5) != (T)1'))
    lines.append('return 0; }')
    p = os.path.join(d, 'prims.c')
    open(p, 'w').write('\n'.join(lines))
    r = subprocess.run(['gcc', '-w', '-o', p[:-2], p], capture_output=True)
    if r.returncode != 0:
        raise common.HarnessError('gcc failed on the primitive facts program: ' + r.stderr.decode()[-1500:])
    out = subprocess.run([p[:-2]], capture_output=True).stdout.decode().split('\n')
    facts = {}
    for l in out:
        q = l.split()
        if q:
            facts[names[int(q[0])]] = {'size': int(q[1]), 'align': int(q[2]), 'signed': bool(int(q[3])), 'floating': bool(int(q[4]))}
    return facts


def str_is(bs, name):
    """z3: the symbolic byte list equals the given python str"""
    b = name.encode()
    if len(bs) != len(b):
        return z3.BoolVal(False)
    return z3.And(*[x == y for x, y in zip(bs, b)]) if b else z3.BoolVal(True)


def newprim_worker(args):
    prop, tier, kind_, n, first = args
    chk = hutil.sub_check(prop, tier)
    mod = irgen.backend()
    L = pystubs.CffiLayout(mod)
    F = L.flags
    allp, p2i, _ = python_tables()
    facts = gcc_facts(sorted(allp))
    label = 'new_primitive_type:len=%d%s' % (n, (':first=%r' % first) if first is not None else '')

    def replay(case):
        data = [case.get('c%d' % i, 0) for i in range(n)]
        name = bytes(data).decode('latin1')
        c = {'name': data, 'known': name in allp}
        if name in allp:
            c['facts'] = dict(facts[name], kind=allp[name])
        path = chk.write_replay('prim', REPLAY % json.dumps(c))
        rc, out = common.run_replay(path)
        return common.replay_verdict(rc, out), path

    def ext(ex, name, g, m):
        if name.startswith('ffi_type_'):
            return ex.mem.alloc(24, '@' + name, 'global', fill=0)
        return pystubs.extern_global(ex, name, g, m)
    def get_unique(ex, x, key, n_):
        ex.ghost['ukey'] = (simp(ex.mem.load(simp(key), 8)), simp(n_))
        return x
    st = pystubs.stubs(get_unique_type=get_unique)
    st['@*'] = ext
    ex = llsym.Executor(mod, st, loop_bound=64, max_depth=40)

    def h(ex):
        py = pystubs.PyEnv(ex)
        ex.ghost['ukey'] = None
        buf = ex.mem.alloc(n + 1, 'name', 'input')
        bs = [z3.BitVec('c%d' % i, 8) for i in range(n)]
        for i, b in enumerate(bs):
            ex.mem.store(buf.base + i, b, 1)
            ex.assume(b != 0)
        ex.mem.store(buf.base + n, 0, 1)
        if first is not None:
            ex.assume(bs[0] == ord(first) if first != '*' else z3.And(*[bs[0] != ord(c) for c in FIRSTS]))
        r = simp(ex.call('new_primitive_type', [buf.base]))
        inputs = dict(('c%d' % i, b) for i, b in enumerate(bs))
        known = z3.Or(*[str_is(bs, nm) for nm in allp if len(nm) == n]) if any(len(nm) == n for nm in allp) else z3.BoolVal(False)
        if is_c(r) and r == 0:
            hutil.witness(chk, ex, label + ':rejected')
            hutil.discharge(chk, ex, label + ':rejected=>not-a-primitive-name', z3.Not(known), inputs, replay=replay)
            hutil.discharge(chk, ex, label + ':rejected-with-KeyError', py.exc == 'PyExc_KeyError', inputs, replay=replay)
            return
        hutil.witness(chk, ex, label + ':accepted')
        hutil.discharge(chk, ex, label + ':accepted=>a-primitive-name', known, inputs, replay=replay)
        size = bv(ex.mem.load(r + L.ct['ct_size'], 8), 64)
        align = bv(ex.mem.load(r + L.ct['ct_length'], 8), 64)
        flags = bv(ex.mem.load(r + L.ct['ct_flags'], 4), 32)
        namepos = bv(ex.mem.load(r + L.ct['ct_name_position'], 4), 32)
        cname = [bv(ex.mem.load(r + L.ct['ct_name'] + i, 1), 8) for i in range(n + 1)]
        hutil.discharge(chk, ex, label + ':ctype-carries-the-name', z3.And(*([cname[i] == bs[i] for i in range(n)] + [cname[n] == 0, namepos == n])),
                        inputs, replay=replay)
        conds = []
        for nm, kind in allp.items():
            if len(nm) != n:
                continue
            f = facts[nm]
            want = [size == f['size'], align == f['align']]
            has = lambda fl: (flags & F[fl]) != 0
            if kind == 'i':
                want += [has('CT_PRIMITIVE_SIGNED') == f['signed'], has('CT_PRIMITIVE_UNSIGNED') == (not f['signed']),
                         z3.Not(has('CT_PRIMITIVE_CHAR')), z3.Not(has('CT_PRIMITIVE_FLOAT')), z3.Not(has('CT_PRIMITIVE_COMPLEX')),
                         has('CT_IS_BOOL') == (nm == '_Bool'), z3.BoolVal(not f['floating'])]
                fits = f['size'] < 8 or f['signed']
                want.append(has('CT_PRIMITIVE_FITS_LONG') == fits)
            elif kind == 'c':
                want += [has('CT_PRIMITIVE_CHAR'), z3.Not(has('CT_PRIMITIVE_SIGNED')), z3.Not(has('CT_PRIMITIVE_UNSIGNED')),
                         z3.Not(has('CT_PRIMITIVE_FLOAT')), z3.BoolVal(not f['floating'])]
                if nm == 'wchar_t':
                    want.append(has('CT_IS_SIGNED_WCHAR') == f['signed'])
                elif nm != 'char':
                    want.append(z3.BoolVal(not f['signed']))
            elif kind == 'f':
                want += [has('CT_PRIMITIVE_FLOAT'), z3.Not(has('CT_PRIMITIVE_SIGNED')), z3.Not(has('CT_PRIMITIVE_UNSIGNED')),
                         z3.Not(has('CT_PRIMITIVE_CHAR')), has('CT_IS_LONGDOUBLE') == (nm == 'long double'), z3.BoolVal(f['floating'])]
            else:
                want += [has('CT_PRIMITIVE_COMPLEX'), z3.Not(has('CT_PRIMITIVE_FLOAT')), z3.Not(has('CT_PRIMITIVE_SIGNED')),
                         z3.Not(has('CT_PRIMITIVE_UNSIGNED'))]
            conds.append(z3.Implies(str_is(bs, nm), z3.And(*want)))
        # the uniqueness key (C27) is the address of the static table row carrying this very name
        uk = ex.ghost['ukey']
        okk = uk is not None and is_c(uk[0]) and uk[1] == 1
        if okk:
            rowname = simp(ex.mem.load(uk[0], 8))
            okk = is_c(rowname)
            if okk:
                rn = [bv(ex.mem.load(rowname + i, 1), 8) for i in range(n + 1)]
                hutil.discharge(chk, ex, label + ':unique-key-is-the-table-row-of-this-name', z3.And(*([rn[i] == bs[i] for i in range(n)] + [rn[n] == 0])),
                                inputs, replay=replay)
        if not okk:
            hutil.discharge(chk, ex, label + ':unique-key-is-the-table-row-of-this-name', False, inputs, replay=replay)
        hutil.discharge(chk, ex, label + ':size-align-kind-signedness-as-gcc-and-model.py', z3.And(*conds) if conds else True, inputs, replay=replay)

    res = ex.explore(h, max_paths=20000)
    hutil.finish_explore(chk, ex, res, label)
    chk.functions = irgen.func_info(mod, sorted(ex.called))
    return hutil.export(chk)


FIRSTS = 'cdfilsuw_p'


def search_worker(args):
    prop, tier, kind_, n = args
    chk = hutil.sub_check(prop, tier)
    mod = irgen.backend()
    allp, p2i, _ = python_tables()
    label = 'search_standard_typename:len=%d' % n
    ex = llsym.Executor(mod, dict(llsym.LIBC), loop_bound=64)

    def h(ex):
        buf = ex.mem.alloc(max(n, 1), 'identifier', 'input')      # exactly n bytes: not NUL-terminated (a token)
        bs = [z3.BitVec('c%d' % i, 8) for i in range(n)]
        for i, b in enumerate(bs):
            ex.mem.store(buf.base + i, b, 1)
        r = simp(ex.call('search_standard_typename', [buf.base, n]))
        r = ex.concretize(r, 32, 64, 'result') if not is_c(r) else r
        rs = llsym.signed(r, 32)
        inputs = dict(('c%d' % i, b) for i, b in enumerate(bs))
        cands = [nm for nm in p2i if len(nm) == n and nm.endswith('_t')]
        if rs < 0:
            hutil.witness(chk, ex, label + ':not-found')
            hutil.discharge(chk, ex, label + ':not-found=>not-a-standard-typedef-name', z3.Not(z3.Or(*[str_is(bs, nm) for nm in cands])) if cands else True, inputs)
        else:
            hutil.witness(chk, ex, label + ':found')
            names = [nm for nm in cands if p2i[nm] == rs]
            hutil.discharge(chk, ex, label + ':found-index-%d=>is-that-name' % rs, z3.Or(*[str_is(bs, nm) for nm in names]) if names else False, inputs)

    def on_oob(ex2, what_, model):
        chk.report_failure('%s: read outside the %d-byte token: %s' % (label, n, what_), {}, None, None)
    ex.on_oob = on_oob
    res = ex.explore(h, max_paths=5000)
    hutil.finish_explore(chk, ex, res, label)
    chk.functions = irgen.func_info(mod, sorted(ex.called))
    return hutil.export(chk)


def build_worker(args):
    prop, tier, kind_ = args
    chk = hutil.sub_check(prop, tier)
    mod = irgen.backend()
    allp, p2i, opc = python_tables()
    i2p = dict((v, k) for k, v in p2i.items())
    label = 'build_primitive_type'
    seen = {}

    def newprim(ex, name):
        name = simp(name)
        s = []
        for i in range(64):
            b = simp(ex.mem.load(name + i, 1))
            if not is_c(b):
                raise llsym.Unsupported('symbolic table name')
            if b == 0:
                break
            s.append(b)
        ex.ghost['name'] = bytes(s).decode('latin1')
        return pystubs.py(ex).new_opaque('ctype')
    st = pystubs.stubs(new_primitive_type=newprim, new_void_type=lambda ex: (ex.ghost.__setitem__('name', 'void'), pystubs.py(ex).new_opaque('ctype'))[1])
    ex = llsym.Executor(mod, st, loop_bound=8)

    def h(ex):
        py = pystubs.PyEnv(ex)
        obj = ex.mem.alloc(64, 'exc:FFIError', 'pyobj', fill=0)
        ex.mem.store(ex.gaddr('FFIError'), obj.base, 8)
        num = z3.BitVec('num', 32)
        ex.ghost['name'] = None
        # the table index is data-dependent: let the solver enumerate it inside a window, keep the rest symbolic
        inside = ex.decide(z3.And(num >= -4, num <= opc._NUM_PRIM + 2))
        if inside:
            k = llsym.signed(ex.concretize(num, 32, opc._NUM_PRIM + 16, 'num'), 32)
        r = simp(ex.call('build_primitive_type', [num if not inside else (k & mask(32))]))
        inputs = {'num': num}
        if not inside:
            hutil.witness(chk, ex, label + ':far-out-of-range')
            hutil.discharge(chk, ex, label + ':far-out-of-range=>exception', is_c(r) and r == 0 and py.exc is not None, inputs)
            return
        seen[k] = ex.ghost['name']
        hutil.witness(chk, ex, label + ':num=%d' % k)
        if 0 <= k < opc._NUM_PRIM:
            want = 'void' if k == opc.PRIM_VOID else i2p.get(k)
            hutil.discharge(chk, ex, label + ':num=%d-names-%s' % (k, want), ex.ghost['name'] == want and is_c(r) and r != 0, inputs)
            slot = simp(ex.mem.load(ex.gaddr('all_primitives') + 8 * k, 8))
            hutil.discharge(chk, ex, label + ':num=%d-cached-in-its-own-slot' % k, slot == r, inputs)
        else:
            hutil.discharge(chk, ex, label + ':num=%d=>exception' % k, is_c(r) and r == 0 and py.exc is not None, inputs)

    def on_oob(ex2, what_, model):
        chk.report_failure('%s: access outside primitive_name[] / all_primitives[]: %s' % (label, what_), {}, None, None)
    ex.on_oob = on_oob
    res = ex.explore(h, max_paths=500)
    hutil.finish_explore(chk, ex, res, label)
    # every Python index is reachable in C and vice versa
    missing = sorted(set(i2p) - set(k for k, v in seen.items() if v))
    chk.query(label + ':every-PRIMITIVE_TO_INDEX-value-is-a-C-index', 'unsat' if not missing else 'sat', 0.0)
    if missing:
        chk.report_failure('PRIMITIVE_TO_INDEX values without a C table entry: %r' % missing, {}, None, None)
    chk.functions = irgen.func_info(mod, sorted(ex.called))
    return hutil.export(chk)


def parse_worker(args):
    prop, tier, kind_ = args
    chk = hutil.sub_check(prop, tier)
    mod = irgen.backend()
    allp, p2i, opc = python_tables()
    info_l = mod.struct_layout(('named', 'struct._cffi_parse_info_s'))
    ctx_l = mod.struct_layout(('named', 'struct._cffi_type_context_s'))
    for nm in sorted(allp):
        label = 'parse_c_type(%r)' % nm
        ex = llsym.Executor(mod, dict(llsym.LIBC), loop_bound=64, max_depth=30)

        def h(ex, nm=nm, label=label):
            mem = ex.mem
            b = nm.encode()
            inp = mem.alloc(len(b) + 1, 'type string', 'input')
            for i, c in enumerate(b):
                mem.store(inp.base + i, c, 1)
            mem.store(inp.base + len(b), 0, 1)
            outp = mem.alloc(8 * 4, 'output opcodes', 'input')
            ctx = mem.alloc(ctx_l[1], 'empty type context', 'heap', fill=0)
            info = mem.alloc(info_l[1], 'parse info', 'heap', fill=0)
            mem.store(info.base + info_l[0][0], ctx.base, 8)
            mem.store(info.base + info_l[0][1], outp.base, 8)
            mem.store(info.base + info_l[0][2], 4, 4)
            r = simp(ex.call('parse_c_type', [info.base, inp.base]))
            okk = is_c(r) and llsym.signed(r, 32) >= 0
            op = simp(mem.load(outp.base + 8 * llsym.signed(r, 32), 8)) if okk else None
            want = (p2i[nm] << 8) | opc.OP_PRIMITIVE
            hutil.witness(chk, ex, label)
            hutil.discharge(chk, ex, label + ':opcode==OP_PRIMITIVE(%d)' % p2i[nm], okk and op == want, {})
        res = ex.explore(h, max_paths=10)
        hutil.finish_explore(chk, ex, res, label)
    chk.functions = irgen.func_info(mod, sorted(ex.called))
    return hutil.export(chk)


def tables_worker(args):
    prop, tier, kind_ = args
    chk = hutil.sub_check(prop, tier)
    allp, p2i, opc = python_tables()

    def fact(name, okk, what):
        chk.query('tables:' + name, 'unsat' if okk else 'sat', 0.0)
        if not okk:
            chk.report_failure('tables: ' + what, {}, None, None)
    fact('model.ALL_PRIMITIVE_TYPES-keys==PRIMITIVE_TO_INDEX-keys', set(allp) == set(p2i),
         'names only in model.py: %r; only in cffi_opcode.py: %r' % (sorted(set(allp) - set(p2i)), sorted(set(p2i) - set(allp))))
    vals = sorted(p2i.values())
    fact('PRIMITIVE_TO_INDEX-is-injective-and-dense', vals == list(range(1, opc._NUM_PRIM)) and opc.PRIM_VOID == 0,
         'index values %r are not 1.._NUM_PRIM-1' % vals)
    # parse_c_type.h constants, read from the header
    import re
    hdr = open(os.path.join(common.REPO, 'src/cffi/parse_c_type.h')).read()
    cprim = dict((m.group(1), int(m.group(2))) for m in re.finditer(r'#define\s+_CFFI_PRIM_(\w+)\s+(\d+)', hdr))
    pyprim = dict((k[5:], getattr(opc, k)) for k in dir(opc) if k.startswith('PRIM_'))
    fact('parse_c_type.h-_CFFI_PRIM_*==cffi_opcode.PRIM_*', cprim == pyprim,
         'differences: %r' % sorted(set(cprim.items()) ^ set(pyprim.items())))
    m = re.search(r'#define\s+_CFFI__NUM_PRIM\s+(\d+)', hdr)
    fact('_CFFI__NUM_PRIM==_NUM_PRIM', m is not None and int(m.group(1)) == opc._NUM_PRIM, '_CFFI__NUM_PRIM differs from cffi_opcode._NUM_PRIM')
    return hutil.export(chk)


def dispatch(args):
    return {'newprim': newprim_worker, 'search': search_worker, 'build': build_worker, 'parse': parse_worker,
            'tables': tables_worker}[args[2]](args)


def run(chk):
    quick = chk.tier == 'quick'
    P = (chk.prop, chk.tier)
    cases = [P + ('tables',), P + ('build',), P + ('parse',)]
    NMAX = 22 if quick else 24
    for n in range(0, NMAX + 1):
        if n >= 4:
            for c in FIRSTS + '*':
                cases.append(P + ('newprim', n, c))
        else:
            cases.append(P + ('newprim', n, None))
    for n in range(0, 25 if quick else 33):
        cases.append(P + ('search', n))
    chk.bounds = {'new_primitive_type': 'every NUL-free byte string of length 0..%d' % NMAX,
                  'search_standard_typename': 'every byte string of length 0..%d' % (24 if quick else 32),
                  'build_primitive_type': 'every 32-bit num (window -4.._NUM_PRIM+2 enumerated by the solver, the rest symbolic)',
                  'parse_c_type': 'each of the table names (concrete strings; symbolic strings are C30/C07)'}
    chk.outside = ['the platform compiler is gcc on this machine (sizes are this platform\'s)', 'commontypes.py aliases (C35/C07)',
                   'ffi.sizeof/alignof wrappers around ct_size/ct_length', 'names longer than the bound (the longest table name has 22 characters)']
    chk.assume('gcc reports the platform facts; get_unique_type returns its argument (C27)')
    irgen.backend()
    gcc_facts(sorted(python_tables()[0]))       # once, in the parent: workers inherit it
    hutil.run_cases(chk, cases, dispatch)
