"""C36 -- callbacks from non-Python threads get a valid, persistent thread state (cffi's side of the protocol).

llsym on the real IR of misc_thread_common.h / misc_thread_posix.h: gil_ensure, gil_release, thread_canary_register,
thread_canary_free_zombies, thread_canary_dealloc, thread_canary_make_zombie, cffi_thread_shutdown, get_cffi_tls.
The histories of the statement (any number of foreign threads, calls and exit orders) are covered by ONE STEP of each
operation from an ARBITRARY state satisfying the representation invariant INV, checked to be re-established:

  INV  the zombie list is a well-formed circular doubly linked list through cffi_zombie_head;
       a canary is in it  <=>  zombie_next != NULL  <=>  its thread has exited (tls == NULL) and its thread state has
       not been deleted;  a live canary (tls != NULL) is pointed back to by tls->local_thread_canary, is owned (one
       reference) by its thread state's dict, and that thread state is alive with gilstate_counter >= 1 on top of the
       callbacks in progress;  no pointer anywhere designates freed memory.

State is built directly in the executor's memory: up to Z zombies (in any list order), up to L live canaries of other threads, and the calling
thread in one of four situations (no thread state / only a tls block / thread state made by Python / thread state
made by cffi); every gilstate_counter is symbolic.

Steps and obligations
  callback     gil_ensure(); [the callback]; gil_release()  twice in a row from the same thread:
               between ensure and release the thread's state exists, is not deleted and is the current one (GIL held);
               a foreign thread gets exactly one new state and one canary, registered consistently; all zombies found
               are cleared and deleted exactly once; after release the state is STILL there with its dict (thread-local
               data persists) and its counter is back to the value that keeps it alive; the second call finds the
               same state; GIL handed back as found.
  thread-exit  cffi_thread_shutdown(tls) without the GIL: the tls block is freed once, its canary (if any) becomes
               a zombie with tls == NULL, no thread state is touched.
  dealloc      thread_canary_dealloc(c) for a live, zombie or detached canary (Py_Finalize / PyThreadState_Clear):
               unlinked, the owner's tls no longer points to it, freed once.
  free-zombies thread_canary_free_zombies(): every zombie's state cleared+deleted once, nobody else's, list empty.
Throughout: no access to freed memory (tls blocks, canaries, deleted thread states: bounds monitor), no Py_FatalError,
the zombie lock is released, and every access to the shared list links / tls->local_thread_canary / canary->tls
happens with the zombie lock held (except the documented lock-free fast-path read of the list head and the
initialisation of a canary that is not yet reachable by another thread).

CPython / pthread are contracts (vf stubs below): PyGILState_Ensure/Release, PyGILState_GetThisThreadState,
_PyThreadState_UncheckedGet, PyEval_RestoreThread, PyThreadState_GetDict/Clear/Delete, PyDict_SetItemString,
pthread_getspecific/setspecific, calloc/free.
"""
import os, sys, json, subprocess, itertools
import z3
from vf import common, irgen, llsym, pystubs, hutil
from vf.llsym import bv, simp, mask, is_c

CHILD = r"""
import sys, threading, gc
import cffi
ffi = cffi.FFI()
ffi.cdef("int run_jobs(int n, int calls, int (*cb)(int, int));")
CSRC = '''
#include <pthread.h>
typedef struct { int id; int calls; } job_t;
static int (*g_cb)(int, int);
static int g_bad;
static void *worker(void *p) {
    job_t *j = (job_t *)p; int k;
    for (k = 0; k < j->calls; k++)
        if (g_cb(j->id, k) != k) __sync_fetch_and_add(&g_bad, 1);
    return 0;
}
int run_jobs(int n, int calls, int (*cb)(int, int)) {
    pthread_t th[16]; job_t jobs[16]; int i, round;
    g_cb = cb; g_bad = 0;
    for (round = 0; round < 3; round++) {
        for (i = 0; i < n; i++) { jobs[i].id = round * 100 + i; jobs[i].calls = calls; pthread_create(&th[i], 0, worker, &jobs[i]); }
        for (i = n - 1; i >= 0; i--) pthread_join(th[i], 0);
    }
    return g_bad;
}
'''
lib = ffi.verify(CSRC, libraries=['pthread'], tmpdir=sys.argv[1])
local = threading.local()
seen = []
@ffi.callback('int(int, int)')
def cb(ident, k):
    # thread-local data set in call k-1 must be visible in call k, and nobody else's
    prev = getattr(local, 'v', None)
    ok = (prev is None) if k == 0 else (prev == (ident, k - 1))
    local.v = (ident, k)
    if not ok:
        seen.append((ident, k, prev))
    if k % 2:
        gc.collect()
    return k if ok else -1
bad = lib.run_jobs(int(sys.argv[2]), int(sys.argv[3]), cb)
print('BAD', bad, seen[:3])
sys.exit(0 if bad == 0 else 5)
"""

REPLAY = r"""
# Replay for C36 against the real build: foreign (pthread-created) threads call a cffi callback several times,
# set Python thread-local data in one call and read it in the next, then exit while other foreign threads start
# (three rounds); the process must survive and every callback must see its own thread's data only.
import sys, os, json, subprocess, tempfile, atexit, shutil
case = json.loads(%r)
child = %r
d = tempfile.mkdtemp(); atexit.register(shutil.rmtree, d, True)
r = subprocess.run([sys.executable, '-c', child, d, str(case.get('threads', 4)), str(case.get('calls', 3))],
                   stdout=subprocess.PIPE, stderr=subprocess.STDOUT)
out = r.stdout.decode('utf-8', 'replace')
if r.returncode < 0 or r.returncode >= 128:
    print('VIOLATED: the process crashed (status %%d) with foreign threads calling back' %% r.returncode); sys.exit(1)
if r.returncode == 5:
    print('VIOLATED: thread-local data not persistent / not private:', out[-300:]); sys.exit(1)
if r.returncode != 0:
    print(out[-2000:]); sys.exit(3)
sys.exit(0)
"""


_off = None


def ts_offsets():
    """offsets of the PyThreadState fields the contracts need, from the C compiler"""
    global _off
    if _off is not None:
        return _off
    d = common.scratch_dir()
    p = os.path.join(d, 'tsoff.c')
    open(p, 'w').write('#include <Python.h>\n#include <stddef.h>\n#include <stdio.h>\n'
                       'int main(void){ printf("%zu %zu %zu\\n", offsetof(PyThreadState, gilstate_counter), '
                       'offsetof(PyThreadState, dict), sizeof(PyThreadState)); return 0; }\n')
    inc = subprocess.run(['/venv/bin/python', '-c', "import sysconfig;print(sysconfig.get_paths()['include'])"],
                         stdout=subprocess.PIPE).stdout.decode().strip()
    r = subprocess.run(['gcc', '-w', '-I' + inc, '-o', p[:-2], p], capture_output=True)
    if r.returncode != 0:
        raise common.HarnessError('gcc failed on the PyThreadState offsets program: ' + r.stderr.decode()[-800:])
    a, b, c = map(int, subprocess.run([p[:-2]], capture_output=True).stdout.decode().split())
    _off = {'gilstate_counter': a, 'dict': b, 'size': c}
    return _off


class World(object):
    """ghost state of the process + CPython/pthread contracts + the monitors"""

    def __init__(self, ex, py, mod, chk, label):
        self.ex, self.py, self.mod, self.chk, self.label = ex, py, mod, chk, label
        self.off = ts_offsets()
        self.cl = mod.struct_layout(('named', 'struct.thread_canary_s'))
        self.tstates = {}      # addr -> dict(region, dict, cleared, deleted, owner)
        self.threads = {}      # tid -> dict(tls (addr or 0), ts (addr or 0))
        self.canaries = {}     # addr -> region
        self.gil = None        # tid holding the GIL
        self.current = 0       # current tstate (of the GIL holder)
        self.me = None
        self.zlock = False
        self.bad = []
        self.created_ts = []
        self.fatal = []
        self.head = ex.gaddr('cffi_zombie_head')
        mem = ex.mem
        # init_cffi_tls_zombie()'s result
        mem.store(self.head + self.cl[0][1], self.head, 8)
        mem.store(self.head + self.cl[0][2], self.head, 8)
        self.lock_token = mem.alloc(8, 'cffi_zombie_lock', 'heap', fill=0).base
        mem.store(ex.gaddr('cffi_zombie_lock'), self.lock_token, 8)
        self.shared = {}       # address -> description of lock-protected words
        self.unpublished = set()
        self._install()

    # ---- construction -------------------------------------------------------------------------------
    def new_thread(self, tid):
        self.threads[tid] = {'tls': 0, 'ts': 0}

    def new_tstate(self, tid, counter):
        ex, mem = self.ex, self.ex.mem
        r = mem.alloc(self.off['size'], 'PyThreadState(thread %s)' % tid, 'heap', fill=0)
        d = self.py.new_opaque('dict', 'PyDict_Type', items=[])
        mem.store(r.base + self.off['dict'], d, 8)
        mem.store(r.base + self.off['gilstate_counter'], counter, 4)
        self.tstates[r.base] = {'region': r, 'dict': d, 'cleared': 0, 'deleted': 0, 'owner': tid}
        self.threads[tid]['ts'] = r.base
        return r.base

    def new_tls(self, tid):
        r = self.ex.mem.alloc(8, 'cffi_tls_s(thread %s)' % tid, 'heap', fill=0)
        self.threads[tid]['tls'] = r.base
        self.shared[r.base] = 'tls->local_thread_canary'
        return r.base

    def new_canary(self, ts, tls):
        """a registered canary as thread_canary_register leaves it"""
        ex, mem, cl = self.ex, self.ex.mem, self.cl
        r = mem.alloc(cl[1], 'canary', 'pyobj', fill=0)
        c = r.base
        mem.store(c, 1, 8)
        mem.store(c + 8, ex.gaddr('ThreadCanary_Type'), 8)
        mem.store(c + cl[0][3], ts, 8)
        mem.store(c + cl[0][4], tls, 8)
        self.py.objs[c] = {'kind': 'canary', 'region': r}
        self.canaries[c] = r
        for k in (1, 2, 4):
            self.shared[c + cl[0][k]] = 'canary->' + ('zombie_prev', 'zombie_next', '', 'tls')[k - 1 if k < 4 else 3]
        if tls:
            mem.store(tls, c, 8)
        pystubs._dict_items(ex, self.tstates[ts]['dict']).append([self.py.new_unicode([ord(x) for x in 'cffi.thread.canary'], 1), c])
        return c

    # ---- observation ----------------------------------------------------------------------------------
    def zombies(self):
        """the list as found in memory (concrete walk, bounded)"""
        out, mem, cl = [], self.ex.mem, self.cl
        p = simp(mem.load(self.head + cl[0][2], 8))
        n = 0
        while p != self.head:
            out.append(p)
            p = simp(mem.load(p + cl[0][2], 8))
            n += 1
            if n > 16 or not is_c(p):
                self.bad.append('zombie list is not a finite list')
                break
        return out

    def inv_problems(self):
        """INV on the concrete pointer structure (pointers are concrete on every path)"""
        mem, cl, out = self.ex.mem, self.cl, []
        fw = self.zombies()
        # backward walk must mirror the forward walk
        bw, p, n = [], simp(mem.load(self.head + cl[0][1], 8)), 0
        while p != self.head and n <= 16:
            bw.append(p)
            p = simp(mem.load(p + cl[0][1], 8))
            n += 1
        if bw != fw[::-1]:
            out.append('zombie list: prev links do not mirror next links')
        if len(set(fw)) != len(fw):
            out.append('zombie list: a canary is linked twice')
        for c, r in self.canaries.items():
            if r.freed:
                if c in fw:
                    out.append('a freed canary is still in the zombie list')
                continue
            nxt = simp(mem.load(c + cl[0][2], 8))
            tls = simp(mem.load(c + cl[0][4], 8))
            ts = simp(mem.load(c + cl[0][3], 8))
            if (nxt != 0) != (c in fw):
                out.append('canary: zombie_next != NULL does not coincide with membership in the list')
            if c in fw and tls != 0:
                out.append('a zombie canary still points to a tls block')
            if tls != 0:
                tr = mem.region_of(tls)
                if tr is None or tr.freed:
                    out.append('canary->tls designates a freed tls block')
                elif simp(mem.load(tls, 8)) != c:
                    out.append('canary->tls->local_thread_canary is not the canary')
            st = self.tstates.get(ts)
            if st is None or st['deleted']:
                out.append('a canary that is alive designates a deleted thread state')
        for tid, t in self.threads.items():
            if t['tls']:
                tr = mem.region_of(t['tls'])
                if tr is not None and not tr.freed:
                    c = simp(mem.load(t['tls'], 8))
                    if c != 0:
                        r = self.canaries.get(c)
                        if r is None or r.freed:
                            out.append('tls->local_thread_canary designates a freed canary')
                        elif simp(mem.load(c + cl[0][4], 8)) != t['tls']:
                            out.append('tls->local_thread_canary->tls is not the tls block')
        for f in self.fatal:
            out.append('Py_FatalError: ' + f)
        return out + self.bad

    # ---- contracts ---------------------------------------------------------------------------------------
    def _install(self):
        ex, py, W = self.ex, self.py, self
        off = self.off

        def this_ts(e):
            return W.threads[W.me]['ts']

        def unchecked_get(e):
            return W.current if W.gil == W.me else 0

        def restore_thread(e, ts):
            ts = simp(ts)
            if W.gil is not None and W.gil != W.me:
                W.gil = None          # (blocks until the holder lets go: any holder does, see C26/C28)
            st = W.tstates.get(ts)
            if st is None or st['deleted']:
                W.bad.append('PyEval_RestoreThread on a deleted thread state')
            W.gil, W.current = W.me, ts

        def gil_ensure_api(e):
            if W.threads[W.me]['ts']:
                W.bad.append('PyGILState_Ensure contract: used although the thread has a state')
            ts = W.new_tstate(W.me, 1)
            W.created_ts.append(ts)
            W.gil, W.current = W.me, ts
            return 1     # PyGILState_UNLOCKED

        def gil_release_api(e, old):
            ts = W.threads[W.me]['ts']
            st = W.tstates.get(ts)
            if not ts or st is None or st['deleted']:
                W.bad.append('PyGILState_Release without a live thread state')
                return
            if W.gil != W.me or W.current != ts:
                W.bad.append('PyGILState_Release: the thread state is not current')
            c = bv(e.mem.load(ts + off['gilstate_counter'], 4), 32) - 1
            e.mem.store(ts + off['gilstate_counter'], simp(c), 4)
            if e.decide(c == 0):
                clear(e, ts)
                delete(e, ts, current_ok=True)
                W.threads[W.me]['ts'] = 0
                W.gil, W.current = None, 0
            elif simp(old) == 1:
                W.gil, W.current = None, 0

        def get_dict(e):
            if W.gil != W.me or not W.current:
                W.bad.append('PyThreadState_GetDict without the GIL')
                return 0
            return W.tstates[W.current]['dict']

        def setitemstring(e, d, key, val):
            if W.gil != W.me:
                W.bad.append('PyDict_SetItemString without the GIL')
            val = simp(val)
            items = pystubs._dict_items(e, d)
            items.append([py.new_unicode([ord(x) for x in llsym.c_string(e, key).decode()], 1), val])
            e.mem.store(val, bv(e.mem.load(val, 8), 64) + 1, 8)
            return 0

        def clear(e, ts):
            ts = simp(ts)
            st = W.tstates.get(ts)
            if W.gil != W.me:
                W.bad.append('PyThreadState_Clear without the GIL')
            if st is None or st['deleted']:
                W.bad.append('PyThreadState_Clear on a deleted thread state')
                return
            st['cleared'] += 1
            items = pystubs._dict_items(e, st['dict'])
            vals = [it[1] for it in items]
            del items[:]
            for v in vals:
                if v in W.canaries:
                    rc = bv(e.mem.load(v, 8), 64) - 1
                    e.mem.store(v, simp(rc), 8)
                    if e.decide(rc == 0):
                        e.call('thread_canary_dealloc', [v])

        def delete(e, ts, current_ok=False):
            ts = simp(ts)
            st = W.tstates.get(ts)
            if W.gil != W.me and not current_ok:
                W.bad.append('PyThreadState_Delete without the GIL')
            if st is None:
                W.bad.append('PyThreadState_Delete on something that is not a thread state')
                return
            if st['deleted']:
                W.bad.append('a thread state is deleted twice')
                return
            if ts == W.current and not current_ok:
                W.bad.append('PyThreadState_Delete on the current thread state')
            st['deleted'] += 1
            st['region'].freed = True
            for t in W.threads.values():
                if t['ts'] == ts:
                    t['ts'] = 0

        def obj_new(e, tp):
            r = e.mem.alloc(W.cl[1], 'canary (new)', 'pyobj', fill=0)
            e.mem.store(r.base, 1, 8)
            e.mem.store(r.base + 8, simp(tp), 8)
            py.objs[r.base] = {'kind': 'canary', 'region': r}
            W.canaries[r.base] = r
            W.unpublished.add(r.base)
            for k in (1, 2, 4):
                W.shared[r.base + W.cl[0][k]] = 'canary field'
            return r.base

        def obj_free(e, o):
            o = simp(o)
            r = W.canaries.get(o)
            if r is None:
                W.bad.append('PyObject_Free on something that is not a canary')
                return
            if r.freed:
                W.bad.append('a canary is freed twice')
            r.freed = True

        def getspecific(e, key):
            return W.threads[W.me]['tls']

        def setspecific(e, key, p):
            W.threads[W.me]['tls'] = simp(p)
            W.shared[simp(p)] = 'tls->local_thread_canary'
            return 0

        def calloc(e, n, sz):
            n, sz = e.concretize(n, 64, 4, 'calloc n'), e.concretize(sz, 64, 64, 'calloc size')
            return e.mem.alloc(n * sz, 'cffi_tls_s (calloc)', 'heap', fill=0).base

        def free(e, p):
            p = simp(p)
            r = e.mem.region_of(p)
            if r is None or r.freed:
                W.bad.append('free() of a block that is not allocated (double free)')
                return
            r.freed = True

        def acquire(e, lock, wait):
            if simp(lock) != W.lock_token:
                W.bad.append('acquires something that is not the zombie lock')
            if W.zlock:
                W.bad.append('zombie lock acquired twice (self-deadlock)')
            W.zlock = True
            return 1

        def release(e, lock):
            if not W.zlock:
                W.bad.append('zombie lock released without being held')
            W.zlock = False

        def fatal(e, msg):
            W.fatal.append(llsym.c_string(e, msg).decode())
            raise llsym.PathEnd()
        ex.stubs.update({
            'PyGILState_GetThisThreadState': this_ts, '_PyThreadState_UncheckedGet': unchecked_get,
            'PyThreadState_GetUnchecked': unchecked_get, 'PyEval_RestoreThread': restore_thread,
            'PyGILState_Ensure': gil_ensure_api, 'PyGILState_Release': gil_release_api,
            'PyThreadState_GetDict': get_dict, 'PyDict_SetItemString': setitemstring,
            'PyThreadState_Clear': clear, 'PyThreadState_Delete': delete,
            '_PyObject_New': obj_new, 'PyObject_Free': obj_free,
            'pthread_getspecific': getspecific, 'pthread_setspecific': setspecific, 'calloc': calloc, 'free': free,
            'PyThread_acquire_lock': acquire, 'PyThread_release_lock': release,
            'Py_FatalError': fatal, '_Py_FatalErrorFunc': lambda e, fn, msg: fatal(e, msg)})

    # ---- lock discipline monitor --------------------------------------------------------------------------
    def watch(self, allow_head_read=False):
        """wrap Memory.load/store: accesses to lock-protected words need the zombie lock"""
        mem, W = self.ex.mem, self
        head_words = {self.head + self.cl[0][1]: 'head.zombie_prev', self.head + self.cl[0][2]: 'head.zombie_next'}
        oload, ostore = mem.load, mem.store

        def check(addr, n, what):
            addr = simp(addr)
            if not is_c(addr) or W.zlock:
                return
            for a in range(addr, addr + n, 8):
                a8 = a - (a % 8)
                if a8 in head_words:
                    if what == 'load' and allow_head_read and a8 == self.head + self.cl[0][2]:
                        continue
                    W.bad.append('%s of %s without the zombie lock' % (what, head_words[a8]))
                elif a8 in W.shared:
                    owner_obj = None
                    for c in W.canaries:
                        if c <= a8 < c + self.cl[1]:
                            owner_obj = c
                    if owner_obj in W.unpublished:
                        continue
                    # a thread's own tls word, accessed by that thread while it holds the GIL, is serialised by the GIL
                    # against dealloc and cannot race with its own shutdown
                    if a8 == W.threads[W.me]['tls'] and W.gil == W.me:
                        continue
                    W.bad.append('%s of %s without the zombie lock' % (what, W.shared[a8]))

        def load(addr, n):
            check(addr, n, 'load')
            return oload(addr, n)

        def store(addr, v, n):
            check(addr, n, 'store')
            return ostore(addr, v, n)
        mem.load, mem.store = load, store

        def unwatch():
            mem.load, mem.store = oload, ostore
        return unwatch


def build(ex, py, mod, chk, label, nz, nl, mode, order):
    """an arbitrary INV state: nz zombies (linked in `order`), nl live canaries of other threads, me in `mode`"""
    W = World(ex, py, mod, chk, label)
    cnt = {}
    inputs = {}

    def counter(name, lo):
        v = z3.BitVec(name, 32)
        ex.assume(z3.And(v >= lo, v <= (1 << 20)))
        inputs[name] = v
        return v
    zs = []
    for i in range(nz):
        tid = 'z%d' % i
        W.new_thread(tid)
        ts = W.new_tstate(tid, counter('zombie%d_gilstate_counter' % i, 1))
        tls = W.new_tls(tid)
        zs.append((tid, ts, tls, W.new_canary(ts, tls)))
    # the threads have exited in `order`: what an INV state looks like afterwards (built by hand, so that a defect of
    # the shutdown code shows in the thread-exit step and not in the construction of every start state)
    mem, cl = ex.mem, W.cl
    chain = [W.head] + [zs[i][3] for i in order] + [W.head]
    for a_, b_ in zip(chain, chain[1:]):
        mem.store(a_ + cl[0][2], b_, 8)      # zombie_next
        mem.store(b_ + cl[0][1], a_, 8)      # zombie_prev
    for i in order:
        tid, ts, tls, c = zs[i]
        mem.store(c + cl[0][4], 0, 8)        # canary->tls = NULL
        mem.region_of(tls).freed = True      # free(tls)
        W.threads[tid]['tls'] = 0
        W.threads[tid]['ts'] = 0             # the OS thread is gone; its PyThreadState is left to cffi
    for i in range(nl):
        tid = 'l%d' % i
        W.new_thread(tid)
        ts = W.new_tstate(tid, counter('live%d_gilstate_counter' % i, 1))
        W.new_canary(ts, W.new_tls(tid))
    W.new_thread('me')
    if mode in ('tls-only', 'python-state', 'cffi-state'):
        W.new_tls('me')
    if mode == 'python-state':
        W.new_tstate('me', counter('my_gilstate_counter', 1))
    if mode == 'cffi-state':
        ts = W.new_tstate('me', counter('my_gilstate_counter', 1))
        W.new_canary(ts, W.threads['me']['tls'])
    W.me = 'me'
    W.bad_at_start = W.inv_problems()
    return W, inputs


def report(chk, W, label, inputs, replay=None):
    probs = W.inv_problems()
    for p in sorted(set(probs)):
        hutil.discharge(chk, W.ex, label + ':' + p.split(':')[0][:60], False, inputs, replay=None,
                        describe=lambda c, p=p: '%s  %s' % (p, json.dumps(c, default=str)))
    if not probs:
        chk.query(label + ':invariant-reestablished+contracts-respected+lock-discipline', 'unsat', 0.0)
    return not probs


def make_replay(chk):
    done = {}

    def replay(case):
        if 'r' not in done:
            path = chk.write_replay('threads', REPLAY % (json.dumps({'threads': 4, 'calls': 3}), CHILD))
            rc, out = common.run_replay(path, timeout=600)
            done['r'] = (common.replay_verdict(rc, out), path)
        return done['r']
    return replay


def worker(args):
    prop, tier, step, nz, nl, mode, order = args
    chk = hutil.sub_check(prop, tier)
    mod = irgen.backend()
    label = '%s:zombies=%d(order %s):live=%d:me=%s' % (step, nz, ''.join(map(str, order)), nl, mode)
    replay = make_replay(chk)
    ex = llsym.Executor(mod, pystubs.stubs(), loop_bound=24)
    off = ts_offsets()

    def h(ex):
        py = pystubs.PyEnv(ex)
        W, inputs = build(ex, py, mod, chk, label, nz, nl, mode, order)
        mem, cl = ex.mem, W.cl
        if W.bad_at_start:
            chk.harness_error('%s: the constructed start state violates INV: %s' % (label, W.bad_at_start))
            return
        # behavioural obligations are replayed with real foreign threads; memory-discipline ones (leaks, double frees,
        # lock discipline, dangling pointers) have no deterministic real-world symptom and are reported from the model
        BEHAVIOURAL = ('thread-state-exists-and-is-current', 'state-survives-the-call', 'thread-local-data-still-there',
                       'this-thread-still-bound-to-it', 'second-call-finds-the-first-calls-state', 'state-kept-alive-beyond-this-call',
                       'same-state-as-before')
        D = lambda n, c: hutil.discharge(chk, ex, label + ':' + n, c, inputs,
                                         replay=replay if n.split(':')[-1] in BEHAVIOURAL else None)
        zombies0 = W.zombies()
        zts0 = [simp(mem.load(c + cl[0][3], 8)) for c in zombies0]
        if step == 'callback':
            holds = mode in ('python-state', 'cffi-state') and ex.decide(z3.Bool('caller_holds_the_gil'))
            inputs['caller_holds_the_gil'] = z3.If(z3.Bool('caller_holds_the_gil'), z3.BitVecVal(1, 8), z3.BitVecVal(0, 8))
            if holds:
                W.gil, W.current = 'me', W.threads['me']['ts']
            else:
                # somebody else may hold the GIL right now
                W.gil, W.current = None, 0
            ts_before = W.threads['me']['ts']
            c0 = bv(mem.load(ts_before + off['gilstate_counter'], 4), 32) if ts_before else None
            first_ts = None
            for rnd in (1, 2):
                tsb = W.threads['me']['ts']
                cb = bv(mem.load(tsb + off['gilstate_counter'], 4), 32) if tsb else None
                un = W.watch(allow_head_read=True)
                st = simp(ex.call('gil_ensure', []))
                un()
                ts = W.threads['me']['ts']
                live = ts != 0 and ts in W.tstates and not W.tstates[ts]['deleted']
                hutil.witness(chk, ex, '%s:call%d:%s' % (label, rnd, 'new-state' if not tsb else 'existing-state'))
                D('call%d:thread-state-exists-and-is-current' % rnd, live and W.gil == 'me' and W.current == ts)
                if not live:
                    return
                if rnd == 1:
                    first_ts = ts
                cnt = bv(mem.load(ts + off['gilstate_counter'], 4), 32)
                if not tsb:
                    D('call%d:exactly-one-state-created' % rnd, len(W.created_ts) == 1)
                    tls = W.threads['me']['tls']
                    can = simp(mem.load(tls, 8)) if tls else 0
                    okc = tls != 0 and can in W.canaries and not W.canaries[can].freed
                    D('call%d:canary-registered-in-tls' % rnd, okc)
                    if okc:
                        D('call%d:canary-designates-this-state-and-tls' % rnd, simp(mem.load(can + cl[0][3], 8)) == ts and simp(mem.load(can + cl[0][4], 8)) == tls)
                        D('call%d:canary-owned-by-the-state-dict-only' % rnd, z3.And(bv(mem.load(can, 8), 64) == 1,
                          z3.BoolVal(any(it[1] == can for it in pystubs._dict_items(ex, W.tstates[ts]['dict'])))))
                        W.unpublished.discard(can)
                    D('call%d:state-kept-alive-beyond-this-call' % rnd, cnt == 2)
                    D('call%d:result-UNLOCKED' % rnd, st == 1)
                    # zombies found on the way are reclaimed
                    D('call%d:zombie-list-emptied' % rnd, W.zombies() == [])
                    D('call%d:every-zombie-state-cleared-and-deleted-once' % rnd,
                      all(W.tstates[z]['cleared'] == 1 and W.tstates[z]['deleted'] == 1 for z in zts0))
                else:
                    D('call%d:no-state-created' % rnd, len(W.created_ts) == (1 if (rnd == 2 and not ts_before) else 0))
                    D('call%d:same-state-as-before' % rnd, ts == tsb)
                    D('call%d:counter-incremented-once' % rnd, cnt == cb + 1)
                    was_current = holds and rnd == 1 or (rnd == 2 and holds)
                    D('call%d:result-tells-whether-the-GIL-was-held' % rnd, st == (0 if was_current else 1))
                D('call%d:nobody-elses-state-touched' % rnd,
                  all(s['cleared'] == 0 and s['deleted'] == 0 for a, s in W.tstates.items() if a not in zts0 and a != ts))
                if not report(chk, W, label + ':call%d:after-ensure' % rnd, inputs, replay):
                    return
                # the callback body runs here with a valid state; it stores thread-local data in the state's dict
                marker = py.new_opaque('thread-local-data')
                pystubs._dict_items(ex, W.tstates[ts]['dict']).append([py.new_opaque('key'), marker])
                un = W.watch(allow_head_read=True)
                ex.call('gil_release', [st])
                un()
                alive = ts in W.tstates and not W.tstates[ts]['deleted']
                keeps = not tsb or mode == 'cffi-state' or True
                # a state made by Python for a thread that already had cb >= 1 keeps it; one made by cffi must persist
                D('call%d:state-survives-the-call' % rnd, alive)
                if alive:
                    D('call%d:thread-local-data-still-there' % rnd,
                      any(it[1] == marker for it in pystubs._dict_items(ex, W.tstates[ts]['dict'])) and W.tstates[ts]['cleared'] == 0)
                    D('call%d:this-thread-still-bound-to-it' % rnd, W.threads['me']['ts'] == ts)
                    after = bv(mem.load(ts + off['gilstate_counter'], 4), 32)
                    D('call%d:counter-back-to-resting-value' % rnd, after == (cb if tsb else 1))
                D('call%d:GIL-handed-back-as-found' % rnd, (W.gil == 'me') == (simp(st) == 0))
                if not report(chk, W, label + ':call%d:after-release' % rnd, inputs, replay):
                    return
            D('second-call-finds-the-first-calls-state', W.threads['me']['ts'] == first_ts)
        elif step == 'thread-exit':
            tls = W.threads['me']['tls']
            can = simp(mem.load(tls, 8)) if tls else 0
            W.gil, W.current = None, 0       # thread exit runs without the GIL (somebody else may hold it)
            hutil.witness(chk, ex, label + (':with-canary' if can else ':without-canary'))
            un = W.watch()
            ex.call('cffi_thread_shutdown', [tls])
            un()
            W.threads['me']['tls'] = 0
            D('tls-block-freed', mem.region_of(tls).freed)
            if can:
                D('canary-joins-the-zombies', sorted(W.zombies()) == sorted(zombies0 + [can]))
                D('canary-forgets-the-tls-block', simp(mem.load(can + cl[0][4], 8)) == 0)
            else:
                D('zombie-list-unchanged', sorted(W.zombies()) == sorted(zombies0))
            D('no-thread-state-touched', all(s['cleared'] == 0 and s['deleted'] == 0 for s in W.tstates.values()))
            D('zombie-lock-released', not W.zlock)
            report(chk, W, label + ':after-exit', inputs, replay)
        elif step == 'dealloc':
            # any canary: mine (live), a zombie, another thread's live one; with the GIL (Py_Finalize / Clear)
            W.gil, W.current = 'me', W.threads['me']['ts']
            targets = [c for c, r in W.canaries.items() if not r.freed]
            if not targets:
                raise llsym.PathEnd()
            idx = 0
            for j in range(len(targets) - 1):
                if ex.decide(z3.Bool('dealloc_target_is_%d' % j)):
                    break
                idx += 1
            can = targets[idx]
            tls = simp(mem.load(can + cl[0][4], 8))
            was_zombie = can in zombies0
            hutil.witness(chk, ex, label + (':zombie' if was_zombie else ':live'))
            # the dict entry goes away with the object
            ts = simp(mem.load(can + cl[0][3], 8))
            items = pystubs._dict_items(ex, W.tstates[ts]['dict'])
            items[:] = [it for it in items if it[1] != can]
            un = W.watch()
            ex.call('thread_canary_dealloc', [can])
            un()
            D('canary-freed-once', W.canaries[can].freed)
            D('unlinked-from-the-zombie-list', sorted(W.zombies()) == sorted(z for z in zombies0 if z != can))
            if tls:
                D('owner-tls-no-longer-points-to-it', simp(mem.load(tls, 8)) == 0)
            D('no-thread-state-touched', all(s['cleared'] == 0 and s['deleted'] == 0 for s in W.tstates.values()))
            D('zombie-lock-released', not W.zlock)
            del W.canaries[can]
            report(chk, W, label + ':after-dealloc', inputs, replay)
        elif step == 'free-zombies':
            W.gil, W.current = 'me', W.threads['me']['ts']
            hutil.witness(chk, ex, label)
            un = W.watch(allow_head_read=True)
            ex.call('thread_canary_free_zombies', [])
            un()
            D('zombie-list-emptied', W.zombies() == [])
            D('every-zombie-state-cleared-and-deleted-once', all(W.tstates[z]['cleared'] == 1 and W.tstates[z]['deleted'] == 1 for z in zts0))
            D('every-zombie-canary-freed', all(W.canaries[c].freed for c in zombies0))
            D('nobody-elses-state-touched', all(s['cleared'] == 0 and s['deleted'] == 0 for a, s in W.tstates.items() if a not in zts0))
            D('zombie-lock-released', not W.zlock)
            report(chk, W, label + ':after-free', inputs, replay)

    def on_oob(ex2, what_, model):
        try:
            ok, path = replay({})
            ok = True if ok else None        # a use-after-free need not crash: unconfirmed, still reported
        except Exception as e:
            ok, path = None, None
        chk.report_failure('%s: access to freed / foreign memory: %s' % (label, what_), {}, path, ok)
    ex.on_oob = on_oob
    res = ex.explore(h, max_paths=4000)
    hutil.finish_explore(chk, ex, res, label)
    if not chk.witnesses:
        chk.inconc(label + ': no path reached an obligation')
    chk.functions = irgen.func_info(mod, sorted(ex.called))
    return hutil.export(chk)


def run(chk):
    quick = chk.tier == 'quick'
    P = (chk.prop, chk.tier)
    Z = 2 if quick else 4
    LV = 1 if quick else 2
    cases = []
    for nz in range(0, Z + 1):
        orders = list(itertools.permutations(range(nz)))
        if quick and nz >= 2:
            orders = [orders[0], orders[-1]]
        for order in orders:
            for nl in range(0, LV + 1):
                for mode in ('no-state', 'tls-only', 'python-state', 'cffi-state'):
                    cases.append(P + ('callback', nz, nl, mode, order))
                for mode in ('tls-only', 'python-state', 'cffi-state'):
                    cases.append(P + ('thread-exit', nz, nl, mode, order))
                cases.append(P + ('free-zombies', nz, nl, 'python-state', order))
                if nz + nl > 0 or True:
                    cases.append(P + ('dealloc', nz, nl, 'cffi-state', order))
    chk.bounds = {'state': '0..%d zombie canaries (every exit order%s), 0..%d live canaries of other threads, the calling thread in each of '
                           '4 situations, every gilstate_counter value in [1, 2^20]' % (Z, ' -- first and last permutation only' if quick else '', LV),
                  'steps': 'callback (gil_ensure + gil_release, twice in a row), thread-exit, canary dealloc (any canary), free-zombies'}
    chk.outside = ['CPython itself: PyGILState_*/PyThreadState_* follow the contracts written in the harness (in particular: Release deletes the '
                   'state when its counter reaches 0; Clear drops the dict, which deallocates the canary)',
                   'the order in which pthread runs TLS destructors of different keys at thread exit, Py_Finalize racing with callbacks',
                   'Windows (misc_win32.h), the free-threaded build',
                   'interleavings inside one critical section (operations on the list are serialised by the zombie lock: checked as lock discipline)']
    chk.assume('pointers in the start state are those an INV state has; INV is re-established by every step, so histories of any length are covered')
    irgen.backend()
    ts_offsets()
    hutil.run_cases(chk, cases, worker)
