"""C30 (C side) -- typeof() on a compiled FFI never reads outside the string or writes outside its
output array, for every byte string up to the bound.

llsym (path mode, bounds monitor) on the real IR of parse_c_type.c: parse_c_type -> parse_c_type_from,
next_token, parse_complete, parse_sequel, write_ds, parse_error, number_of_commas, get_following_char,
search_in_*, search_standard_typename, get_common_type / parse_common_type_replacement (commontypes.c).
Input = n arbitrary bytes followed by NUL in a region of exactly n+1 bytes; output = array of exactly
output_size opcodes; an empty declaration context.  Any load/store outside those regions is reported.
"""
import json
import z3
from vf import common, irgen, llsym, pystubs, hutil
from vf.llsym import bv, simp, mask, is_c

REPLAY = r'''
# Replay for C30 (C side): typeof() of a compiled FFI on the given bytes must return or raise ffi.error /
# TypeError / ValueError -- run under the real backend (crashes are caught by the exit status).
import sys, json
import _cffi_backend
case = json.loads(%r)
text = bytes(case['bytes']).decode('latin1')
ffi = _cffi_backend.FFI()
try:
    ffi.typeof(text)
except (ffi.error, TypeError, ValueError):
    pass
except Exception as e:
    print('VIOLATED: typeof(%%r) raised %%s' %% (text, type(e).__name__)); sys.exit(1)
sys.exit(0)
'''


STR_REPLAY = r'''
# Replay for C30 (C side, str argument): typeof() of a compiled FFI on the given str must return or raise
# ffi.error / TypeError / ValueError; the call runs in a child process so that a crash is observed.
import sys, json, subprocess
case = json.loads(%r)
code = ("import sys, _cffi_backend\n"
        "ffi = _cffi_backend.FFI()\n"
        "text = ''.join(map(chr, %%r))\n"
        "try:\n"
        "    ffi.typeof(text)\n"
        "except (ffi.error, TypeError, ValueError):\n"
        "    pass\n"
        "except Exception as e:\n"
        "    print('OTHER', type(e).__name__); sys.exit(7)\n"
        "sys.exit(0)\n") %% (case['code_points'],)
r = subprocess.run([sys.executable, '-c', code], stdout=subprocess.PIPE, stderr=subprocess.STDOUT)
if r.returncode < 0 or r.returncode >= 128:
    print('VIOLATED: typeof(%%r) crashed the process (status %%d)' %% (''.join(map(chr, case['code_points'])), r.returncode)); sys.exit(1)
if r.returncode == 7:
    print('VIOLATED: typeof(%%r) raised %%s' %% (''.join(map(chr, case['code_points'])), r.stdout.decode().strip())); sys.exit(1)
sys.exit(0)
'''


def cases(chk):
    quick = chk.tier == 'quick'
    P = (chk.prop, chk.tier)
    N = 4 if quick else 5
    out = [P + ('cstr', k) for k in range(0, 4 if quick else 5)]
    for n in range(0, N + 1):
        for osz in ((1, 4) if quick else (1, 2, 8)):
            if n >= 3:
                # partition the longest inputs on the class of the first byte to spread the work
                for cls in ('alpha', 'digit', 'space', 'punct', 'other'):
                    out.append(P + ('c', n, osz, cls))
            else:
                out.append(P + ('c', n, osz, None))
    return out


def first_class(c, cls):
    alpha = z3.Or(z3.And(c >= 65, c <= 90), z3.And(c >= 97, c <= 122), c == 95, c == 36)
    digit = z3.And(c >= 48, c <= 57)
    space = z3.Or(c == 32, c == 9, c == 10, c == 13, c == 11, c == 12)
    punct = z3.Or(*[c == ord(x) for x in '*()[],.&'])
    table = {'alpha': alpha, 'digit': digit, 'space': space, 'punct': punct}
    if cls in table:
        return table[cls]
    return z3.Not(z3.Or(alpha, digit, space, punct))


def str_worker(args):
    """_ffi_type (ffi.typeof / new / cast ... on a compiled FFI) with a str object of k symbolic code points:
    PyUnicode_AsUTF8 follows its contract (NULL + UnicodeEncodeError for a lone surrogate)."""
    prop, tier, k = args
    chk = hutil.sub_check(prop, tier)
    mod = irgen.backend()
    label = '_ffi_type:str-of-%d-code-points' % k
    FF = mod.struct_layout(('named', 'struct.FFIObject_s'))
    tb_off = FF[0][6]
    bl = mod.struct_layout(('named', 'struct.builder_c_t'))
    ex = llsym.Executor(mod, pystubs.stubs(), loop_bound=64, max_depth=30)
    findings = []

    def replay(case):
        path = chk.write_replay('str', STR_REPLAY % json.dumps({'code_points': [case['cp%d' % i] for i in range(k)]}))
        rc, out = common.run_replay(path, timeout=120)
        return common.replay_verdict(rc, out), path

    def h(ex):
        py = pystubs.PyEnv(ex)
        mem = ex.mem
        obj = mem.alloc(64, 'exc:FFIError', 'pyobj', fill=0)
        mem.store(obj.base, 1 << 32, 8)
        mem.store(ex.gaddr('FFIError'), obj.base, 8)
        cps = [z3.BitVec('cp%d' % i, 16) for i in range(k)]
        for c in cps:
            ex.assume(c != 0)
        text = py.new_unicode(cps, 2)
        ffi = py.new_obj('ffi', 'FFI_Type', FF[1] + 16)
        mem.store(ffi + tb_off + bl[0][1], py.new_opaque('dict', 'PyDict_Type', items=[]), 8)
        inputs = dict(('cp%d' % i, c) for i, c in enumerate(cps))

        def as_utf8(e, s_):
            out = []
            for c in cps:
                if e.decide(z3.And(z3.UGE(c, 0xD800), z3.ULE(c, 0xDFFF))):
                    py.exc = 'PyExc_UnicodeEncodeError'
                    return 0
                c32 = z3.ZeroExt(16, c)
                if e.decide(z3.ULT(c, 0x80)):
                    out.append(z3.Extract(7, 0, c32))
                elif e.decide(z3.ULT(c, 0x800)):
                    out += [z3.Extract(7, 0, 0xC0 | z3.LShR(c32, 6)), z3.Extract(7, 0, 0x80 | (c32 & 0x3F))]
                else:
                    out += [z3.Extract(7, 0, 0xE0 | z3.LShR(c32, 12)), z3.Extract(7, 0, 0x80 | (z3.LShR(c32, 6) & 0x3F)),
                            z3.Extract(7, 0, 0x80 | (c32 & 0x3F))]
            r = e.mem.alloc(len(out) + 1, 'utf8 text', 'input', fill=0)
            for i, b in enumerate(out):
                e.mem.store(r.base + i, b, 1)
            return r.base

        def setdefault(e, d, key, val):
            return pystubs.PyDict_GetItem(e, d, key) or (pystubs.PyDict_SetItem(e, d, key, val), simp(val))[1]
        errno_cell = mem.alloc(4, 'errno', 'heap', fill=0)
        ex.stubs.update({'PyUnicode_AsUTF8': as_utf8, 'PyDict_SetDefault': setdefault,
                         'PyMem_Malloc': lambda e, n_: e.mem.alloc(e.concretize(n_, 64, 64, 'size'), 'PyMem_Malloc', 'heap').base,
                         'PyMem_Free': lambda e, p_: None, '__errno_location': lambda e: errno_cell.base,
                         'realize_c_type_or_func': lambda e, b_, ops, idx: pystubs.new_ctype(e, pystubs.CffiLayout(mod), 4, 0)})
        r = simp(ex.call('_ffi_type', [ffi, text, 1]))
        if is_c(r) and r == 0:
            hutil.witness(chk, ex, label + ':error:' + str(py.exc))
            hutil.discharge(chk, ex, label + ':error-is-ffi.error-TypeError-or-ValueError',
                            py.exc in ('FFIError', 'PyExc_TypeError', 'PyExc_ValueError', 'PyExc_UnicodeEncodeError'), inputs, replay=replay)
        else:
            hutil.witness(chk, ex, label + ':ctype')
            hutil.discharge(chk, ex, label + ':no-exception-with-a-result', py.exc is None, inputs, replay=replay)

    def on_oob(ex2, what_, model):
        m = model or ex2.model()
        cps = [z3.BitVec('cp%d' % i, 16) for i in range(k)]
        data = [hutil.mval(m, c) for c in cps] if m is not None else []
        key = tuple(0xD800 <= c <= 0xDFFF for c in data)
        if key in findings:
            return
        findings.append(key)
        try:
            ok, path = replay(dict(('cp%d' % i, c) for i, c in enumerate(data)))
        except Exception as e:
            chk.inconc('%s: replay machinery failed: %s' % (label, e))
            return
        chk.report_failure('%s: stray memory access for str code points %r: %s' % (label, data, what_), {}, path, ok)
    ex.on_oob = on_oob
    res = ex.explore(h, max_paths=400000, time_limit=2700)
    hutil.finish_explore(chk, ex, res, label)
    chk.functions = irgen.func_info(mod, sorted(ex.called))
    return hutil.export(chk)


def worker(args):
    if len(args) == 3:
        return str_worker(args)
    prop, tier, n, osz, cls = args
    chk = hutil.sub_check(prop, tier)
    mod = irgen.backend()
    label = 'parse_c_type:len=%d,output_size=%d%s' % (n, osz, (',first=' + cls) if cls else '')
    info_l = mod.struct_layout(('named', 'struct._cffi_parse_info_s'))
    ctx_l = mod.struct_layout(('named', 'struct._cffi_type_context_s'))

    st = dict(llsym.LIBC)
    ex = llsym.Executor(mod, st, loop_bound=64, max_depth=30)
    findings = []

    def h(ex):
        mem = ex.mem
        errno_cell = mem.alloc(4, 'errno', 'heap', fill=0)
        ex.stubs['__errno_location'] = lambda e: errno_cell.base

        def strtoul(e, p, endp, base):
            """C strtoul with base 0 on a token that starts with a digit (the only caller)"""
            p = simp(p)
            i = 0
            b0 = e.mem.load(p, 1)
            b = 10
            if e.decide(llsym.eq(b0, 48, 8)):
                b1 = e.mem.load(p + 1, 1)
                if e.decide(z3.Or(bv(b1, 8) == 120, bv(b1, 8) == 88)):
                    b2 = e.mem.load(p + 2, 1)
                    ishex = z3.Or(z3.And(bv(b2, 8) >= 48, bv(b2, 8) <= 57), z3.And(bv(b2, 8) >= 97, bv(b2, 8) <= 102),
                                  z3.And(bv(b2, 8) >= 65, bv(b2, 8) <= 70))
                    if e.decide(ishex):
                        b, i = 16, 2
                    else:
                        e.mem.store(endp, p + 1, 8)
                        return 0
                else:
                    b = 8
            val = z3.BitVecVal(0, 128)
            while True:
                c = bv(e.mem.load(p + i, 1), 8)
                if b == 16:
                    isd = z3.Or(z3.And(c >= 48, c <= 57), z3.And(c >= 97, c <= 102), z3.And(c >= 65, c <= 70))
                elif b == 8:
                    isd = z3.And(c >= 48, c <= 55)
                else:
                    isd = z3.And(c >= 48, c <= 57)
                if not e.decide(isd):
                    break
                d = z3.ZeroExt(120, z3.If(c <= 57, c - 48, z3.If(c >= 97, c - 87, c - 55)))
                val = val * b + d
                i += 1
                if i > 24:
                    raise llsym.UnwindBound('number longer than 24 digits')
            e.mem.store(endp, p + i, 8)
            if e.decide(z3.UGT(val, z3.BitVecVal(mask(64), 128))):
                e.mem.store(errno_cell.base, 34, 4)
                return mask(64)
            return simp(z3.Extract(63, 0, val))
        ex.stubs['strtoul'] = strtoul
        ex.stubs['strtoull'] = strtoul
        inp = mem.alloc(n + 1, 'type string', 'input')
        bs = [z3.BitVec('b%d' % i, 8) for i in range(n)]
        for i, b in enumerate(bs):
            mem.store(inp.base + i, b, 1)
        mem.store(inp.base + n, 0, 1)
        if cls is not None and n:
            ex.assume(first_class(bs[0], cls))
        outp = mem.alloc(8 * osz, 'output opcodes', 'input')
        ctx = mem.alloc(ctx_l[1], 'empty type context', 'heap', fill=0)
        info = mem.alloc(info_l[1], 'parse info', 'heap', fill=0)
        mem.store(info.base + info_l[0][0], ctx.base, 8)
        mem.store(info.base + info_l[0][1], outp.base, 8)
        mem.store(info.base + info_l[0][2], osz, 4)
        r = simp(ex.call('parse_c_type', [info.base, inp.base]))
        r = ex.concretize(r, 32, 64, 'result') if not is_c(r) else r
        rs = llsym.signed(r, 32)
        inputs = dict(('b%d' % i, b) for i, b in enumerate(bs))
        name = label + (':accepted' if rs >= 0 else ':rejected')
        m = hutil.witness(chk, ex, name)
        if m is not None and len(chk.samples) < 8 and n:
            chk.sample({'input bytes': [hutil.mval(m, b) for b in bs], 'result': rs})
        if rs >= 0:
            hutil.discharge(chk, ex, name + ':result-index-inside-output', rs < osz, inputs)
        else:
            loc = bv(mem.load(info.base + info_l[0][3], 8), 64)
            hutil.discharge(chk, ex, name + ':error-location-inside-string', z3.ULE(loc, n), inputs)
            msg = simp(mem.load(info.base + info_l[0][4], 8))
            hutil.discharge(chk, ex, name + ':error-message-set', is_c(msg) and msg != 0, inputs)

    def on_oob(ex2, what_, model):
        bs = [z3.BitVec('b%d' % i, 8) for i in range(n)]
        m = model or ex2.model()
        data = [hutil.mval(m, b) for b in bs] if m is not None else []
        if tuple(data) not in findings:
            findings.append(tuple(data))
            path = chk.write_replay('bytes', REPLAY % json.dumps({'bytes': data}))
            chk.report_failure('%s: access outside the string / output array for input bytes %r: %s' % (label, data, what_),
                               {}, path, None)
    ex.on_oob = on_oob
    res = ex.explore(h, max_paths=400000, time_limit=3000)
    hutil.finish_explore(chk, ex, res, label)
    chk.functions = irgen.func_info(mod, sorted(ex.called))
    return hutil.export(chk)
