"""C34 -- ffi.include() shares declarations instead of copying them.

Decided by symbolic execution of the real delegation code of the backend (llsym, LLVM IR of _cffi_backend.c):

  dag:structs  _realize_c_struct_or_union -> _fetch_external_struct_or_union over an include graph of FFI objects
               whose struct/union tables have SYMBOLIC names and flags (external / union / opaque): under the
               representation invariant that Parser.include + the Recompiler establish (tables sorted; an includer
               re-lists every aggregate of its includes as external; one defining module per aggregate), the ctype
               obtained through the including FFI IS the object the defining FFI hands out (pointer identity, either
               realization order), is cached in the includer's primary slot, an opaque/complete mismatch is refused
               and a missing definer is an FFIError -- never a fresh copy.
  dag:consts   ffi_fetch_int_constant over the same graphs with symbolic global tables: an integer constant or enum
               value defined anywhere below is visible through the includer as the defining module's own value.
  dag:libattr  lib_build_and_cache_attr over graphs of Lib objects: a function / variable / constant defined below
               is reachable through the includer's lib, is the included lib's own object, and is cached.
  dag:enums    realize_c_type_or_func on an enum that the includer re-lists (there is no delegation for enums): the
               ctype is NOT the included module's object -- recorded as a known finding (see known_findings.jsonl).
  py:include   Parser.include on a symbolic declaration key (pysym): every typedef/struct/union/enum/anonymous
               declaration is shared as the same model object and marked as included (which is what makes the
               Recompiler emit it as external); integer constants are visible.
Counterexamples are replayed on real modules built from the solver's model (one out-of-line module per node of the
graph; API-mode modules compiled with the C compiler for the lib lookups) and on a fixed three-module scenario.
"""
import os, sys, json, subprocess, re
import z3
from vf import common, irgen, llsym, pysym, pystubs, hutil
from vf.llsym import bv, simp, mask, is_c

F_UNION, F_EXTERNAL, F_OPAQUE = 0x01, 0x08, 0x10

# include graphs: node 0 is the FFI that is asked; edges = ffi.include() calls, in order
SHAPES = {
    'pair': {0: [1]},
    'chain3': {0: [1], 1: [2]},
    'two': {0: [1, 2]},
    'diamond': {0: [1, 2], 1: [3], 2: [3]},
    'chain4': {0: [1], 1: [2], 2: [3]},
    'fork-deep': {0: [1, 2], 2: [3]},
}
QUICK_SHAPES = ['pair', 'chain3', 'two', 'diamond']
# entries per module table (an includer re-lists what it includes, so tables grow towards node 0)
SIZES = {
    'pair': {0: 2, 1: 2},
    'chain3': {0: 2, 1: 2, 2: 2},
    'two': {0: 3, 1: 2, 2: 1},
    'diamond': {0: 3, 1: 2, 2: 2, 3: 1},
    'chain4': {0: 2, 1: 2, 2: 2, 3: 2},
    'fork-deep': {0: 3, 1: 1, 2: 2, 3: 1},
}
NAMES = 'abc'          # alphabet of the one-letter symbolic names

REPLAY = r'''
# Replay for C34: modules built by the real cffi (out-of-line ABI mode needs no compiler) with ffi.include();
# every declaration of the included module is looked up through the including one.
import sys, os, json, tempfile, importlib
import cffi
case = json.loads(%r)
d = tempfile.mkdtemp()
import atexit, shutil
atexit.register(shutil.rmtree, d, True)
sys.path.insert(0, d)
CDEF1 = """
struct S { int a; long b; }; union U { int x; char y; }; typedef struct S S_t; typedef int myint;
enum e { EA = 3, EB }; typedef struct { int q; } anon_t; struct opq; typedef struct opq *opq_p;
#define K 42
"""
try:
    f1 = cffi.FFI(); f1.cdef(CDEF1); f1.set_source('_c34_m1', None); f1.emit_python_code(os.path.join(d, '_c34_m1.py'))
    f2 = cffi.FFI(); f2.include(f1); f2.cdef("struct T { struct S s; union U u; S_t *p; enum e v; anon_t w; opq_p o; };\n#define K2 7\n")
    f2.set_source('_c34_m2', None); f2.emit_python_code(os.path.join(d, '_c34_m2.py'))
    f3 = cffi.FFI(); f3.include(f2); f3.cdef("struct V { struct T t; struct S *s; };")
    f3.set_source('_c34_m3', None); f3.emit_python_code(os.path.join(d, '_c34_m3.py'))
    m1, m2, m3 = (importlib.import_module(n) for n in ('_c34_m1', '_c34_m2', '_c34_m3'))
except Exception as e:
    print('VIOLATED: declarations of the included FFI cannot be used by the including one: %%s: %%s' %% (type(e).__name__, e))
    sys.exit(1)
bad = []
kinds = case.get('kinds') or ['struct', 'union', 'typedef', 'enum', 'const']
names = {'struct': ['struct S', 'struct opq', 'struct S *'], 'union': ['union U'], 'typedef': ['S_t', 'myint', 'anon_t', 'opq_p'],
         'enum': ['enum e', 'enum e *']}
for k in kinds:
    for t in names.get(k, []):
        for nm, m in (('m2', m2), ('m3', m3)):
            try:
                if m.ffi.typeof(t) is not m1.ffi.typeof(t):
                    bad.append('%%s.ffi.typeof(%%r) is not m1.ffi.typeof(%%r)' %% (nm, t, t))
            except Exception as e:
                bad.append('%%s.ffi.typeof(%%r) raised %%s: %%s' %% (nm, t, type(e).__name__, e))
if 'const' in kinds:
    for c, v in (('K', 42), ('EA', 3), ('EB', 4)):
        for nm, m in (('m2', m2), ('m3', m3)):
            try:
                r = m.ffi.integer_const(c)
            except Exception as e:
                r = type(e).__name__
            if r != v:
                bad.append('%%s.ffi.integer_const(%%r) = %%r' %% (nm, c, r))
if 'struct' in kinds and not bad:
    if m3.ffi.typeof('struct V').fields[0][1].type.fields[0][1].type is not m1.ffi.typeof('struct S'):
        bad.append('field type of an included struct is a copy')
    if [(n, f.offset) for n, f in m2.ffi.typeof('struct S').fields] != [(n, f.offset) for n, f in m1.ffi.typeof('struct S').fields]:
        bad.append('layout of included struct differs')
for b in bad:
    print('VIOLATED:', b)
sys.exit(1 if bad else 0)
'''

MODEL_REPLAY = r"""
# Replay for C34: real modules are built from the solver's model (one module per node of the include graph,
# declarations named after the model's table entries), then every declaration reachable from module 0 is looked
# up through module 0 and compared with what the defining module hands out.
import sys, os, json, tempfile, importlib
import cffi
case = json.loads(%r)
shape = {int(k): v for k, v in case['shape'].items()}
what = case['what']
d = tempfile.mkdtemp()
import atexit, shutil
atexit.register(shutil.rmtree, d, True)
sys.path.insert(0, d)
def reach(k):
    out = []
    for c in shape.get(k, []):
        for n in [c] + reach(c):
            if n not in out: out.append(n)
    return out
nodes = sorted(set([0] + reach(0)))
order = sorted(nodes, key=lambda k: len(reach(k)))          # leaves first
sizes = {int(k): v for k, v in case['sizes'].items()}
bad = []
F, M, defs, completed = {}, {}, {}, set()
tag = '%%d' %% os.getpid()
try:
    for k in order:
        f = cffi.FFI()
        for c in shape.get(k, []):
            f.include(F[c])
        own, csrc = [], []
        for j in range(sizes[k]):
            name = chr(case['name_%%d_%%d' %% (k, j)])
            if what == 'structs':
                fl = case['flags_%%d_%%d' %% (k, j)]
                kind = 'union' if fl & 1 else 'struct'
                below = [defs[(kind, name, g)] for g in reach(k) if (kind, name, g) in defs]
                if not fl & 8:
                    if below:
                        continue      # cannot define again what an include defines
                    own.append('%%s %%s;' %% (kind, name) if fl & 16 else '%%s %%s { int f_%%s; long g; };' %% (kind, name, name))
                    defs[(kind, name, k)] = bool(fl & 16)
                elif not fl & 16 and below and below[0]:
                    own.append('%%s %%s { int f_%%s; long g; };' %% (kind, name, name))     # completes an opaque one
                    completed.add((kind, name, k))
            else:
                if any((name, g) in defs for g in nodes):
                    continue
                val = 100 + 4 * k + j
                if case['is_int_constant_%%d_%%d' %% (k, j)]:
                    own.append('#define %%s %%d' %% (name, val))
                    csrc.append('#define %%s %%d' %% (name, val))
                    defs[(name, k)] = ('int', val)
                else:
                    own.append('int %%s(void);' %% name)
                    csrc.append('static int %%s(void) { return %%d; }' %% (name, val))
                    defs[(name, k)] = ('func', val)
        f.cdef('\n'.join(own) + '\n')
        modname = '_c34r_%%s_%%d' %% (tag, k)
        if what == 'libattr':
            f.set_source(modname, '\n'.join(csrc))
            f.compile(tmpdir=d)
        else:
            f.set_source(modname, None)
            f.emit_python_code(os.path.join(d, modname + '.py'))
        F[k] = f
    for k in order:
        M[k] = importlib.import_module('_c34r_%%s_%%d' %% (tag, k))
except Exception as e:
    print('cannot build real modules for this model: %%s: %%s' %% (type(e).__name__, e))
    sys.exit(0)
if what == 'structs':
    for (kind, name, k), opaque in sorted(defs.items()):
        t = '%%s %%s' %% (kind, name)
        for via in nodes:
            if via == k or k not in reach(via):
                continue
            completes = [(kind, name, g) in completed for g in [via] + reach(via)]
            try:
                a = M[via].ffi.typeof(t)
            except NotImplementedError:
                if not (opaque and any(completes)):
                    bad.append('module %%d: typeof(%%r) refused although module %%d defines it' %% (via, t, k))
                continue
            except Exception as e:
                bad.append('module %%d: typeof(%%r) raised %%s: %%s' %% (via, t, type(e).__name__, e))
                continue
            if a is not M[k].ffi.typeof(t):
                bad.append('module %%d: typeof(%%r) is not the ctype object of defining module %%d' %% (via, t, k))
            if M[via].ffi.typeof(t + ' *') is not M[k].ffi.typeof(t + ' *'):
                bad.append('module %%d: typeof(%%r) differs from defining module %%d' %% (via, t + ' *', k))
else:
    for (name, k), (kind_, val) in sorted(defs.items()):
        for via in nodes:
            if via != k and k not in reach(via):
                continue
            if what == 'consts':
                try:
                    r = M[via].ffi.integer_const(name)
                except Exception as e:
                    r = type(e).__name__
                want = val if kind_ == 'int' else 'FFIError'
                if r != want:
                    bad.append('module %%d: integer_const(%%r) -> %%r, defining module %%d has %%r' %% (via, name, r, k, want))
            else:
                first = getattr(M[k].lib, name) if case.get('warm') else None     # the defining lib hands it out first
                try:
                    r = getattr(M[via].lib, name)
                except Exception as e:
                    bad.append('module %%d: lib.%%s raised %%s: %%s' %% (via, name, type(e).__name__, e))
                    continue
                own = getattr(M[k].lib, name)
                if first is not None and kind_ != 'int' and own is not first:
                    bad.append('module %%d: lib.%%s was rebuilt by a lookup through module %%d' %% (k, name, via))
                if kind_ == 'int':
                    if r != val or own != val:
                        bad.append('module %%d: lib.%%s == %%r, defining module %%d has %%r' %% (via, name, r, k, val))
                else:
                    if r is not own:
                        bad.append('module %%d: lib.%%s is not the function object of defining module %%d' %% (via, name, k))
                    if r() != val:
                        bad.append('module %%d: lib.%%s() -> %%r' %% (via, name, r()))
    if what != 'structs':
        for via in nodes:
            for name in 'abc':
                if not any((name, g) in defs for g in [via] + reach(via)):
                    try:
                        r = M[via].ffi.integer_const(name) if what == 'consts' else getattr(M[via].lib, name)
                        bad.append('module %%d: undefined name %%r found: %%r' %% (via, name, r))
                    except AttributeError:
                        pass
                    except Exception as e:
                        bad.append('module %%d: undefined name %%r raised %%s' %% (via, name, type(e).__name__))
for b in bad:
    print('VIOLATED:', b)
sys.exit(1 if bad else 0)
"""


def make_model_replay(chk, shape, sizes, what, fixed_kinds=None, warm=False):
    """real modules built from the model; if that does not show it, the fixed three-module scenario"""
    def replay(case):
        c = dict(case)
        c['shape'] = {str(k): v for k, v in shape.items()}
        c['what'] = what
        c['warm'] = warm
        c['sizes'] = {str(k): v for k, v in sizes.items()}
        path = chk.write_replay('model-' + what, MODEL_REPLAY % json.dumps(c))
        rc, out = common.run_replay(path, timeout=600)
        if common.replay_verdict(rc, out):
            return True, path
        if fixed_kinds:
            path2 = chk.write_replay('include', REPLAY % json.dumps({'kinds': fixed_kinds}))
            rc, out = common.run_replay(path2, timeout=300)
            if common.replay_verdict(rc, out):
                return True, path2
        return False, path
    return replay


TAGS = [
    hutil.Tag('enum_type_copied_in_generated_module',
              lambda c: c.get('decl_kind') == 'enum',
              lambda inputs: True),
]


def make_replay(chk, kinds=None):
    def replay(case):
        path = chk.write_replay('include', REPLAY % json.dumps({'kinds': kinds}))
        rc, out = common.run_replay(path, timeout=300)
        return common.replay_verdict(rc, out), path
    return replay


def install_ffierror(ex):
    obj = ex.mem.alloc(64, 'exc:FFIError', 'pyobj', fill=0)
    ex.mem.store(obj.base, 1 << 32, 8)
    ex.mem.store(ex.gaddr('FFIError'), obj.base, 8)


def reach(shape, k=0):
    """nodes reachable from k (excluding k), each once"""
    out = []
    for c in shape.get(k, []):
        for n in [c] + reach(shape, c):
            if n not in out:
                out.append(n)
    return out


def gsizes(shape):
    """global tables: the asked module lists one name of its own, the others two (names are not re-listed by includers)"""
    return dict((k, 1 if k == 0 else 2) for k in [0] + reach(shape))


def sym_utf8(ex, s):
    """PyUnicode_AsUTF8 for model strs whose content is symbolic ASCII"""
    p = pystubs.py(ex)
    kind, cps = p.read_unicode(simp(s))
    r = ex.mem.alloc(len(cps) + 1, 'utf8 text', 'pyobj', fill=0)
    for k, c in enumerate(cps):
        ex.mem.store(r.base + k, c, 1)
    return r.base


class Dag(object):
    """FFI (and Lib) objects of an include graph, with symbolic tables, laid out in llsym memory"""

    def __init__(self, ex, py, mod, shape, what, sizes):
        self.ex, self.py, self.shape, self.what, self.n = ex, py, shape, what, sizes
        mem = ex.mem
        FF = mod.struct_layout(('named', 'struct.FFIObject_s'))
        self.tb_off = FF[0][6]
        bl = mod.struct_layout(('named', 'struct.builder_c_t'))
        ctxl = mod.struct_layout(('named', 'struct._cffi_type_context_s'))[0]
        sul = mod.struct_layout(('named', 'struct._cffi_struct_union_s'))
        gl = mod.struct_layout(('named', 'struct._cffi_global_s'))
        LL = mod.struct_layout(('named', 'struct.LibObject_s'))
        sys.path.insert(0, os.path.join(common.REPO, 'src'))
        from cffi import cffi_opcode
        self.op = cffi_opcode
        self.nodes = sorted(set([0] + reach(shape)))
        self.ffi, self.lib, self.name, self.flags, self.types, self.opk = {}, {}, {}, {}, {}, {}
        self.bl, self.ctxl, self.sul, self.gl, self.LL = bl, ctxl, sul, gl, LL
        for k in self.nodes:
            f = py.new_obj('ffi', 'FFI_Type', FF[1] + 16)
            self.ffi[k] = f
            b = f + self.tb_off
            NENT = sizes[k]
            types = mem.alloc(8 * NENT, 'types[%d]' % k, 'heap', fill=0)
            self.types[k] = types
            mem.store(b + bl[0][0] + ctxl[0], types.base, 8)
            mem.store(b + bl[0][0] + ctxl[11], NENT, 4)
            mem.store(b + bl[0][1], py.new_opaque('dict', 'PyDict_Type', items=[]), 8)     # types_dict
            for j in range(NENT):
                c = z3.BitVec('name_%d_%d' % (k, j), 8)
                ex.assume(z3.Or(*[c == ord(ch) for ch in NAMES]))
                nm = mem.alloc(2, 'name[%d][%d]' % (k, j), 'heap', fill=0)
                mem.store(nm.base, c, 1)
                self.name[k, j] = (c, nm.base)
            for j in range(NENT - 1):
                ex.assume(z3.ULT(self.name[k, j][0], self.name[k, j + 1][0]))          # sorted, no duplicates
            if what == 'structs':
                su = mem.alloc(sul[1] * NENT, 'struct_unions[%d]' % k, 'heap', fill=0)
                for j in range(NENT):
                    fl = z3.BitVec('flags_%d_%d' % (k, j), 32)
                    ex.assume((fl & ~(F_UNION | F_EXTERNAL | F_OPAQUE)) == 0)
                    self.flags[k, j] = fl
                    e = su.base + sul[1] * j
                    mem.store(e + sul[0][0], self.name[k, j][1], 8)
                    mem.store(e + sul[0][1], j, 4)                 # type_index
                    mem.store(e + sul[0][2], fl, 4)
                    mem.store(e + sul[0][3], 8, 8)                 # size
                    mem.store(e + sul[0][4], 4, 4)                 # alignment
                    mem.store(e + sul[0][5], z3.If((fl & (F_EXTERNAL | F_OPAQUE)) != 0, z3.BitVecVal(mask(32), 32), z3.BitVecVal(0, 32)), 4)
                    mem.store(e + sul[0][6], 0, 4)
                    mem.store(types.base + 8 * j, cffi_opcode.OP_STRUCT_UNION | (j << 8), 8)
                mem.store(b + bl[0][0] + ctxl[3], su.base, 8)
                mem.store(b + bl[0][0] + ctxl[7], NENT, 4)
            else:
                gs = mem.alloc(gl[1] * NENT, 'globals[%d]' % k, 'heap', fill=0)
                for j in range(NENT):
                    isint = z3.Bool('is_int_constant_%d_%d' % (k, j))
                    self.opk[k, j] = isint
                    e = gs.base + gl[1] * j
                    mem.store(e + gl[0][0], self.name[k, j][1], 8)
                    mem.store(e + gl[0][1], 0x5000 + 16 * (4 * k + j), 8)
                    # an integer constant / enum value, or something that is not (a function here)
                    mem.store(e + gl[0][2], z3.If(isint, z3.BitVecVal(cffi_opcode.OP_CONSTANT_INT, 64),
                                                  z3.BitVecVal(cffi_opcode.OP_CPYTHON_BLTN_O | (j << 8), 64)), 8)
                    mem.store(e + gl[0][3], 0, 8)
                mem.store(b + bl[0][0] + ctxl[1], gs.base, 8)
                mem.store(b + bl[0][0] + ctxl[6], NENT, 4)
        for k in self.nodes:
            inc = shape.get(k, [])
            b = self.ffi[k] + self.tb_off
            if inc:
                mem.store(b + bl[0][2], py.new_tuple([self.ffi[c] for c in inc]), 8)
        if what == 'libattr':
            for k in self.nodes:
                lb = py.new_obj('lib', 'Lib_Type', LL[1] + 16)
                self.lib[k] = lb
                mem.store(lb + LL[0][1], self.ffi[k] + self.tb_off, 8)        # l_types_builder
                mem.store(lb + LL[0][2], py.new_opaque('dict', 'PyDict_Type', items=[]), 8)   # l_dict
                mem.store(lb + LL[0][3], py.new_unicode([ord('m'), ord('0') + k], 1), 8)       # l_libname
                mem.store(lb + LL[0][4], self.ffi[k], 8)                       # l_ffi
            for k in self.nodes:
                inc = shape.get(k, [])
                if inc:
                    mem.store(self.ffi[k] + self.tb_off + bl[0][3], py.new_tuple([self.lib[c] for c in inc]), 8)

    def builder(self, k):
        return self.ffi[k] + self.tb_off

    def slot(self, k, j):
        return simp(self.ex.mem.load(self.types[k].base + 8 * j, 8))

    # --- the representation invariant established by Parser.include + Recompiler -----------------
    def assume_structs_invariant(self):
        ex = self.ex
        U = lambda f: (f & F_UNION) != 0
        E = lambda f: (f & F_EXTERNAL) != 0
        # closure: an includer lists every aggregate of each included module, as external, same kind
        for k in self.nodes:
            for g in self.shape.get(k, []):
                for j in range(self.n[g]):
                    ex.assume(z3.Or(*[z3.And(self.name[k, i][0] == self.name[g, j][0], U(self.flags[k, i]) == U(self.flags[g, j]),
                                             E(self.flags[k, i])) for i in range(self.n[k])]))
        # an includer knows at least what its includes know: opaque in the includer => opaque in the included module
        O = lambda f: (f & F_OPAQUE) != 0
        for k in self.nodes:
            for g in self.shape.get(k, []):
                for i in range(self.n[k]):
                    for j in range(self.n[g]):
                        ex.assume(z3.Implies(z3.And(self.name[k, i][0] == self.name[g, j][0], O(self.flags[k, i])), O(self.flags[g, j])))
        # below the asked FFI, an external entry stands for an aggregate that some module further down defines
        for k in self.nodes:
            if k == 0:
                continue
            below = reach(self.shape, k)
            for i in range(self.n[k]):
                ex.assume(z3.Implies(E(self.flags[k, i]),
                                     z3.Or(False, *[z3.And(self.name[g, j][0] == self.name[k, i][0], z3.Not(E(self.flags[g, j])),
                                                           U(self.flags[g, j]) == U(self.flags[k, i]))
                                                    for g in below for j in range(self.n[g])])))
        # one defining module per aggregate name in the whole graph
        ents = [(k, j) for k in self.nodes for j in range(self.n[k])]
        for a in range(len(ents)):
            for b in range(a + 1, len(ents)):
                (k, i), (g, j) = ents[a], ents[b]
                if k != g:
                    ex.assume(z3.Not(z3.And(self.name[k, i][0] == self.name[g, j][0],
                                            z3.Not(E(self.flags[k, i])), z3.Not(E(self.flags[g, j])))))

    def assume_globals_invariant(self):
        # nothing beyond sorted tables: included modules' functions, variables and constants are not re-listed by the
        # includer (Parser.include copies types only), and a module may shadow a name of a module it includes
        pass

    def inputs(self):
        d = {}
        for (k, j), (c, _) in self.name.items():
            d['name_%d_%d' % (k, j)] = c
        for (k, j), f in self.flags.items():
            d['flags_%d_%d' % (k, j)] = f
        for (k, j), f in self.opk.items():
            d['is_int_constant_%d_%d' % (k, j)] = z3.If(f, z3.BitVecVal(1, 8), z3.BitVecVal(0, 8))
        return d


def structs_worker(args):
    prop, tier, kind, shape_name, q, order = args
    chk = hutil.sub_check(prop, tier)
    mod = irgen.backend()
    L = pystubs.CffiLayout(mod)
    CF = L.flags
    shape, sizes = SHAPES[shape_name], SIZES[shape_name]
    label = 'dag:structs:%s:entry%d:%s' % (shape_name, q, order)
    replay = make_model_replay(chk, shape, sizes, 'structs', ['struct', 'union'])
    ex = llsym.Executor(mod, pystubs.stubs(), loop_bound=16, max_depth=130)

    def h(ex):
        py = pystubs.PyEnv(ex)
        install_ffierror(ex)
        dag = Dag(ex, py, mod, shape, 'structs', sizes)
        dag.assume_structs_invariant()
        rootf = dag.flags[0, q]
        ex.assume((rootf & F_EXTERNAL) != 0)
        nm = dag.name[0, q][0]
        created = []

        def new_su(e, name, flags):
            text = None          # the realized name is symbolic here (its rule: C11 'names')
            a = pystubs.new_ctype(e, L, mask(64), bv(simp(flags), 32), name=b'struct ?')
            e.mem.store(a, 1, 8)          # a new reference
            created.append((a, text, simp(flags)))
            return a
        ex.stubs['new_struct_or_union_type'] = new_su
        inputs = dag.inputs()
        D = lambda n, c: hutil.discharge(chk, ex, label + ':' + n, c, inputs, replay=replay)
        # which entry of which reachable module defines the aggregate?
        definer = None
        for k in reach(shape):
            for j in range(sizes[k]):
                f = dag.flags[k, j]
                if ex.decide(z3.And(dag.name[k, j][0] == nm, (f & F_EXTERNAL) == 0, (f & F_UNION) == (rootf & F_UNION))):
                    definer = (k, j)
                    break
            if definer:
                break
        y = None
        if definer and order == 'definer-first':
            y = simp(ex.call('_realize_c_struct_or_union', [dag.builder(definer[0]), definer[1]]))
        slot0 = dag.slot(0, q)
        x = simp(ex.call('_realize_c_struct_or_union', [dag.builder(0), q]))
        if definer is None:
            hutil.witness(chk, ex, label + ':no-definer')
            D('no-definer=>error', is_c(x) and x == 0)
            D('no-definer=>FFIError', py.exc == 'FFIError')
            D('no-definer=>nothing-created', not created)
            D('no-definer=>slot-unchanged', dag.slot(0, q) == slot0)
            return
        k, j = definer
        df = dag.flags[k, j]
        mismatch = z3.And((df & F_OPAQUE) != 0, (rootf & F_OPAQUE) == 0)
        if ex.decide(mismatch):
            hutil.witness(chk, ex, label + ':opaque-in-included-complete-in-includer')
            D('opaque-mismatch=>refused', is_c(x) and x == 0 and py.exc == 'PyExc_NotImplementedError')
            D('opaque-mismatch=>slot-unchanged', dag.slot(0, q) == slot0)
            return
        hutil.witness(chk, ex, label + ':shared')
        okx = is_c(x) and x != 0 and py.exc is None
        D('definer-reachable=>found', okx)
        if not okx:
            return
        if y is None:
            y = simp(ex.call('_realize_c_struct_or_union', [dag.builder(k), j]))
        D('same-ctype-object-as-the-defining-ffi', is_c(y) and x == y)
        D('exactly-one-ctype-created', len(created) == 1)
        if len(created) == 1:
            a, text, fl = created[0]
            fl = bv(fl, 32)
            D('created-by-the-defining-module-with-its-kind',
              z3.If((df & F_UNION) != 0, (fl & CF['CT_UNION']) != 0, (fl & CF['CT_STRUCT']) != 0))
            D('opaque-iff-opaque-in-defining-module', ((df & F_OPAQUE) != 0) == ((fl & CF['CT_IS_OPAQUE']) != 0))
        D('cached-in-includer-slot', dag.slot(0, q) == x)
        D('cached-in-definer-slot', dag.slot(k, j) == x)
        # one reference per slot plus the two handed back
        rc = ex.mem.load(x, 8)
        D('references-held-for-both-slots-and-both-results', z3.UGE(bv(rc, 64), 4))
        # asking again gives the same object
        x2 = simp(ex.call('_realize_c_struct_or_union', [dag.builder(0), q]))
        D('second-lookup-same-object', is_c(x2) and x2 == x)

    res = ex.explore(h, max_paths=6000)
    hutil.finish_explore(chk, ex, res, label)
    if not chk.witnesses:
        chk.inconc(label + ': no path reached an obligation (assumptions unsatisfiable?)')
    chk.functions = irgen.func_info(mod, sorted(ex.called))
    return hutil.export(chk)


def consts_worker(args):
    prop, tier, kind, shape_name = args
    chk = hutil.sub_check(prop, tier)
    mod = irgen.backend()
    shape = SHAPES[shape_name]
    sizes = gsizes(shape)
    label = 'dag:consts:%s' % shape_name
    replay = make_model_replay(chk, shape, sizes, 'consts', ['const'])
    ex = llsym.Executor(mod, pystubs.stubs(), loop_bound=16, max_depth=130)

    def h(ex):
        py = pystubs.PyEnv(ex)
        install_ffierror(ex)
        dag = Dag(ex, py, mod, shape, 'consts', sizes)
        dag.assume_globals_invariant()
        made = []

        def rgi(e, builder, index):
            o = py.new_int(0x100 + len(made))
            made.append((o, simp(builder), simp(index)))
            e.mem.store(o, 1, 8)
            return o
        ex.stubs['realize_global_int'] = rgi
        s = z3.BitVec('searched_name', 8)
        ex.assume(z3.Or(*[s == ord(ch) for ch in NAMES]))
        nm = ex.mem.alloc(2, 'searched name', 'heap', fill=0)
        ex.mem.store(nm.base, s, 1)
        inputs = dag.inputs()
        inputs['searched_name'] = s
        D = lambda n, c: hutil.discharge(chk, ex, label + ':' + n, c, inputs, replay=replay)
        where = None
        for k in [0] + reach(shape):
            for j in range(sizes[k]):
                if ex.decide(dag.name[k, j][0] == s):
                    where = (k, j)
                    break
            if where:
                break
        x = simp(ex.call('ffi_fetch_int_constant', [dag.ffi[0], nm.base, 0]))
        if where is None:
            hutil.witness(chk, ex, label + ':undefined')
            D('undefined=>not-found-without-error', is_c(x) and x == 0 and py.exc is None)
            D('undefined=>nothing-realized', not made)
            return
        k, j = where
        if ex.decide(dag.opk[k, j]):
            hutil.witness(chk, ex, label + ':int-constant-in-module-%d' % k)
            okx = is_c(x) and x != 0 and py.exc is None
            D('defined-below=>visible', okx)
            D('value-is-the-defining-modules-own', len(made) == 1 and made[0] == (x, dag.builder(k), j))
        else:
            hutil.witness(chk, ex, label + ':not-an-integer')
            D('non-integer=>FFIError', is_c(x) and x == 0 and py.exc == 'FFIError')

    res = ex.explore(h, max_paths=6000)
    hutil.finish_explore(chk, ex, res, label)
    if not chk.witnesses:
        chk.inconc(label + ': no path reached an obligation (assumptions unsatisfiable?)')
    chk.functions = irgen.func_info(mod, sorted(ex.called))
    return hutil.export(chk)


def libattr_worker(args):
    prop, tier, kind, shape_name, warm = args
    chk = hutil.sub_check(prop, tier)
    mod = irgen.backend()
    shape = SHAPES[shape_name]
    sizes = gsizes(shape)
    label = 'dag:libattr:%s:%s' % (shape_name, 'cached-below' if warm else 'cold')
    replay = make_model_replay(chk, shape, sizes, 'libattr', warm=warm)
    ex = llsym.Executor(mod, pystubs.stubs(), loop_bound=16, max_depth=130)

    def h(ex):
        py = pystubs.PyEnv(ex)
        install_ffierror(ex)
        dag = Dag(ex, py, mod, shape, 'libattr', sizes)
        dag.assume_globals_invariant()
        made = []

        def rgi(e, builder, index):
            o = py.new_int(0x100 + len(made))
            e.mem.store(o, 1, 8)
            made.append((o, simp(builder), simp(index), 'int'))
            return o

        def bfn(e, lib, g, s, flags):
            o = py.new_opaque('builtin-function')
            e.mem.store(o, 1, 8)
            made.append((o, simp(lib), simp(g), 'func'))
            return o
        def setitem(e, d_, k_, v_):
            # the abstract dict of pystubs does not count references; here the count of the shared object matters
            r = pystubs.PyDict_SetItem(e, d_, k_, v_)
            e.mem.store(simp(v_), bv(e.mem.load(simp(v_), 8), 64) + 1, 8)
            return r
        ex.stubs.update({'realize_global_int': rgi, 'lib_build_cpython_func': bfn, 'PyUnicode_AsUTF8': sym_utf8,
                         'PyDict_SetItem': setitem})
        s = z3.BitVec('attribute_name', 8)
        ex.assume(z3.Or(*[s == ord(ch) for ch in NAMES]))
        name = py.new_unicode([s], (1, 'ascii'))
        inputs = dag.inputs()
        inputs['attribute_name'] = s
        D = lambda n, c: hutil.discharge(chk, ex, label + ':' + n, c, inputs, replay=replay)
        where = None
        for k in [0] + reach(shape):
            for j in range(sizes[k]):
                if ex.decide(dag.name[k, j][0] == s):
                    where = (k, j)
                    break
            if where:
                break
        pre = None
        if warm and where is not None and where[0] != 0:
            # the included lib has already handed the attribute out
            pre = simp(ex.call('lib_build_and_cache_attr', [dag.lib[where[0]], name, 0]))
            if not (is_c(pre) and pre != 0):
                D('defining-lib-builds-its-own-attribute', False)
                return
        n_before = len(made)
        x = simp(ex.call('lib_build_and_cache_attr', [dag.lib[0], name, 0]))
        if where is None:
            hutil.witness(chk, ex, label + ':undefined')
            D('undefined=>AttributeError', is_c(x) and x == 0 and py.exc == 'PyExc_AttributeError')
            return
        k, j = where
        hutil.witness(chk, ex, label + ':defined-in-module-%d' % k)
        okx = is_c(x) and x != 0 and py.exc is None
        D('defined-below=>reachable-through-including-lib', okx)
        if not okx:
            return
        gaddr = simp(ex.mem.load(dag.builder(k) + dag.bl[0][0] + dag.ctxl[1], 8)) + dag.gl[1] * j
        if pre is not None:
            D('the-included-libs-own-object', x == pre)
            D('nothing-built-twice', len(made) == n_before)
        else:
            okm = len(made) == 1
            D('built-once', okm)
            if okm:
                o, a1, a2, what_ = made[0]
                if what_ == 'int':
                    D('built-by-the-defining-module', (o, a1, a2) == (x, dag.builder(k), j))
                else:
                    D('built-by-the-defining-module', (o, a1, a2) == (x, dag.lib[k], gaddr))
        # cached in the including lib and in the defining lib: the same object
        def cached(lib):
            d = simp(ex.mem.load(lib + dag.LL[0][2], 8))
            for it in py.info(d).get('items', []):
                if it[0] == name or pystubs._same_key(ex, it[0], name):
                    return it[1]
            return 0
        D('cached-in-including-lib', cached(dag.lib[0]) == x)
        if k != 0:
            D('cached-in-defining-lib-same-object', cached(dag.lib[k]) == x)
        y = simp(ex.call('lib_build_and_cache_attr', [dag.lib[k], name, 0])) if cached(dag.lib[k]) == 0 else cached(dag.lib[k])
        D('same-object-as-through-the-defining-lib', y == x)
        holders = 1 + (1 if k != 0 else 0)
        D('one-reference-per-lib-that-caches-it', z3.UGE(bv(ex.mem.load(x, 8), 64), holders))

    res = ex.explore(h, max_paths=6000)
    hutil.finish_explore(chk, ex, res, label)
    if not chk.witnesses:
        chk.inconc(label + ': no path reached an obligation (assumptions unsatisfiable?)')
    chk.functions = irgen.func_info(mod, sorted(ex.called))
    return hutil.export(chk)


def enums_worker(args):
    """enum types have no delegation: the includer's own table entry (the Recompiler re-emits the enums of included
    FFIs) is realized into a ctype of its own"""
    prop, tier, kind, shape_name = args
    chk = hutil.sub_check(prop, tier)
    mod = irgen.backend()
    L = pystubs.CffiLayout(mod)
    shape = SHAPES[shape_name]
    label = 'dag:enums:%s' % shape_name
    replay = make_replay(chk, ['enum'])
    el = mod.struct_layout(('named', 'struct._cffi_enum_s'))
    bl = mod.struct_layout(('named', 'struct.builder_c_t'))
    ctxl = mod.struct_layout(('named', 'struct._cffi_type_context_s'))[0]
    FF = mod.struct_layout(('named', 'struct.FFIObject_s'))
    tb_off = FF[0][6]
    sys.path.insert(0, os.path.join(common.REPO, 'src'))
    from cffi import cffi_opcode
    ex = llsym.Executor(mod, pystubs.stubs(), loop_bound=16, max_depth=130)

    def h(ex):
        py = pystubs.PyEnv(ex)
        install_ffierror(ex)
        mem = ex.mem
        nodes = [0] + reach(shape)
        ffi, types, names = {}, {}, {}
        empty = mem.alloc(1, 'no enumerators', 'heap', fill=0)
        for k in nodes:
            f = py.new_obj('ffi', 'FFI_Type', FF[1] + 16)
            ffi[k] = f
            b = f + tb_off
            types[k] = mem.alloc(8, 'types[%d]' % k, 'heap', fill=0)
            mem.store(types[k].base, cffi_opcode.OP_ENUM | (0 << 8), 8)
            c = z3.BitVec('enum_name_%d' % k, 8)
            ex.assume(z3.Or(*[c == ord(ch) for ch in NAMES]))
            nm = mem.alloc(2, 'enum name[%d]' % k, 'heap', fill=0)
            mem.store(nm.base, c, 1)
            names[k] = c
            e = mem.alloc(el[1], 'enums[%d]' % k, 'heap', fill=0)
            mem.store(e.base + el[0][0], nm.base, 8)
            mem.store(e.base + el[0][1], 0, 4)
            mem.store(e.base + el[0][2], cffi_opcode.PRIM_UINT, 4)
            mem.store(e.base + el[0][3], empty.base, 8)
            mem.store(b + bl[0][0] + ctxl[0], types[k].base, 8)
            mem.store(b + bl[0][0] + ctxl[4], e.base, 8)
            mem.store(b + bl[0][0] + ctxl[8], 1, 4)
            mem.store(b + bl[0][0] + ctxl[11], 1, 4)
            mem.store(b + bl[0][1], py.new_opaque('dict', 'PyDict_Type', items=[]), 8)
        for k in nodes:
            inc = shape.get(k, [])
            if inc:
                mem.store(ffi[k] + tb_off + bl[0][2], py.new_tuple([ffi[c] for c in inc]), 8)
                for g in inc:
                    ex.assume(names[k] == names[g])          # the Recompiler re-emits the enums of included FFIs
        created = []

        def new_enum(e_, self_, args_):
            a = pystubs.new_ctype(e_, L, 4, L.flags['CT_PRIMITIVE_UNSIGNED'] | L.flags['CT_IS_ENUM'], name=b'enum ?')
            e_.mem.store(a, 1, 8)
            created.append(a)
            return a
        prim = pystubs.new_ctype(ex, L, 4, L.flags['CT_PRIMITIVE_UNSIGNED'], name=b'unsigned int')
        ex.stubs.update({'b_new_enum_type': new_enum, 'build_primitive_type': lambda e_, n_: prim,
                         'Py_BuildValue': lambda e_, fmt, *a: py.new_opaque('args-tuple'),
                         '_Py_BuildValue_SizeT': lambda e_, fmt, *a: py.new_opaque('args-tuple')})
        inputs = dict(('enum_name_%d' % k, names[k]) for k in nodes)
        leaf = reach(shape)[-1]
        D = lambda n, c: hutil.discharge(chk, ex, label + ':' + n, c, inputs, tags=TAGS, replay=replay, extra_case={'decl_kind': 'enum'})
        y = simp(ex.call('realize_c_type_or_func', [ffi[leaf] + tb_off, types[leaf].base, 0]))
        x = simp(ex.call('realize_c_type_or_func', [ffi[0] + tb_off, types[0].base, 0]))
        hutil.witness(chk, ex, label + ':realized')
        okk = is_c(x) and is_c(y) and x != 0 and y != 0 and py.exc is None
        hutil.discharge(chk, ex, label + ':enum-visible-through-includer', okk, inputs, replay=replay)
        if okk:
            D('same-ctype-object-as-the-defining-ffi', x == y)

    res = ex.explore(h, max_paths=2000)
    hutil.finish_explore(chk, ex, res, label)
    if not chk.witnesses:
        chk.inconc(label + ': no path reached an obligation (assumptions unsatisfiable?)')
    chk.functions = irgen.func_info(mod, sorted(ex.called))
    return hutil.export(chk)


class ADict(object):
    """association list standing in for the declaration dict (keys are symbolic strings: no hashing)"""

    def __init__(self, items=()):
        self._items = [list(it) for it in items]

    def _find(self, k):
        for it in self._items:
            if it[0] is k or bool(it[0] == k):
                return it
        return None

    def __contains__(self, k):
        return self._find(k) is not None

    def __getitem__(self, k):
        it = self._find(k)
        if it is None:
            raise KeyError(k)
        return it[1]

    def __setitem__(self, k, v):
        it = self._find(k)
        if it is None:
            self._items.append([k, v])
        else:
            it[1] = v

    def get(self, k, default=None):
        it = self._find(k)
        return default if it is None else it[1]

    def items(self):
        return [tuple(it) for it in self._items]

    def __len__(self):
        return len(self._items)


def pyinclude_worker(args):
    """FFI.include -> Parser.include on a declaration whose key 'kind name' is a symbolic string"""
    prop, tier, kind, L = args
    chk = hutil.sub_check(prop, tier)
    sys.path.insert(0, os.path.join(common.REPO, 'src'))
    from vf import symstr
    from cffi import cparser, model
    label = 'py:include:key-length-%d' % L
    ex = pysym.PyExplorer()
    KINDS = ('typedef', 'struct', 'union', 'enum', 'anonymous')
    ALPHA = [ord(c) for c in ' $_abcdefghijklmnopqrstuvwxyz0']

    def h(ex):
        name = symstr.SymStr.fresh(ex, 'key', L)
        for c in name.chars:
            ex.add_definition(z3.Or(*[c == v for v in ALPHA]))
        # '__dotdotdot__' is a reserved word of the parser (asserted by _declare)
        for i in range(0, L - 12):
            ex.add_definition(z3.Not(name._match_at(i, [ord(ch) for ch in '__dotdotdot__'])))
        other, me = cparser.Parser(), cparser.Parser()
        tp = model.StructType('s', None, None, None)
        other._declarations = ADict([(name, (tp, 0))])
        me._declarations = ADict()
        other._int_constants = {'K': 42}
        me.include(other)
        inputs = dict(('key[%d]' % i, c) for i, c in enumerate(name.chars))
        got = None
        for k_, v_ in me._declarations.items():
            if k_ is name:
                got = v_
        # the statement: declarations of these kinds are shared
        is_shared_kind = z3.Or(*[name._match_at(0, [ord(ch) for ch in k + ' ']) for k in KINDS if len(k) + 1 <= L] + [z3.BoolVal(False)])
        anon_enum = name._match_at(0, [ord(ch) for ch in 'anonymous $enum_$']) if L >= 17 else False
        must = z3.And(is_shared_kind, z3.Not(anon_enum)) if anon_enum is not False else is_shared_kind
        if got is None:
            hutil.witness(chk, ex, label + ':not-copied')
            hutil.discharge(chk, ex, label + ':type-declaration=>shared', z3.Not(must), inputs, replay=make_replay(chk, ['struct', 'union', 'typedef']))
        else:
            hutil.witness(chk, ex, label + ':shared')
            hutil.discharge(chk, ex, label + ':same-model-object', got[0] is tp and got[1] == 0, inputs, replay=make_replay(chk, ['struct', 'union', 'typedef']))
            hutil.discharge(chk, ex, label + ':marked-as-included', tp in me._included_declarations, inputs, replay=make_replay(chk, ['struct', 'union', 'typedef']))
        hutil.discharge(chk, ex, label + ':integer-constants-visible', me._int_constants.get('K') == 42, inputs)

    res = ex.explore(h, max_paths=20000)
    hutil.finish_explore(chk, ex, res, label)
    if not chk.witnesses:
        chk.inconc(label + ': no path reached an obligation')
    chk.functions = [{'name': n, 'file': 'src/cffi/cparser.py'} for n in ('Parser.include', 'Parser._declare', 'Parser._add_constants')]
    return hutil.export(chk)


def inv_leaf_cdef(k):
    """what a module without includes declares (every name carries the node number: several leaves may meet in one includer)"""
    return ("struct base%(k)d { int a; long b; }; union ub%(k)d { int x; char y; }; struct opq%(k)d; typedef struct opq%(k)d *opq%(k)d_p; "
            "typedef struct { int q; } anon%(k)d_t; typedef struct { short z; } *named%(k)d_p; enum e%(k)d { EA%(k)d = 3, EB%(k)d };\n"
            "#define K%(k)d 42\n") % {'k': k}


def inv_mid_cdef(k, leaf):
    """what an including module adds, using declarations of a leaf below it"""
    return ("struct own%(k)d { struct base%(l)d s; union ub%(l)d u; opq%(l)d_p o; anon%(l)d_t a; named%(l)d_p q; }; "
            "typedef struct own%(k)d own%(k)d_t; union uown%(k)d { struct base%(l)d b; int i; };") % {'k': k, 'l': leaf}


def invariant_worker(args):
    """validation of the representation invariant the dag:* cases assume, on the tables the working tree's Recompiler really
    produces for FFIs that include others (C and Python targets): an aggregate that comes from an included FFI -- directly or
    through a chain -- is listed as external, with the same kind/opaqueness and without fields; the module's own aggregates are
    not external; the tables are sorted; '_cffi_includes' names the included modules in order.  (Concrete run of the real
    generator over the include shapes; not a solver query.)"""
    prop, tier, kind, shape_name, target_py = args
    chk = hutil.sub_check(prop, tier)
    sys.path.insert(0, os.path.join(common.REPO, 'src'))
    import cffi
    from cffi import recompiler, model, cffi_opcode
    shape = SHAPES[shape_name]
    label = 'invariant:recompiler:%s:%s' % (shape_name, 'py' if target_py else 'c')
    nodes = [0] + reach(shape)
    order = sorted(nodes, key=lambda k: len(reach(shape, k)))
    F, own = {}, {}
    for k in order:
        f = cffi.FFI()
        for c in shape.get(k, []):
            f.include(F[c])
        before = set(f._parser._declarations)
        leaves = [n for n in reach(shape, k) if not shape.get(n)]
        f.cdef(inv_leaf_cdef(k) if not shape.get(k) else inv_mid_cdef(k, leaves[0]))
        own[k] = set(f._parser._declarations) - before
        f.set_source('_c34_inv_%d' % k, None if target_py else '/* */')
        F[k] = f
    replay = make_replay(chk, ['struct', 'union', 'typedef'])
    problems = []
    for k in order:
        r = recompiler.Recompiler(F[k], '_c34_inv_%d' % k, target_is_python=target_py)
        r.collect_type_table()
        r.collect_step_tables()
        entries = dict((e.name, e) for e in r._lsts['struct_union'])
        names = [e.name for e in r._lsts['struct_union']]
        if names != sorted(names):
            problems.append('module %d: struct/union table not sorted: %r' % (k, names))
        incl = F[k]._parser._included_declarations
        seen = 0
        for tp in r._struct_unions:
            e = entries.get(tp.name)
            if e is None:
                problems.append('module %d: %r has no table entry' % (k, tp))
                continue
            flags = eval(e.flags, dict(recompiler.G_FLAGS)) if isinstance(e.flags, str) else e.flags
            ext = bool(flags & cffi_opcode.F_EXTERNAL)
            # an anonymous struct behind 'typedef struct {...} *name_p' is declared through its named pointer type only
            from_include = tp in incl or any(isinstance(d, model.NamedPointerType) and d.totype is tp for d in incl)
            seen += from_include
            if ext != from_include:
                problems.append('module %d: %r: external flag %r but %s an included FFI' % (k, tp, ext, 'comes from' if from_include else 'does not come from'))
            if bool(flags & cffi_opcode.F_UNION) != isinstance(tp, model.UnionType):
                problems.append('module %d: %r: wrong union flag' % (k, tp))
            if bool(flags & cffi_opcode.F_OPAQUE) != (tp.fldnames is None):
                problems.append('module %d: %r: wrong opaque flag' % (k, tp))
            if from_include and (e.c_fields or e.first_field_index != -1):
                problems.append('module %d: %r: an external entry lists fields' % (k, tp))
            if not from_include and tp.fldnames and not e.c_fields:
                problems.append('module %d: %r: own aggregate without its fields' % (k, tp))
        if shape.get(k) and not seen:
            problems.append('module %d: no aggregate of its included FFIs is listed' % k)
        want_inc = [F[c]._assigned_source[0] for c in shape.get(k, [])]
        got_inc = [f_._assigned_source[0] for f_ in F[k]._included_ffis]
        if want_inc != got_inc:
            problems.append('module %d: includes %r, expected %r' % (k, got_inc, want_inc))
    hutil_name = label + ':tables-satisfy-the-assumed-invariant'
    chk.witness(label)
    if problems:
        chk.query(hutil_name, 'sat', 0.0, detail='; '.join(problems)[:300])
        try:
            ok, path = replay({})
        except Exception as e:
            ok, path = None, None
        chk.report_failure('%s: %s' % (label, '; '.join(problems)), {}, path, True if ok else None)
    else:
        chk.query(hutil_name, 'unsat', 0.0)
    chk.functions = [{'name': n, 'file': 'src/cffi/recompiler.py'} for n in ('Recompiler.collect_type_table', 'Recompiler.collect_step_tables', 'Recompiler._struct_ctx')]
    return hutil.export(chk)


def dispatch(args):
    global NAMES
    NAMES = 'abc' if args[1] == 'quick' else 'abcd'
    return {'structs': structs_worker, 'consts': consts_worker, 'libattr': libattr_worker, 'enums': enums_worker, 'pyinclude': pyinclude_worker, 'invariant': invariant_worker}[args[2]](args)


def run(chk):
    quick = chk.tier == 'quick'
    P = (chk.prop, chk.tier)
    shapes = QUICK_SHAPES if quick else sorted(SHAPES)
    cases = []
    for s in shapes:
        for q in range(SIZES[s][0]):
            for order in ('includer-first', 'definer-first'):
                cases.append(P + ('structs', s, q, order))
        cases.append(P + ('consts', s))
        if s in ('pair', 'chain3'):
            cases.append(P + ('enums', s))
        cases.append(P + ('libattr', s, False))
        cases.append(P + ('libattr', s, True))
    for s_ in shapes:
        for tpy in (False, True):
            cases.append(P + ('invariant', s_, tpy))
    for L in ((6, 8, 9, 12) if quick else (5, 6, 7, 8, 9, 10, 11, 12, 14, 18)):
        cases.append(P + ('pyinclude', L))
    global NAMES
    NAMES = 'abc' if quick else 'abcd'
    chk.bounds = {'include graphs': ', '.join('%s=%r' % (s, SHAPES[s]) for s in shapes),
                  'tables': '%s entries per module, one-letter names over %r, every flag combination of external/union/opaque; '
                            'every searched name; global tables: 1 entry in the asked module, 2 in the others' % ('; '.join('%s: %r' % (s, SIZES[s]) for s in shapes), NAMES)}
    chk.outside = ['the import-time wiring of generated modules (make_included_tuples / _cffi_init: exercised by the real replays only)',
                   'a tag used both as struct and as union in one graph (not valid C)',
                   'include graphs deeper than 4 modules or wider than 2 includes per module; tables of more than 2 entries',
                   'in-line (non-generated) FFIs: sharing goes through model objects and the backend type cache (compared in the replay only)',
                   'the 100-level recursion limit']
    chk.assume('tables satisfy the invariant Parser.include and the Recompiler establish: sorted names, includers re-list the '
               'aggregates of their includes as external, one defining module per name')
    irgen.backend()
    hutil.run_cases(chk, cases, dispatch)
