"""C29 -- callback closures stay distinct and bound to their own function.

History property decided by one inductive step from an arbitrary valid state (llsym on the real IR of
malloc_closure.h and b_callback / cdataowninggc_dealloc):

 State: a mapped chunk of M closure blocks; the free list (head pointer and every block's `next` field) and
 the set of live closures are *symbolic*.  Representation invariant INV: following `next` from free_list
 reaches NULL within M steps, every block on the way is a block of the chunk, and none of them is live.
 (In a functional graph a walk that reaches NULL cannot repeat a node: the free blocks are distinct.)

 (a) cffi_closure_alloc from any state satisfying INV with a non-empty list: the block returned was free
     (hence differs from every live closure), the new list is the old one minus that block, INV holds
     again, and no byte of any block is written (live closures keep their trampoline and user_data).
 (b) cffi_closure_free(p) for any live p: the list becomes p + old list, INV holds with p no longer live,
     only p's own first word is written.
 (c) empty list: more_core maps a new chunk (mmap stub: fresh region of exactly the requested size, or
     MAP_FAILED) for page sizes {4096, 16384, 65536, unknown} and successive growth steps; all blocks lie
     inside the mapping (bounds monitor), INV is established, the old chunk is untouched; MAP_FAILED makes
     alloc return NULL.
 (d) b_callback on top of any such state: the cdata's address is the allocated block, libffi is asked to
     bind that block to invoke_callback with this callback's own (ctype, function) tuple, other live
     blocks are not written; cdataowninggc_dealloc hands exactly that block back.
"""
import json
import z3
from vf import common, irgen, llsym, pystubs, hutil
from vf.llsym import bv, simp, mask, is_c

REPLAY = r'''
# Replay for C29 on the real build: directed and random create/drop/call histories crossing the closure
# page-growth boundaries and draining/refilling the free list.  Every live callback must keep its own address,
# the machine code libffi wrote into it, and its own Python function.  Runs in a child process so that
# a crash (jump through a clobbered trampoline) is reported as a violation.
import sys, subprocess
CHILD = r"""
import sys, gc, random
import cffi
ffi = cffi.FFI()
rnd = random.Random(%d)
live = {}
n = [0]
def create():
    n[0] += 1
    k = n[0]
    cb = ffi.callback('int(int)', lambda x, k=k: x + k)
    live[k] = (cb, bytes(ffi.buffer(ffi.cast('char *', cb), 16)))
def check(full=False):
    addrs = {}
    for k, (cb, code) in live.items():
        a = int(ffi.cast('uintptr_t', cb))
        if a in addrs: return 'callbacks %%d and %%d are both alive at %%#x' %% (addrs[a], k, a)
        addrs[a] = k
        if bytes(ffi.buffer(ffi.cast('char *', cb), 16)) != code:
            return 'closure of live callback %%d was overwritten' %% k
    ks = list(live) if full else rnd.sample(list(live), min(len(live), 5))
    for k in ks:
        if live[k][0](1000) != 1000 + k: return 'callback %%d invoked another function' %% k
    return None
def run():
    for i in range(3): create()
    for step in range(400):                         # +1 per round with a drop right after each create:
        create()                                    # a drop happens at every moment the free list is empty
        e = check()
        if e: return e
        del live[rnd.choice(sorted(live)[:-1])]
        e = check()
        if e: return e
        create()
    for k in list(live)[:-1]: del live[k]
    for phase in range(4):
        for i in range(200):                       # fill: crosses several page-growth boundaries
            create()
            if i %% 16 == 0:
                e = check()
                if e: return e
        e = check(True)
        if e: return e
        for k in list(live)[::2]: del live[k]       # drop every other one
        gc.collect()
        e = check(True)
        if e: return e
        for k in list(live)[:-1]: del live[k]       # drain to a single live callback, then refill
        for i in range(120):
            create()
            e = check()
            if e: return e
    for step in range(3000):                        # random tail
        op = rnd.random()
        if op < 0.5 or len(live) < 2: create()
        else: del live[rnd.choice(list(live)[:-1])]
        if step %% 8 == 0:
            e = check()
            if e: return e
    return check(True)
e = run()
if e: print('VIOLATED:', e); sys.exit(1)
sys.exit(0)
"""
r = subprocess.run([sys.executable, '-c', CHILD], stdout=subprocess.PIPE, stderr=subprocess.STDOUT)
out = r.stdout.decode('utf-8', 'replace')
if r.returncode < 0:
    print('VIOLATED: the process died with signal %%d during the callback history' %% -r.returncode); sys.exit(1)
print(out[-2000:])
sys.exit(1 if (r.returncode == 1 and 'VIOLATED' in out) else (0 if r.returncode == 0 else 3))
'''


def make_replay(chk):
    def replay(case):
        path = chk.write_replay('history', REPLAY % 12345)
        rc, out = common.run_replay(path, timeout=600)
        return common.replay_verdict(rc, out), path
    return replay


class Heap(object):
    """M blocks in one chunk, symbolic free list and live set"""

    def __init__(self, ex, mod, M):
        self.ex, self.M = ex, M
        self.bs = mod.struct_layout(('named', 'union.mmapped_block'))[1]
        self.chunk = ex.mem.alloc(M * self.bs, 'mmap chunk', 'heap')
        self.addr = [self.chunk.base + i * self.bs for i in range(M)]
        self.live = [z3.Bool('live%d' % i) for i in range(M)]
        self.head = z3.BitVec('free_list', 64)
        self.nxt = [z3.BitVec('next%d' % i, 64) for i in range(M)]
        self.content = []
        for i in range(M):
            ex.mem.store(self.addr[i], self.nxt[i], 8)
            rest = z3.BitVec('block%d_rest' % i, 8 * (self.bs - 8))
            ex.mem.store(self.addr[i] + 8, rest, self.bs - 8)
            self.content.append(z3.Concat(rest, self.nxt[i]))
        ex.mem.store(ex.gaddr('free_list'), self.head, 8)

    def is_block(self, p):
        return z3.Or(*[p == a for a in self.addr])

    def live_at(self, p, live):
        return z3.Or(*[z3.And(p == a, l) for a, l in zip(self.addr, live)])

    def next_of(self, p, nxt):
        r = z3.BitVecVal(0, 64)
        for a, n in zip(self.addr, nxt):
            r = z3.If(p == a, bv(n, 64), r)
        return r

    def walk(self, head, nxt):
        ps = [bv(head, 64)]
        for k in range(self.M):
            ps.append(z3.If(ps[-1] == 0, z3.BitVecVal(0, 64), self.next_of(ps[-1], nxt)))
        return ps

    def inv(self, head, nxt, live):
        ps = self.walk(head, nxt)
        c = [ps[-1] == 0]
        for p in ps[:-1]:
            c.append(z3.Or(p == 0, z3.And(self.is_block(p), z3.Not(self.live_at(p, live)))))
        return z3.And(*c)

    def in_free(self, b, head, nxt):
        return z3.Or(*[p == b for p in self.walk(head, nxt)[:-1]])

    def now(self):
        ex = self.ex
        head = bv(ex.mem.load(ex.gaddr('free_list'), 8), 64)
        nxt = [bv(ex.mem.load(a, 8), 64) for a in self.addr]
        return head, nxt

    def block_bytes(self, i):
        return bv(self.ex.mem.load(self.addr[i], self.bs), 8 * self.bs)

    def inputs(self):
        d = {'free_list': self.head}
        for i in range(self.M):
            d['next%d' % i] = self.nxt[i]
            d['live%d' % i] = self.live[i]
        return d


def step_worker(args):
    prop, tier, kind, M = args
    chk = hutil.sub_check(prop, tier)
    mod = irgen.backend()
    label = '%s:%d-blocks' % (kind, M)
    replay = make_replay(chk)
    ex = llsym.Executor(mod, pystubs.stubs(), loop_bound=8, solver_timeout_ms=120000)

    def h(ex):
        H = Heap(ex, mod, M)
        ex.assume(H.inv(H.head, H.nxt, H.live))
        inputs = H.inputs()
        if kind == 'alloc':
            ex.assume(H.head != 0)
            r = ex.call('cffi_closure_alloc', [])
            r = bv(r, 64)
            hutil.witness(chk, ex, label)
            hutil.discharge(chk, ex, label + ':returned-block-was-free', H.in_free(r, H.head, H.nxt), inputs, replay=replay)
            hutil.discharge(chk, ex, label + ':returned-block-is-not-a-live-closure', z3.And(H.is_block(r), z3.Not(H.live_at(r, H.live))), inputs, replay=replay)
            head2, nxt2 = H.now()
            live2 = [z3.Or(l, r == a) for l, a in zip(H.live, H.addr)]
            hutil.discharge(chk, ex, label + ':invariant-kept', H.inv(head2, nxt2, live2), inputs, replay=replay)
            same = z3.And(*[H.in_free(a, head2, nxt2) == z3.And(H.in_free(a, H.head, H.nxt), a != r) for a in H.addr])
            hutil.discharge(chk, ex, label + ':free-set-shrinks-by-exactly-that-block', same, inputs, replay=replay)
            frame = z3.And(*[H.block_bytes(i) == H.content[i] for i in range(M)])
            hutil.discharge(chk, ex, label + ':no-block-is-written', frame, inputs, replay=replay)
        else:
            p = z3.BitVec('p', 64)
            inputs['p'] = p
            ex.assume(H.live_at(p, H.live))
            ex.call('cffi_closure_free', [p])
            hutil.witness(chk, ex, label)
            head2, nxt2 = H.now()
            live2 = [z3.And(l, p != a) for l, a in zip(H.live, H.addr)]
            hutil.discharge(chk, ex, label + ':invariant-kept', H.inv(head2, nxt2, live2), inputs, replay=replay)
            same = z3.And(*[H.in_free(a, head2, nxt2) == z3.Or(H.in_free(a, H.head, H.nxt), a == p) for a in H.addr])
            hutil.discharge(chk, ex, label + ':free-set-grows-by-exactly-that-block', same, inputs, replay=replay)
            frame = []
            for i in range(M):
                now, before = H.block_bytes(i), H.content[i]
                frame.append(z3.If(p == H.addr[i], z3.Extract(8 * H.bs - 1, 64, now) == z3.Extract(8 * H.bs - 1, 64, before), now == before))
            hutil.discharge(chk, ex, label + ':only-the-freed-block\'s-link-word-is-written', z3.And(*frame), inputs, replay=replay)

    def on_oob(ex2, what_, model):
        chk.report_failure('%s: access outside the chunk: %s' % (label, what_), {}, None, None)
    ex.on_oob = on_oob
    res = ex.explore(h, max_paths=2000)
    hutil.finish_explore(chk, ex, res, label)
    chk.functions = irgen.func_info(mod, sorted(ex.called))
    return hutil.export(chk)


def core_worker(args):
    prop, tier, kind, pages_before = args
    chk = hutil.sub_check(prop, tier)
    mod = irgen.backend()
    label = 'more_core:allocate_num_pages=%d' % pages_before
    bs = mod.struct_layout(('named', 'union.mmapped_block'))[1]
    ex = llsym.Executor(mod, pystubs.stubs(), loop_bound=20000, solver_timeout_ms=120000, max_steps=8000000)

    def h(ex):
        g = ex.ghost
        g['maps'] = []

        def mmap(e, addr, length, prot, flags, fd, off):
            length = e.concretize(length, 64, 64, 'mmap length')
            if e.decide(z3.Bool('mmap_fails')):
                return mask(64)
            r = e.mem.alloc(length, 'mmap chunk (exact size)', 'heap')
            g['maps'].append(r)
            return r.base

        def sysconf(e, name):
            v = z3.BitVec('pagesize', 64)
            e.assume(z3.Or(v == 4096, v == 16384, v == 65536, v == 0, v == mask(64)))
            return e.concretize(v, 64, 8, 'page size')
        ex.stubs.update({'mmap': mmap, 'mmap64': mmap, 'sysconf': sysconf, 'fopen': lambda e, a, b: 0, 'fopen64': lambda e, a, b: 0, 'getpagesize': lambda e: 4096})
        old = ex.mem.alloc(2 * bs, 'old chunk (all blocks live)', 'heap')
        old_bytes = z3.BitVec('old_chunk', 16 * bs)
        ex.mem.store(old.base, old_bytes, 2 * bs)
        ex.mem.store(ex.gaddr('free_list'), 0, 8)
        ex.mem.store(ex.gaddr('allocate_num_pages'), pages_before, 8)
        ex.mem.store(ex.gaddr('_pagesize'), 0, 8)
        r = simp(ex.call('cffi_closure_alloc', []))
        inputs = {'mmap_fails': z3.Bool('mmap_fails'), 'pagesize': z3.BitVec('pagesize', 64)}
        if not g['maps']:
            hutil.witness(chk, ex, label + ':mmap-failed')
            hutil.discharge(chk, ex, label + ':mmap-failed=>alloc-returns-NULL', is_c(r) and r == 0, inputs)
            return
        m = g['maps'][0]
        ps = simp(ex.mem.load(ex.gaddr('_pagesize'), 8))
        pages = simp(ex.mem.load(ex.gaddr('allocate_num_pages'), 8))
        hutil.witness(chk, ex, label + ':pagesize=%s' % ps)
        want_pages = 1 + int(pages_before * 1.3)
        hutil.discharge(chk, ex, label + ':grows-to-%d-pages' % want_pages, pages == want_pages and ps > 0 and m.size == pages * ps, inputs)
        count = m.size // bs
        okr = is_c(r) and m.base <= r < m.base + count * bs and (r - m.base) % bs == 0
        hutil.discharge(chk, ex, label + ':returned-block-is-a-slot-of-the-new-mapping', okr, inputs)
        # walk the concrete list
        seen = []
        p = simp(ex.mem.load(ex.gaddr('free_list'), 8))
        okl = True
        while p != 0 and len(seen) <= count:
            if not (is_c(p) and m.base <= p < m.base + count * bs and (p - m.base) % bs == 0) or p in seen or p == r:
                okl = False
                break
            seen.append(p)
            p = simp(ex.mem.load(p, 8))
        hutil.discharge(chk, ex, label + ':free-list-is-%d-distinct-slots-of-the-mapping-without-the-returned-one' % (count - 1),
                        okl and len(seen) == count - 1, inputs)
        hutil.discharge(chk, ex, label + ':old-chunk-untouched', bv(ex.mem.load(old.base, 2 * bs), 16 * bs) == old_bytes, inputs)

    def on_oob(ex2, what_, model):
        chk.report_failure('%s: access outside the mapping: %s' % (label, what_), {}, None, None)
    ex.on_oob = on_oob
    res = ex.explore(h, max_paths=200)
    hutil.finish_explore(chk, ex, res, label)
    chk.functions = irgen.func_info(mod, sorted(ex.called))
    return hutil.export(chk)


def callback_worker(args):
    prop, tier, kind, M = args
    chk = hutil.sub_check(prop, tier)
    mod = irgen.backend()
    L = pystubs.CffiLayout(mod)
    F = L.flags
    label = 'b_callback+dealloc:%d-blocks' % M
    replay = make_replay(chk)
    cl = mod.struct_layout(('named', 'struct.ffi_closure'))
    ex = llsym.Executor(mod, pystubs.stubs(), loop_bound=8, solver_timeout_ms=120000)

    def h(ex):
        py = pystubs.PyEnv(ex)
        g = ex.ghost
        H = Heap(ex, mod, M)
        ex.assume(H.inv(H.head, H.nxt, H.live))
        ex.assume(H.head != 0)
        inputs = H.inputs()
        g['prep'] = []

        def prep_closure(e, closure, cif, fun, user_data, *loc):
            # libffi's contract: writes the trampoline, cif, fun and user_data of *this* closure
            closure = bv(closure, 64)
            g['prep'].append((closure, simp(cif), simp(fun), simp(user_data)))
            e.mem.store(closure + cl[0][-1], user_data, 8)
            return 0

        def parse(e, args_, fmt, *outs):
            # "O!O|OO": &CTypeDescr_Type, &ct, &ob, &error_ob, &onerror_ob
            e.mem.store(outs[1], g['ct'], 8)
            e.mem.store(outs[2], g['ob'], 8)
            return 1
        ex.stubs.update({'ffi_prep_closure': prep_closure, 'ffi_prep_closure_loc': prep_closure,
                         '_PyArg_ParseTuple_SizeT': parse, 'PyCallable_Check': lambda e, o: 1,
                         'Py_BuildValue': lambda e, fmt, *a: py.new_tuple([simp(x) for x in a]),
                         '_Py_BuildValue_SizeT': lambda e, fmt, *a: py.new_tuple([simp(x) for x in a])})
        rct = pystubs.new_ctype(ex, L, 4, F['CT_PRIMITIVE_SIGNED'] | F['CT_PRIMITIVE_FITS_LONG'], name=b'int')
        sig = py.new_tuple([py.new_int(0), rct])
        cif = ex.mem.alloc(64, 'cif_description', 'heap', fill=0)
        g['ct'] = pystubs.new_ctype(ex, L, 8, F['CT_FUNCTIONPTR'], stuff=sig, extra=cif.base, name=b'int(*)()')
        g['ob'] = py.new_opaque('function')
        r = simp(ex.call('b_callback', [0, 0]))
        okk = is_c(r) and r != 0 and py.exc is None
        hutil.witness(chk, ex, label)
        hutil.discharge(chk, ex, label + ':callback-created', okk, inputs, replay=replay)
        if not okk:
            return
        data = bv(ex.mem.load(r + L.cd['c_data'], 8), 64)
        hutil.discharge(chk, ex, label + ':address-is-a-block-that-was-free', z3.And(H.in_free(data, H.head, H.nxt), z3.Not(H.live_at(data, H.live))), inputs, replay=replay)
        okp = len(g['prep']) == 1
        hutil.discharge(chk, ex, label + ':libffi-asked-once', okp, inputs, replay=replay)
        if okp:
            closure, cifp, fun, ud = g['prep'][0]
            info = py.info(ud) if is_c(ud) and ud in py.objs else None
            bound = (info is not None and info['kind'] == 'tuple' and info['items'][0] == g['ct'] and info['items'][1] == g['ob']
                     and fun == ex.faddr('invoke_callback') and cifp == cif.base)
            hutil.discharge(chk, ex, label + ':block-bound-to-invoke_callback-with-own-(ctype,function)', z3.And(closure == data, z3.BoolVal(bool(bound))), inputs, replay=replay)
        # other blocks untouched
        frame = z3.And(*[z3.Or(data == H.addr[i], H.block_bytes(i) == H.content[i]) for i in range(M)])
        hutil.discharge(chk, ex, label + ':other-blocks-not-written', frame, inputs, replay=replay)
        head2, nxt2 = H.now()
        live2 = [z3.Or(l, data == a) for l, a in zip(H.live, H.addr)]
        hutil.discharge(chk, ex, label + ':invariant-kept', H.inv(head2, nxt2, live2), inputs, replay=replay)
        # drop it again: the very same block goes back, nothing else changes
        ex.stubs['cdata_dealloc'] = lambda e, cd: None
        ex.call('cdataowninggc_dealloc', [r])
        head3, nxt3 = H.now()
        hutil.discharge(chk, ex, label + ':dealloc-returns-exactly-that-block', z3.And(head3 == data, H.inv(head3, nxt3, H.live)), inputs, replay=replay)
        same = z3.And(*[H.in_free(a, head3, nxt3) == H.in_free(a, H.head, H.nxt) for a in H.addr])
        hutil.discharge(chk, ex, label + ':free-set-restored', same, inputs, replay=replay)

    def on_oob(ex2, what_, model):
        chk.report_failure('%s: stray access: %s' % (label, what_), {}, None, None)
    ex.on_oob = on_oob
    res = ex.explore(h, max_paths=2000)
    hutil.finish_explore(chk, ex, res, label)
    chk.functions = irgen.func_info(mod, sorted(ex.called))
    return hutil.export(chk)


def dispatch(args):
    return {'alloc': step_worker, 'free': step_worker, 'core': core_worker, 'callback': callback_worker}[args[2]](args)


def run(chk):
    quick = chk.tier == 'quick'
    P = (chk.prop, chk.tier)
    cases = []
    for M in ((1, 2, 3) if quick else (1, 2, 3, 4, 5, 6, 7)):
        cases.append(P + ('alloc', M))
        cases.append(P + ('free', M))
    for pages in ((0, 1, 3) if quick else (0, 1, 2, 3, 4, 6, 8, 11)):
        cases.append(P + ('core', pages))
    for M in ((1, 3) if quick else (1, 2, 3, 4)):
        cases.append(P + ('callback', M))
    chk.bounds = {'inductive step': 'one alloc / free / b_callback+dealloc from every state of a chunk of M <= %d blocks (symbolic free list and live set)' % (3 if quick else 7),
                  'more_core': 'allocate_num_pages before in %s, page size in {4096, 16384, 65536, unknown}, mmap succeeds or fails' % ('{0,1,3}' if quick else '{0,1,2,3,4,6,8,11}')}
    chk.outside = ['libffi\'s trampoline code and ffi_prep_closure itself (contract stub: binds fun/user_data of the given closure)',
                   'more than one chunk in the symbolic state (chunks are only linked through the same list: the step does not depend on which chunk a block is in)',
                   'double free / use after free by the caller (precondition: p is live)', 'free-threaded build locking (PyMutex)']
    chk.assume('INV is the representation invariant; the step from any INV state covers histories of any length')
    irgen.backend()
    hutil.run_cases(chk, cases, dispatch)
