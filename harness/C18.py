"""C18 -- ffi.unpack equals element-wise reading.

llsym on b_unpack (all casenum fast paths) against convert_to_object on the same memory.
Symbolic: item bytes, the type's alignment field (any value), misalignment of the source
pointer (0..7), length (-1..N).  Concrete split: item kind.
Differential oracle: after b_unpack returns, the harness itself calls the real
convert_to_object(src + i*itemsize, item) for every i on the same memory and the solver must
prove that the i-th list element is the same Python value (or that both fail with the same
exception at the same index).
"""
import json
import z3
from vf import common, irgen, llsym, pystubs, hutil
from vf.llsym import bv, simp, mask, is_c
from vf.pystubs import W, V_const
from harness.C17 import prim_flags

KINDS = [('signed', 1), ('signed', 2), ('signed', 4), ('signed', 8), ('unsigned', 1), ('unsigned', 2),
         ('unsigned', 4), ('unsigned', 8), ('bool', 1), ('float', 4), ('float', 8), ('char', 1),
         ('pointer', 8), ('funcptr', 8), ('struct', 12), ('wchar', 2), ('wchar', 4), ('longdouble', 16)]

REPLAY = r'''
# Replay for C18 against the real cffi build: ffi.unpack(p, n) vs [p[i] for i in range(n)]
import sys, json, cffi
case = json.loads(%r)
ffi = cffi.FFI()
kind, size, n, mis, data = case['kind'], case['size'], case['n'], case['misalign'], bytes.fromhex(case['data'])
ffi.cdef('struct s12 { char c[12]; };')
tn = {'signed': {1: 'signed char', 2: 'short', 4: 'int', 8: 'long long'}, 'unsigned': {1: 'unsigned char', 2: 'unsigned short', 4: 'unsigned int', 8: 'unsigned long long'},
      'bool': {1: '_Bool'}, 'float': {4: 'float', 8: 'double'}, 'char': {1: 'char'}, 'pointer': {8: 'int *'},
      'funcptr': {8: 'int(*)(void)'}, 'struct': {12: 'struct s12'}, 'wchar': {2: 'char16_t', 4: 'char32_t'},
      'longdouble': {16: 'long double'}}[kind][size]
raw = ffi.new('char[]', 16 + len(data) + 16)
base = int(ffi.cast('uintptr_t', raw))
start = (-base) %% 16 + mis
ffi.buffer(raw)[start:start + len(data)] = data
p = ffi.cast(tn + ' *', ffi.cast('char *', raw) + start)
def run(f):
    try:
        return ('ok', f())
    except Exception as e:
        return ('exc', type(e).__name__)
a = run(lambda: ffi.unpack(p, n))
b = run(lambda: [p[i] for i in range(n)])
if a[0] == 'ok' and b[0] == 'ok':
    if kind == 'char':
        same = a[1] == b''.join(b[1])
    elif kind == 'wchar':
        # char16_t items are UTF-16 code units: unpack() decodes pairs, p[i] hands out the units
        enc = lambda s: s.encode('utf-16-le' if size == 2 else 'utf-32-le', 'surrogatepass')
        same = enc(a[1]) == enc(''.join(b[1]))
    elif kind == 'struct':
        same = len(a[1]) == len(b[1]) and all(ffi.addressof(x) == ffi.addressof(y) for x, y in zip(a[1], b[1]))
    elif kind == 'float':
        same = len(a[1]) == len(b[1]) and all(x == y or (x != x and y != y) for x, y in zip(a[1], b[1]))
    elif kind == 'longdouble':
        # p[i] of a long double item is a <cdata 'long double'>: same kind of object, same 80-bit value
        ld = lambda x: isinstance(x, ffi.CData) and ffi.typeof(x) is ffi.typeof('long double') and bytes(ffi.buffer(ffi.new('long double[1]', [x])))[:10]
        same = len(a[1]) == len(b[1]) and all(ld(x) is not False and ld(x) == ld(y) for x, y in zip(a[1], b[1]))
    else:
        same = a[1] == b[1]
else:
    same = a == b
if not same:
    print('VIOLATED: unpack ->', a, ' elementwise ->', b)
sys.exit(0 if same else 1)
'''


def make_replay(chk):
    def replay(case):
        body = REPLAY % json.dumps(case)
        path = chk.write_replay('%s%d-n%d' % (case['kind'], case['size'], case['n']), body)
        rc, out = common.run_replay(path)
        return common.replay_verdict(rc, out), path
    return replay


def same_value(ex, py, a, b, content=0):
    """z3 Bool / python bool: objects a and b (addresses) denote the same Python value; content=k: cdata objects that own
    a copy of the value (long double) are compared by type and by the first k bytes they hold"""
    a, b = simp(a), simp(b)
    if a == b:
        return True
    ia, ib = py.info(a), py.info(b)
    if ia['kind'] != ib['kind']:
        return False
    k = ia['kind']
    if k == 'int':
        if ('bool' in ia) != ('bool' in ib):
            return False
        return ia['V'] == ib['V']
    if k == 'float':
        x, y = bv(ia['bits'], 64), bv(ib['bits'], 64)
        fx, fy = z3.fpBVToFP(x, z3.Float64()), z3.fpBVToFP(y, z3.Float64())
        return z3.Or(x == y, z3.And(z3.fpIsNaN(fx), z3.fpIsNaN(fy)))
    if k == 'bytes':
        if len(ia['data']) != len(ib['data']):
            return False
        return llsym.b_and(*[llsym.eq(p, q, 8) for p, q in zip(ia['data'], ib['data'])])
    if k.startswith('new:'):
        # cdata objects: same Python type, same c_type, same c_data
        if content:
            pa, pb = simp(ex.mem.load(a + 24, 8)), simp(ex.mem.load(b + 24, 8))
            if not (is_c(pa) and is_c(pb)):
                return False
            return llsym.b_and(llsym.eq(ia['tp'], ib['tp'], 64),
                               llsym.eq(ex.mem.load(a + 16, 8), ex.mem.load(b + 16, 8), 64),
                               llsym.eq(ex.mem.load(pa, content), ex.mem.load(pb, content), 8 * content))
        return llsym.b_and(llsym.eq(ia['tp'], ib['tp'], 64),
                           llsym.eq(ex.mem.load(a + 16, 8), ex.mem.load(b + 16, 8), 64),
                           llsym.eq(ex.mem.load(a + 24, 8), ex.mem.load(b + 24, 8), 64))
    return False


def worker(args):
    prop, tier, kind, size, N = args
    chk = hutil.sub_check(prop, tier)
    mod = irgen.backend()
    L = pystubs.CffiLayout(mod)
    F = L.flags
    replay = make_replay(chk)
    label = '%s%d' % (kind, size)

    def parse(ex, args_, kwds, fmt, keywords, *outs):
        g = ex.ghost
        # "O!n:unpack": &CData_Type, &cd, &length
        ex.mem.store(outs[1], g['cd'], 8)
        ex.mem.store(outs[2], g['length'], 8)
        return 1

    st = pystubs.stubs(_PyArg_ParseTupleAndKeywords_SizeT=parse)
    ex = llsym.Executor(mod, st, loop_bound=N + 4)

    if kind in ('pointer', 'funcptr'):
        iflags = F['CT_POINTER'] if kind == 'pointer' else F['CT_FUNCTIONPTR']
    elif kind == 'struct':
        iflags = F['CT_STRUCT']
    elif kind == 'wchar':
        iflags = F['CT_PRIMITIVE_CHAR'] | F['CT_PRIMITIVE_FITS_LONG']
    elif kind == 'longdouble':
        iflags = F['CT_PRIMITIVE_FLOAT'] | F['CT_IS_LONGDOUBLE']
    else:
        iflags = prim_flags(F, kind, size)

    def h(ex):
        py = pystubs.PyEnv(ex)
        nsym = z3.BitVec('n', 64)
        ex.assume(z3.And(nsym >= -1, nsym <= N))
        n = ex.concretize(nsym, 64, N + 3, 'length')
        mis = z3.BitVec('misalign', 64)
        ex.assume(z3.ULT(mis, 8))
        k = ex.concretize(mis, 64, 9, 'misalignment')
        align = z3.BitVec('ct_length', 64)
        if kind not in ('pointer', 'funcptr', 'struct'):
            # the alignment new_primitive_type() records for these types on x86-64 (table checked by C06)
            ex.assume(align == size)
        ns = llsym.signed(n, 64)
        cnt = max(ns, 0)
        item = pystubs.new_ctype(ex, L, size, iflags, length=align)
        ptr = pystubs.new_ctype(ex, L, 8, F['CT_POINTER'], itemdescr=item)
        data = ex.mem.alloc(k + cnt * size, 'source items', 'input', align=16)
        raws = []
        for i in range(cnt):
            r = z3.BitVec('item%d' % i, 8 * size)
            raws.append(r)
            ex.mem.store(data.base + k + i * size, r, size)
        src = data.base + k
        cd = pystubs.new_cdata(ex, L, ptr, src)
        ex.ghost['cd'] = cd
        ex.ghost['length'] = n
        inputs = {'ct_length': align}
        for i, r in enumerate(raws):
            inputs['item%d' % i] = r

        def mkcase(m):
            b = b''.join(hutil.mval(m, r).to_bytes(size, 'little') for r in raws)
            return {'kind': kind, 'size': size, 'n': ns, 'misalign': k, 'data': b.hex()}

        res = simp(ex.call('b_unpack', [0, 0, 0]))
        exc1 = py.exc
        name = '%s:n=%d:mis=%d' % (label, ns, k)

        def disch(nm, prop):
            # replay needs the concrete bytes: build the case from the model
            def rp(case):
                return replay(case['_c'])
            t_inputs = dict(inputs)
            ok = hutil.discharge(chk, ex, name + ':' + nm, prop, t_inputs,
                                 replay=lambda c: replay(dict(kind=kind, size=size, n=ns, misalign=k,
                                                              data=b''.join(c['item%d' % i].to_bytes(size, 'little')
                                                                            for i in range(cnt)).hex())))
            return ok

        if ns < 0:
            hutil.witness(chk, ex, label + ':negative-length')
            disch('negative=>ValueError', (res == 0) and exc1 == 'PyExc_ValueError')
            return
        # reference: element-wise convert_to_object on the same memory
        py.exc = None
        ref = []
        ref_exc = None
        for i in range(cnt):
            o = simp(ex.call('convert_to_object', [src + i * size, item]))
            if is_c(o) and o == 0:
                ref_exc = (i, py.exc)
                break
            ref.append(o)
        if kind == 'char':
            hutil.witness(chk, ex, label + ':bytes')
            okk = is_c(res) and res != 0 and exc1 is None and py.info(res)['kind'] == 'bytes' \
                and len(py.info(res)['data']) == cnt
            disch('returns-bytes-of-length-n', okk)
            if okk:
                joined = []
                for o in ref:
                    joined.extend(py.info(o)['data'])
                disch('bytes==joined-elements', llsym.b_and(
                    *[llsym.eq(a, b, 8) for a, b in zip(py.info(res)['data'], joined)]))
            return
        if kind == 'wchar' and ref_exc is None:
            hutil.witness(chk, ex, label + ':str:n=%d' % ns)
            okk = is_c(res) and res != 0 and exc1 is None and py.info(res)['kind'] == 'str'
            disch('elementwise-ok=>unpack-returns-str', okk)
            if not okk:
                return
            ukind, got = py.read_unicode(res)
            got = [llsym.zext(c, 8 * ukind, 32) if not is_c(c) else c for c in got]
            elems = []
            for o in ref:
                k1, c1 = py.read_unicode(o)
                if len(c1) != 1:
                    disch('p[i]-is-one-character', False)
                    return
                elems.append(llsym.zext(c1[0], 8 * k1, 32) if not is_c(c1[0]) else c1[0])
            # the items as a UTF-16 / UTF-32 text: a high surrogate followed by a low one is one character
            exp, i = [], 0
            while i < cnt:
                e0 = bv(elems[i], 32)
                if size == 2 and i + 1 < cnt:
                    e1 = bv(elems[i + 1], 32)
                    if ex.decide(z3.And(z3.UGE(e0, 0xD800), z3.ULE(e0, 0xDBFF), z3.UGE(e1, 0xDC00), z3.ULE(e1, 0xDFFF))):
                        exp.append((((e0 & 0x3FF) << 10) | (e1 & 0x3FF)) + 0x10000)
                        i += 2
                        continue
                exp.append(e0)
                i += 1
            disch('number-of-characters', len(got) == len(exp))
            if len(got) == len(exp):
                disch('str==items-decoded-as-utf%d' % (8 * size), llsym.b_and(*[bv(a_, 32) == b_ for a_, b_ in zip(got, exp)]))
            return
        if ref_exc is not None:
            hutil.witness(chk, ex, label + ':element-error')
            disch('elementwise-fails=>unpack-fails-same-exception', (res == 0) and exc1 == ref_exc[1])
            return
        hutil.witness(chk, ex, label + ':ok:n=%d' % ns)
        m = ex.model()
        if m is not None and cnt:
            chk.sample({'case': name, 'ct_length(alignment field)': hutil.mval(m, align),
                        'items': [hex(hutil.mval(m, r)) for r in raws]})
        okk = is_c(res) and res != 0 and exc1 is None and py.info(res)['kind'] == 'list'
        disch('elementwise-ok=>unpack-ok', okk)
        if not okk:
            return
        li = py.info(res)
        disch('list-length==n', ex.mem.load(res + 16, 8) == cnt)
        for i in range(cnt):
            it = simp(ex.mem.load(li['arr'].base + 8 * i, 8))
            if not is_c(it):
                it = ex.concretize(it, 64, 4, 'list item pointer')
            disch('item%d==p[%d]' % (i, i), same_value(ex, py, it, ref[i], content=(10 if kind == 'longdouble' else 0)))

    def on_oob(ex, what, model):
        chk.report_failure('%s: read outside length*itemsize bytes: %s' % (label, what), {}, None, None)
    ex.on_oob = on_oob
    res = ex.explore(h)
    hutil.finish_explore(chk, ex, res, label)
    chk.functions = irgen.func_info(mod, sorted(ex.called))
    return hutil.export(chk)


def run(chk):
    N = 2 if chk.tier == 'quick' else 8
    # wide characters fork on every (high, low) surrogate decision: their length bound stays smaller
    cases = [(chk.prop, chk.tier, k, s, (N if k != 'wchar' else min(N, 4))) for k, s in KINDS]
    chk.bounds = {'item kinds': [list(k) for k in KINDS], 'length': '-1..%d (symbolic); char16_t/char32_t items: -1..%d' % (N, min(N, 4)),
                  'misalignment of source pointer': '0..7 (symbolic)', 'alignment field of the item type': 'natural alignment for primitives (= size), any value for pointer/struct items',
                  'item bytes': 'all values'}
    chk.outside = ['lengths above the bound (loop body depends on i only through src += itemsize)',
                   'complex items; long double items: the 6 padding bytes of each 16-byte item are not compared (x86_fp80 holds 10)']
    chk.assume('CPython API contracts of vf/pystubs.py; PyArg_ParseTupleAndKeywords delivers (cdata, length)')
    chk.assume('char16_t items are UTF-16 code units: "joined" means decoded as UTF-16 (a high surrogate followed by a low one is one '
               'character), which is what p[i] cannot express for a single unit')
    irgen.backend()
    hutil.run_cases(chk, cases, worker)
