"""C10 -- enum values and underlying integer type match the C compiler.

pysym on the real EnumType.build_baseinttype (symbolic enumerator values: any ints) and
Parser._build_enum_type (explicit values symbolic, every explicit/implicit pattern);
llsym on b_new_enum_type + convert_cdata_to_enum_string with an abstract dict model (first declared
enumerator wins for duplicate values; decimal fallback).
Oracle for the underlying type: GCC's rule -- unsigned int / int if all values fit, else
unsigned long / long by sign, else an error.
"""
import os, sys, json, itertools
import z3
from vf import common, irgen, llsym, pysym, pystubs, hutil
from vf.llsym import bv, simp, mask, is_c
from vf.pystubs import W, V_const

REPLAY = r'''
# Replay for C10: cffi's enum (values, size, signedness) vs gcc's.
import sys, json, subprocess, tempfile, os
import cffi
case = json.loads(%r)
vals = case['values']
decl = 'enum e { %%s };' %% ', '.join('E%%d = %%s' %% (i, ('(%%d)' %% v) if v >= 0 else '(-%%d - 1)' %% (-v - 1)) for i, v in enumerate(vals))
ffi = cffi.FFI()
try:
    ffi.cdef(decl)
    t = ffi.typeof('enum e')
    mine = ('ok', ffi.sizeof(t), int(ffi.cast(t, -1)) < 0, [t.relements['E%%d' %% i] for i in range(len(vals))])
except cffi.CDefError as e:
    mine = ('CDefError',)
d = tempfile.mkdtemp()
open(os.path.join(d, 't.c'), 'w').write('#include <stdio.h>\n%%s\nint main(void){ printf("%%%%zu %%%%d", sizeof(enum e), (enum e)-1 < 0); %%s return 0; }' %% (
    decl, ' '.join('printf(" %%%%lld", (long long)E%%d);' %% i for i in range(len(vals)))))
r = subprocess.run(['gcc', '-w', '-o', os.path.join(d, 't'), os.path.join(d, 't.c')], capture_output=True)
if r.returncode != 0:
    want = ('CDefError',)
else:
    o = subprocess.run([os.path.join(d, 't')], capture_output=True).stdout.decode().split()
    want = ('ok', int(o[0]), bool(int(o[1])), [int(x) for x in o[2:]])
if any(v >= 2**63 for v in vals) and want[0] == 'ok':
    want = (want[0], want[1], want[2], vals)     # %%lld cannot print them; values are what was written
if mine != want:
    print('VIOLATED: %%s: cffi %%r, gcc %%r' %% (decl, mine, want)); sys.exit(1)
sys.exit(0)
'''


def make_replay(chk):
    def replay(case):
        if any(not (-(1 << 63) <= v < (1 << 64)) for v in case['values']):
            return None, None
        path = chk.write_replay('enum', REPLAY % json.dumps(case))
        rc, out = common.run_replay(path, timeout=120)
        return common.replay_verdict(rc, out), path
    return replay


def base_worker(args):
    prop, tier, kind, k = args
    sys.path.insert(0, os.path.join(common.REPO, 'src'))
    chk = hutil.sub_check(prop, tier)
    from cffi import model
    from cffi.error import CDefError
    ex = pysym.PyExplorer()
    replay = make_replay(chk)
    label = 'baseinttype-%d-values' % k
    SIZES = {'int': 4, 'unsigned int': 4, 'long': 8, 'unsigned long': 8}

    class FFIStub(object):
        def __init__(self):
            self._cached_btypes = dict((model.PrimitiveType(n), n) for n in SIZES)

        def sizeof(self, bt):
            return SIZES[bt]

    def h(ex):
        vals = [ex.sym_int('v%d' % i) for i in range(k)]
        tp = model.EnumType('e', tuple('E%d' % i for i in range(k)), tuple(vals))
        inputs = dict(('v%d' % i, v.t) for i, v in enumerate(vals))

        def rp(case):
            return replay({'values': [case['v%d' % i] for i in range(k)]})
        try:
            bt = tp.build_baseinttype(FFIStub(), [])
            outcome = bt
        except CDefError:
            outcome = 'CDefError'
        except (llsym.PathEnd, llsym.Unsupported, llsym.UnwindBound):
            raise
        ts = [v.t for v in vals]
        anyneg = z3.Or(*[t < 0 for t in ts])
        fits = lambda lo, hi: z3.And(*[z3.And(t >= lo, t <= hi) for t in ts])
        spec = {
            'unsigned int': z3.And(z3.Not(anyneg), fits(0, 2 ** 32 - 1)),
            'int': z3.And(anyneg, fits(-2 ** 31, 2 ** 31 - 1)),
            'unsigned long': z3.And(z3.Not(anyneg), fits(0, 2 ** 64 - 1), z3.Not(fits(0, 2 ** 32 - 1))),
            'long': z3.And(anyneg, fits(-2 ** 63, 2 ** 63 - 1), z3.Not(fits(-2 ** 31, 2 ** 31 - 1))),
        }
        spec['CDefError'] = z3.Not(z3.Or(*spec.values()))
        m = hutil.witness(chk, ex, '%s:%s' % (label, outcome))
        if m is not None and len(chk.samples) < 6:
            chk.sample({'values': [hutil.mval(m, t) for t in ts], 'underlying type': outcome})
        hutil.discharge(chk, ex, '%s:%s<=>gcc-rule' % (label, outcome), spec[outcome], inputs, replay=rp)

    res = ex.explore(h, max_paths=5000)
    hutil.finish_explore(chk, ex, res, label)
    return hutil.export(chk)


def values_worker(args):
    prop, tier, kind, pattern = args
    sys.path.insert(0, os.path.join(common.REPO, 'src'))
    chk = hutil.sub_check(prop, tier)
    from cffi import cparser
    from pycparser import c_ast
    ex = pysym.PyExplorer()
    replay = make_replay(chk)
    label = 'enum-values-' + ''.join('E' if p else 'i' for p in pattern)

    def h(ex):
        parser = cparser.Parser()
        expl = {}
        enumerators = []
        for i, p in enumerate(pattern):
            if p:
                v = ex.sym_int('x%d' % i)
                expl[i] = v
                parser._int_constants['x%d' % i] = v
                enumerators.append(c_ast.Enumerator('E%d' % i, c_ast.ID('x%d' % i)))
            else:
                enumerators.append(c_ast.Enumerator('E%d' % i, None))
        decls = c_ast.EnumeratorList(enumerators)
        tp = parser._build_enum_type('e', decls)
        want = []
        cur = None
        for i, p in enumerate(pattern):
            if p:
                cur = expl[i].t
            else:
                cur = z3.IntVal(0) if cur is None else cur + 1
            want.append(cur)
        got = [v.t if isinstance(v, pysym.SymInt) else z3.IntVal(v) for v in tp.enumvalues]
        inputs = dict(('x%d' % i, v.t) for i, v in expl.items())
        hutil.witness(chk, ex, label)
        okk = len(got) == len(want) and tp.enumerators == tuple('E%d' % i for i in range(len(pattern)))
        hutil.discharge(chk, ex, label + ':names-in-order', okk, inputs)
        if okk:
            hutil.discharge(chk, ex, label + ':values==C-increment-rule', z3.And(*[g == w for g, w in zip(got, want)]), inputs)
            consts = [parser._int_constants['E%d' % i] for i in range(len(pattern))]
            cg = [v.t if isinstance(v, pysym.SymInt) else z3.IntVal(v) for v in consts]
            hutil.discharge(chk, ex, label + ':constants==values', z3.And(*[g == w for g, w in zip(cg, want)]), inputs)

    res = ex.explore(h, max_paths=2000)
    hutil.finish_explore(chk, ex, res, label)
    return hutil.export(chk)


def c_worker(args):
    prop, tier, kind, n = args
    chk = hutil.sub_check(prop, tier)
    mod = irgen.backend()
    L = pystubs.CffiLayout(mod)
    F = L.flags
    label = 'new_enum_type-%d' % n

    def dict_new(ex):
        return pystubs.py(ex).new_opaque('dict', items=[])

    def same_key(ex, p, a, b):
        a, b = simp(a), simp(b)
        if a == b:
            return True
        ia, ib = p.info(a), p.info(b)
        if ia['kind'] == 'int' and ib['kind'] == 'int':
            return ex.decide(ia['V'] == ib['V'])
        return False

    def dict_setitem(ex, d, k, v):
        p = pystubs.py(ex)
        items = p.info(d)['items']
        for it in items:
            if same_key(ex, p, it[0], k):
                it[1] = simp(v)
                return 0
        items.append([simp(k), simp(v)])
        return 0

    def dict_getitem(ex, d, k):
        p = pystubs.py(ex)
        for it in p.info(d)['items']:
            if same_key(ex, p, it[0], k):
                return it[1]
        return 0

    def tuple_pack(ex, n_, *objs):
        return pystubs.py(ex).new_tuple(list(objs[:simp(n_)]))

    def gc_newvar(ex, tp, nitems):
        p = pystubs.py(ex)
        nitems = ex.concretize(nitems, 64, 64, 'nitems')
        reg = ex.mem.alloc(L.ct_sizeof + nitems + 8, 'py:new ctype', 'pyobj', align=16)
        ex.mem.store(reg.base, 1, 8)
        ex.mem.store(reg.base + 8, tp, 8)
        ex.mem.store(reg.base + 16, nitems, 8)
        p.objs[reg.base] = {'kind': 'ctype', 'region': reg}
        return reg.base

    def str_of(ex, o):
        return pystubs.py(ex).new_opaque('strof', of=simp(o))

    st = pystubs.stubs(PyDict_New=dict_new, PyDict_SetItem=dict_setitem, PyDict_GetItem=dict_getitem,
                       PyTuple_Pack=tuple_pack, _PyObject_GC_NewVar=gc_newvar, PyObject_Str=str_of)

    ex = llsym.Executor(mod, st, loop_bound=n + 12)

    def h(ex):
        py = pystubs.PyEnv(ex)
        base = pystubs.new_ctype(ex, L, 4, F['CT_PRIMITIVE_SIGNED'] | F['CT_PRIMITIVE_FITS_LONG'], length=4)
        Vs = [z3.BitVec('v%d' % i, W) for i in range(n)]
        for V in Vs:
            ex.assume(z3.And(V >= V_const(-2 ** 31), V <= V_const(2 ** 31 - 1)))
        names = [py.new_unicode([ord('A') + i], 1) for i in range(n)]
        values = [py.new_int(V) for V in Vs]
        tn, tv = py.new_tuple(names), py.new_tuple(values)
        ename = ex.mem.alloc(8, 'ename', 'input', fill=0)
        ex.mem.store(ename.base, ord('e'), 1)

        def parse(ex2, a_, fmt, *outs):
            ex2.mem.store(outs[0], ename.base, 8)
            ex2.mem.store(outs[2], tn, 8)
            ex2.mem.store(outs[4], tv, 8)
            ex2.mem.store(outs[6], base, 8)
            return 1
        ex.stubs['_PyArg_ParseTuple_SizeT'] = parse
        td = simp(ex.call('b_new_enum_type', [0, 0]))
        inputs = dict(('v%d' % i, V) for i, V in enumerate(Vs))
        okk = is_c(td) and td != 0 and py.exc is None
        hutil.witness(chk, ex, label + ':built')
        hutil.discharge(chk, ex, label + ':type-built', okk, inputs)
        if not okk:
            return
        fl = simp(ex.mem.load(td + L.ct['ct_flags'], 4))
        hutil.discharge(chk, ex, label + ':same-size-sign-as-base+enum-flag',
                        (fl == (F['CT_PRIMITIVE_SIGNED'] | F['CT_PRIMITIVE_FITS_LONG'] | F['CT_IS_ENUM']))
                        and simp(ex.mem.load(td + L.ct['ct_size'], 8)) == 4, inputs)
        # ffi.string(cdata) for an arbitrary stored value X
        X = z3.BitVec('x', 32)
        data = ex.mem.alloc(4, 'enum cdata', 'input')
        ex.mem.store(data.base, X, 4)
        py.objs[td]['kind'] = 'ctype'
        cd = pystubs.new_cdata(ex, L, td, data.base)
        r = simp(ex.call('convert_cdata_to_enum_string', [cd, 0]))
        inputs['x'] = X
        X128 = z3.SignExt(W - 32, X)
        # first declared enumerator with that value
        first = None
        for i in range(n - 1, -1, -1):
            first = z3.If(Vs[i] == X128, z3.BitVecVal(i, 8), first if first is not None else z3.BitVecVal(255, 8))
        if first is None:
            first = z3.BitVecVal(255, 8)
        info = py.objs.get(r)
        if r in names:
            idx = names.index(r)
            hutil.witness(chk, ex, label + ':name%d' % idx)
            hutil.discharge(chk, ex, label + ':string==first-declared-name-with-that-value', first == idx, inputs)
        elif info is not None and info.get('kind') == 'strof':
            hutil.witness(chk, ex, label + ':decimal')
            hutil.discharge(chk, ex, label + ':decimal=>no-enumerator-has-that-value', first == 255, inputs)
            hutil.discharge(chk, ex, label + ':decimal-of-the-value', py.info(info['of'])['V'] == X128, inputs)
        else:
            chk.report_failure(label + ': unexpected result of ffi.string()', {}, None, None)

    res = ex.explore(h, max_paths=5000)
    hutil.finish_explore(chk, ex, res, label)
    chk.functions = irgen.func_info(mod, sorted(ex.called))
    return hutil.export(chk)


_prim = None


def prim_module():
    """the size/sign -> primitive-index macros of _cffi_include.h (API mode takes an enum's size and sign from the compiler
    and encodes them with _cffi_prim_int), wrapped in two functions so that size and sign can be symbolic"""
    global _prim
    if _prim is None:
        sd = common.scratch_dir()
        src = os.path.join(sd, '_verif_c10.c')
        open(src, 'w').write('#include "_cffi_include.h"\n'
                             'int verif_prim_int(long size, int sign) { return _cffi_prim_int(size, sign); }\n'
                             'int verif_prim_float(long size) { return _cffi_prim_float(size); }\n')
        _prim = irgen.compile_ir(src, '_verif_c10', extra_flags=['-I' + os.path.join(common.REPO, 'src/cffi')])
    return _prim


def api_worker(args):
    prop, tier, kind = args
    chk = hutil.sub_check(prop, tier)
    mod = prim_module()
    sys.path.insert(0, os.path.join(common.REPO, 'src'))
    from cffi import cffi_opcode
    names = dict((v, k) for k, v in cffi_opcode.PRIMITIVE_TO_INDEX.items())
    ex = llsym.Executor(mod, dict(llsym.LIBC), loop_bound=8)
    label = 'api-mode:_cffi_prim_int'

    def h(ex):
        size = z3.BitVec('size', 64)
        sign = z3.BitVec('sign', 32)
        r = simp(ex.call('verif_prim_int', [size, sign]))
        r = ex.concretize(r, 32, 64, 'index') if not is_c(r) else r
        rs = llsym.signed(r, 32)
        inputs = {'size': size, 'sign': sign}
        hutil.witness(chk, ex, label + ':%s' % names.get(rs, rs))
        if rs == cffi_opcode._UNKNOWN_PRIM:
            hutil.discharge(chk, ex, label + ':unknown=>size-not-1-2-4-8', z3.And(size != 1, size != 2, size != 4, size != 8), inputs)
        else:
            nm = names.get(rs, '')
            import re
            m = re.match(r'^(u?)int(8|16|32|64)_t$', nm)
            hutil.discharge(chk, ex, label + ':index-names-a-fixed-width-integer-type', m is not None, inputs)
            if m:
                hutil.discharge(chk, ex, label + ':%s<=>size-%d-and-%ssigned' % (nm, int(m.group(2)) // 8, 'un' if m.group(1) else ''),
                                z3.And(size == int(m.group(2)) // 8, (sign != 0) == (m.group(1) == '')), inputs)

    res = ex.explore(h, max_paths=200)
    hutil.finish_explore(chk, ex, res, label)
    ex2 = llsym.Executor(mod, dict(llsym.LIBC), loop_bound=8)
    label2 = 'api-mode:_cffi_prim_float'

    def h2(ex):
        size = z3.BitVec('size', 64)
        r = simp(ex.call('verif_prim_float', [size]))
        r = ex.concretize(r, 32, 64, 'index') if not is_c(r) else r
        rs = llsym.signed(r, 32)
        inputs = {'size': size}
        hutil.witness(chk, ex, label2 + ':%s' % names.get(rs, rs))
        want = {cffi_opcode.PRIM_FLOAT: size == 4, cffi_opcode.PRIM_DOUBLE: size == 8, cffi_opcode._UNKNOWN_LONG_DOUBLE: size == 16,
                cffi_opcode._UNKNOWN_FLOAT_PRIM: z3.And(size != 4, size != 8, size != 16)}
        hutil.discharge(chk, ex, label2 + ':index<=>size', want.get(rs, z3.BoolVal(False)), inputs)
    res = ex2.explore(h2, max_paths=200)
    hutil.finish_explore(chk, ex2, res, label2)
    chk.functions = irgen.func_info(mod, ['verif_prim_int', 'verif_prim_float'])
    return hutil.export(chk)


def abi_consts_worker(args):
    """out-of-line ABI mode: enumerator values travel through ffiobj_init -> _cdl_realize_global_int -> realize_global_int;
    the obligation (every Python int in [-2**63, 2**64) comes back exactly) is the one of harness/C11.py"""
    from harness import C11
    return C11.c_worker((args[0], args[1], 'c-consts'))


def abi_enum_table_worker(args):
    """out-of-line ABI mode: the module's enum entry (recompiler.EnumExpr.as_python_expr -> ffiobj_init) denotes the integer
    type of the enum's size and signedness, for each of the 8 (size, signedness) rows: harness/C11.py's tables obligation"""
    from harness import C11
    return C11.tables_worker((args[0], args[1], 'tables', '0', False, args[3]))


def dispatch(args):
    if args[2] == 'abi-enum-table':
        return abi_enum_table_worker(args)
    return {'base': base_worker, 'values': values_worker, 'c': c_worker, 'api': api_worker, 'abi-consts': abi_consts_worker}[args[2]](args)


def run(chk):
    quick = chk.tier == 'quick'
    P = (chk.prop, chk.tier)
    cases = [P + ('base', k) for k in range(1, 3 if quick else 4)]
    NE = 3 if quick else 4
    for n in range(1, NE + 1):
        for pat in itertools.product([0, 1], repeat=n):
            cases.append(P + ('values', pat))
    cases += [P + ('c', n) for n in range(1, 4 if quick else 5)]
    cases.append(P + ('api',))
    cases.append(P + ('abi-consts',))
    for row in [(1, 0), (1, 1), (2, 0), (2, 1), (4, 0), (4, 1), (8, 0), (8, 1)]:
        cases.append(P + ('abi-enum-table', row))
    chk.bounds = {'underlying type': 'enums of 1..%d enumerators with arbitrary integer values' % (2 if quick else 3),
                  'values': 'every explicit/implicit pattern of <= %d enumerators, explicit values arbitrary' % NE,
                  'ffi.string': 'enums of <= %d enumerators with arbitrary (possibly duplicate) int values, any stored value' % (3 if quick else 4)}
    chk.bounds['out-of-line ABI mode'] = 'every enumerator value in [-2**63, 2**64) through the module\'s _globals unpacking; the enum entry for each of the 8 (size, signedness) rows'
    chk.bounds['API mode'] = '_cffi_prim_int(size, sign) / _cffi_prim_float(size) for every 64-bit size and every sign'
    chk.outside = ['that the C compiler evaluates sizeof(enum) and ((enum)-1) <= 0 as it lays the enum out (the compiler); enumerator values in API mode are C12\'s constants',
                   'explicit values given by expressions (C09)', 'enums declared with "..."']
    chk.assume('GCC chooses unsigned int, int, unsigned long, long in that order by sign and range')
    chk.assume('dict semantics: abstract association list keyed by int value / object identity')
    chk.functions = [{'name': 'EnumType.build_baseinttype', 'file': 'src/cffi/model.py'},
                     {'name': 'Parser._build_enum_type', 'file': 'src/cffi/cparser.py'}]
    irgen.backend()
    prim_module()
    hutil.run_cases(chk, cases, dispatch)
