"""C22 -- errno is passed to and from C calls and is thread-local.

llsym on b_set_errno, b_get_errno, save_errno_only, restore_errno_only and the real call brackets of
cdata_call (libffi path), invoke_callback, cffi_call_python and fetch_global_var_addr.
Model: errno is this thread's cell behind __errno_location(); cffi's saved value must be a
thread_local global in the IR (then it is this thread's cell too; a plain global would be shared and
is reported).  The environment *havocs errno* wherever other code of this thread can run: every
call that leaves cffi between the two halves of a bracket (GIL release/acquire, Python-level activity,
the interpreter between two statements).  Other threads never touch either cell (thread-local storage).
Obligations: the value given to ffi.errno is errno when the C function is entered; errno when the C
function returns is what ffi.errno returns next, for any errno values (0 included) and any havoc;
callbacks: Python sees C's errno at entry, C sees Python's at exit.
"""
import json
import z3
from vf import common, irgen, llsym, pystubs, hutil
from vf.llsym import bv, simp, mask, is_c
from vf.pystubs import W, V_const

REPLAY = r'''
# Replay for C22 against the real cffi build: set ffi.errno, clobber the C errno from Python, call C.
import sys, os, json, cffi
case = json.loads(%r)
ffi = cffi.FFI()
ffi.cdef("int snprintf(char *, size_t, const char *, ...); char *strerror(int);")
C = ffi.dlopen(None)
v, clobber = case['v'], case['clobber']
def c_sees():
    buf = ffi.new('char[200]')
    C.snprintf(buf, 200, b'%%m')
    return ffi.string(buf)
ffi.errno = v
if clobber:
    try: os.stat('/nonexistent-verif-c22')
    except OSError: pass
seen = c_sees()
want = ffi.string(C.strerror(v)) if v else b'Success'
bad = []
if seen != want:
    bad.append('ffi.errno = %%d, then C sees %%r (expected %%r)' %% (v, seen, want))
ffi.errno = v
if clobber:
    try: os.stat('/nonexistent-verif-c22')
    except OSError: pass
if ffi.errno != v:
    bad.append('ffi.errno = %%d reads back %%d' %% (v, ffi.errno))
for b in bad:
    print('VIOLATED:', b)
sys.exit(1 if bad else 0)
'''


def make_replay(chk):
    def replay(case):
        v = llsym.signed(case.get('v', 0), W) if 'v' in case else llsym.signed(case.get('E', 0), 32)
        if not (0 <= v < 130):
            v = 0 if v == 0 else 2
        path = chk.write_replay('errno', REPLAY % json.dumps({'v': v, 'clobber': True}))
        rc, out = common.run_replay(path)
        return common.replay_verdict(rc, out), path
    return replay


def worker(args):
    prop, tier, what = args
    chk = hutil.sub_check(prop, tier)
    mod = irgen.backend()
    L = pystubs.CffiLayout(mod)
    F = L.flags
    replay = make_replay(chk)
    label = what
    ex = llsym.Executor(mod, pystubs.stubs(), loop_bound=16)

    def h(ex):
        py = pystubs.PyEnv(ex)
        g = ex.ghost
        cell = ex.mem.alloc(4, 'errno of this thread', 'input')
        g['n'] = 0

        def havoc(tag):
            g['n'] += 1
            ex.mem.store(cell.base, z3.BitVec('errno_havoc_%s%d' % (tag, g['n']), 32), 4)

        def errno():
            return bv(ex.mem.load(cell.base, 4), 32)
        ex.stubs['__errno_location'] = lambda e: cell.base
        ex.stubs['PyEval_SaveThread'] = lambda e: (havoc('gil'), 0x77)[1]
        ex.stubs['PyEval_RestoreThread'] = lambda e, t: havoc('gil')
        ex.stubs['gil_ensure'] = lambda e: (havoc('gil'), 1)[1]
        ex.stubs['gil_release'] = lambda e, s: havoc('gil')
        ex.stubs['PyTuple_Size'] = lambda e, t: e.mem.load(simp(t) + 16, 8)
        gv, _ = ex.find_global('cffi_saved_errno')
        tl = gv is not None and gv.thread_local
        chk.query(label + ':saved-errno-is-thread-local-storage', 'unsat' if tl else 'sat', 0.0)
        if not tl:
            chk.report_failure('cffi_saved_errno is not thread_local in the compiled backend: threads would share it', {}, None, None)
        saved_addr = ex.gaddr('cffi_saved_errno')

        def saved():
            return bv(ex.mem.load(saved_addr, 4), 32)
        ex.mem.store(saved_addr, z3.BitVec('saved_before', 32), 4)
        ex.mem.store(cell.base, z3.BitVec('errno_before', 32), 4)

        if what == 'set-then-call':
            V = z3.BitVec('v', W)
            ex.assume(z3.And(V >= V_const(-(1 << 31)), V <= V_const((1 << 31) - 1)))
            r = simp(ex.call('b_set_errno', [0, py.new_int(V)]))
            hutil.witness(chk, ex, label)
            hutil.discharge(chk, ex, label + ':set_errno-accepts-int-range', (r != 0) and py.exc is None, {'v': V}, replay=replay)
            havoc('python')                      # arbitrary interpreter activity before the call
            ex.call('restore_errno_only', [])     # first half of every call bracket
            hutil.discharge(chk, ex, label + ':C-function-sees-the-assigned-errno', errno() == z3.Extract(31, 0, V), {'v': V}, replay=replay)
        elif what == 'call-then-get':
            E = z3.BitVec('E', 32)
            ex.mem.store(cell.base, E, 4)        # errno left by the C function
            ex.call('save_errno_only', [])        # second half of every call bracket
            havoc('python')
            r = simp(ex.call('b_get_errno', [0, 0]))
            hutil.witness(chk, ex, label)
            okk = is_c(r) and r != 0 and py.info(r)['kind'] == 'int'
            hutil.discharge(chk, ex, label + ':get_errno-succeeds', okk, {'E': E}, replay=replay)
            if okk:
                hutil.discharge(chk, ex, label + ':ffi.errno==errno-left-by-C', py.info(r)['V'] == z3.SignExt(W - 32, E), {'E': E}, replay=replay)
            # a second read gives the same value (reading does not lose it)
            havoc('python')
            r2 = simp(ex.call('b_get_errno', [0, 0]))
            hutil.discharge(chk, ex, label + ':reading-twice-gives-the-same', py.info(r2)['V'] == z3.SignExt(W - 32, E), {'E': E})
        elif what == 'set-out-of-range':
            V = z3.BitVec('v', W)
            ex.assume(z3.Or(V < V_const(-(1 << 31)), V > V_const((1 << 31) - 1)))
            before = saved()
            r = simp(ex.call('b_set_errno', [0, py.new_int(V)]))
            hutil.witness(chk, ex, label)
            hutil.discharge(chk, ex, label + ':rejected-with-OverflowError', (r == 0) and py.exc == 'PyExc_OverflowError', {'v': V})
            hutil.discharge(chk, ex, label + ':saved-value-unchanged', saved() == before, {'v': V})
        elif what == 'libffi-call-bracket':
            S = z3.BitVec('saved_before', 32)
            EC = z3.BitVec('errno_set_by_C', 32)
            seen = {}

            def ffi_call(e, cif, fn, rvalue, avalue):
                seen['entry'] = errno()
                e.mem.store(cell.base, EC, 4)
            ex.stubs['ffi_call'] = ffi_call
            void = pystubs.new_ctype(ex, L, mask(64), F['CT_VOID'])
            sig = py.new_tuple([py.new_int(V_const(2)), void])
            cifd = ex.mem.alloc(64, 'cif_description', 'heap', fill=0)
            ex.mem.store(cifd.base + 32, 16, 8)       # exchange_size
            ex.mem.store(cifd.base + 40, 8, 8)        # exchange_offset_arg[0]
            fct = pystubs.new_ctype(ex, L, 8, F['CT_FUNCTIONPTR'], stuff=sig, extra=cifd.base)
            fn = pystubs.new_cdata(ex, L, fct, 0x400000)
            r = simp(ex.call('cdata_call', [fn, py.new_tuple([]), 0]))
            hutil.witness(chk, ex, label)
            okk = 'entry' in seen and r == ex.gaddr('_Py_NoneStruct')
            hutil.discharge(chk, ex, label + ':call-performed', okk, {})
            if okk:
                hutil.discharge(chk, ex, label + ':errno-at-entry==saved-value', seen['entry'] == S, {'saved_before': S})
                hutil.discharge(chk, ex, label + ':saved-value==errno-at-return', saved() == EC, {'errno_set_by_C': EC})
        elif what in ('extern-python-unattached', 'extern-python-other-interpreter'):
            # extern "Python" function without code attached (in this interpreter): nothing of Python runs, zeros are returned --
            # and the C caller's errno is what it was
            EC = z3.BitVec('errno_before', 32)
            ran = []
            ex.stubs['general_invoke_callback'] = lambda e, *a: ran.append(1)
            ex.stubs['fprintf'] = lambda e, *a: 0          # the diagnostic on stderr (its errno effects are not the subject)
            ep = ex.mem.alloc(64, 'externpy', 'heap', fill=0)
            st = mod.struct_layout(('named', 'struct._cffi_externpy_s'))[0]
            if what == 'extern-python-other-interpreter':
                ex.mem.store(ep.base + st[2], py.new_opaque('another interp key'), 8)
                ex.stubs['_current_interp_key'] = lambda e: py.new_opaque('this interp key')
                ex.stubs['_update_cache_to_call_python'] = lambda e, x: 3
            argbuf = ex.mem.alloc(16, 'args', 'heap', fill=0)
            ex.call('cffi_call_python', [ep.base, argbuf.base])
            hutil.witness(chk, ex, label)
            hutil.discharge(chk, ex, label + ':no-python-code-runs', not ran, {})
            hutil.discharge(chk, ex, label + ':C-errno-unchanged-by-the-failed-call', errno() == EC, {'errno_before': EC})
        elif what in ('callback-bracket', 'extern-python-bracket'):
            EC = z3.BitVec('errno_before', 32)          # C's errno when it invokes the callback
            PV = z3.BitVec('errno_assigned_in_python', 32)
            seen = {}

            def general(e, *a):
                seen['python-sees'] = saved()       # what ffi.errno would return inside the callback
                havoc('python')
                e.mem.store(saved_addr, PV, 4)     # the Python code assigns ffi.errno (b_set_errno saves it)
                havoc('python')
            ex.stubs['general_invoke_callback'] = general
            if what == 'callback-bracket':
                ex.call('invoke_callback', [0, 0, 0, 0])
            else:
                ep = ex.mem.alloc(64, 'externpy', 'heap', fill=0)
                key = py.new_opaque('interp key')
                st = mod.struct_layout(('named', 'struct._cffi_externpy_s'))[0]
                ex.mem.store(ep.base + st[2], key, 8)      # reserved1
                ex.mem.store(ep.base + st[3], py.new_opaque("infotuple"), 8)
                ex.stubs['_current_interp_key'] = lambda e: key
                argbuf = ex.mem.alloc(16, 'args', 'heap', fill=0)
                ex.call('cffi_call_python', [ep.base, argbuf.base])
            hutil.witness(chk, ex, label)
            okk = 'python-sees' in seen
            hutil.discharge(chk, ex, label + ':python-code-invoked', okk, {})
            if okk:
                hutil.discharge(chk, ex, label + ':python-sees-C-errno-at-entry', seen['python-sees'] == EC, {'errno_before': EC})
                hutil.discharge(chk, ex, label + ':C-sees-python-errno-at-exit', errno() == PV, {'errno_assigned_in_python': PV})
        else:   # global variable fetch
            S = z3.BitVec('saved_before', 32)
            EC = z3.BitVec('errno_set_by_fetch', 32)
            seen = {}

            def fetch(e):
                seen['entry'] = errno()
                e.mem.store(cell.base, EC, 4)
                return 0x500000
            ex.stubs['verif_fetch_addr'] = fetch
            gs = py.new_obj('globsupport', 'GlobSupport_Type', 48)
            ex.mem.store(gs + 16, py.new_unicode([ord('v')], 1), 8)
            ex.mem.store(gs + 32, 0, 8)
            ex.mem.store(gs + 40, ex.faddr('verif_fetch_addr'), 8)
            r = simp(ex.call('fetch_global_var_addr', [gs]))
            hutil.witness(chk, ex, label)
            okk = 'entry' in seen and r == 0x500000
            hutil.discharge(chk, ex, label + ':fetch-performed', okk, {})
            if okk:
                hutil.discharge(chk, ex, label + ':errno-at-entry==saved-value', seen['entry'] == S, {'saved_before': S})
                hutil.discharge(chk, ex, label + ':saved-value==errno-at-return', saved() == EC, {'errno_set_by_fetch': EC})

    def on_oob(ex2, what_, model):
        chk.report_failure('%s: access outside this thread\'s cells: %s' % (label, what_), {}, None, None)
    ex.on_oob = on_oob
    res = ex.explore(h, max_paths=500)
    hutil.finish_explore(chk, ex, res, label)
    chk.functions = irgen.func_info(mod, sorted(ex.called))
    return hutil.export(chk)


def run(chk):
    P = (chk.prop, chk.tier)
    cases = [P + (w,) for w in ('set-then-call', 'call-then-get', 'set-out-of-range', 'libffi-call-bracket', 'callback-bracket',
                                'extern-python-bracket', 'extern-python-unattached', 'extern-python-other-interpreter',
                                'global-variable-fetch')]
    chk.bounds = {'errno values': 'every 32-bit value (0 included); ffi.errno assignments of any Python int',
                  'environment': 'errno havocked at every GIL release/acquire and during Python-level activity',
                  'call paths': ['libffi cdata_call', 'ffi.callback invoke_callback', 'extern "Python" cffi_call_python', 'global variable fetch']}
    chk.outside = ['the generated API-mode wrappers (they call the same _cffi_restore_errno/_cffi_save_errno exports: checked structurally '
                   'under C13)', 'interleavings of several threads: both cells are thread-local storage, so another thread cannot reach them '
                   '(the OS/compiler contract of __thread and errno)']
    chk.assume('__thread variables and errno are per-thread (compiler/libc contract); within a bracket only the calls present in the IR run')
    irgen.backend()
    hutil.run_cases(chk, cases, worker)
