"""C31 -- comments, spacing, continuations and line directives do not change a cdef's meaning.

Proxy symbolic execution of the real cparser._preprocess (and the helpers it calls: _remove_line_directives,
_put_back_line_directives, _preprocess_extern_python, _warn_for_string_literal) on *symbolic source text*:
a base cdef is a list of lines of tokens; between two chosen tokens a separator of a given kind is inserted
whose characters are solver variables (any character the kind allows):

   blanks        1..2 characters of [ \\t\\n\\r\\f\\v]           (only [ \\t] inside a #define line)
   block         /* + 0..3 arbitrary characters without "*/" + */   (inside a #define line: no newline allowed? see below)
   line          // + 0..3 arbitrary characters (no newline, not ending in a backslash) + newline   (not inside a #define line)
   continuation  backslash-newline                               (inside a #define line)
   directive     newline # N "name" newline with symbolic digits and name characters   (between lines)

The module's regular expressions are replaced by SymRegex objects (Thompson NFA of the *same compiled pattern*
simulated over the symbolic characters; finditer/sub choose the match end by a per-pattern policy) and the
string constants of the functions are lifted so that %-formatting, ''.join and `in` accept symbolic strings;
the bytecode executed is the working tree's.  Every run first validates the SymRegex translation of every
pattern against the real `re` module on concrete mutated sources (translator validation).

Obligation: for every separator content, _preprocess(variant) has the same tokens (outside line-directive
lines) and the same macros as _preprocess(base).
"""
import os, sys, json, re, random
import z3
from vf import common, llsym, hutil, pysym, symstr
from vf.symstr import SymStr, SymRegex

BASES = {
    'define+func': [('#', 'define', 'FOO', '42'), ('int', 'f', '(', 'int', ',', '...', ')', ';')],
    'struct+enum': [('typedef', 'struct', '{', 'int', 'a', ';', '...', ';', '}', 's_t', ';'), ('enum', 'e', '{', 'A', ',', 'B', '=', '...', ',', '...', '}', ';')],
    'arrays': [('int', 'a', '[', '...', ']', ';'), ('typedef', 'int', '...', 'my_t', ';'), ('#', 'define', 'N', '0x10')],
    'externpy': [('extern', '"Python"', 'int', 'cb', '(', 'int', ')', ';'), ('long', '*', 'const', 'p', ';')],
}

REPLAY = r'''
# Replay for C31 on the real build: the cdef with and without the inserted text must give the same declarations
# and the same generated source.
import sys, json
import cffi
from cffi import recompiler
case = json.loads(%r)
def build(src):
    ffi = cffi.FFI()
    ffi.cdef(src)
    decls = sorted((k, repr(v)) for k, v in ffi._parser._declarations.items())
    consts = sorted(ffi._parser._int_constants.items())
    import tempfile, os
    try:
        ffi.set_source('_x', None)
        fd, path = tempfile.mkstemp(suffix='.py'); os.close(fd)
        ffi.emit_python_code(path)
        code = open(path).read(); os.unlink(path)
    except Exception as e:
        code = 'emit: ' + type(e).__name__
    return decls, consts, code
try:
    a = build(case['base'])
except Exception as e:
    print('HARNESS: the base cdef does not parse:', e); sys.exit(3)
try:
    b = build(case['variant'])
except Exception as e:
    print('VIOLATED: cdef with inserted %%r fails: %%s: %%s' %% (case['inserted'], type(e).__name__, str(e)[:200])); sys.exit(1)
if a != b:
    print('VIOLATED: inserting %%r changes the declarations / generated code' %% (case['inserted'],)); sys.exit(1)
sys.exit(0)
'''

POLICIES = {'_r_comment': 'shortest', '_r_define': 'shortest', '_r_line_directive': 'longest', '_r_partial_enum': 'shortest',
            '_r_partial_array': 'shortest', '_r_stdcall1': 'shortest', '_r_stdcall2': 'shortest', '_r_cdecl': 'shortest',
            '_r_extern_python': 'longest', '_r_int_dotdotdot': 'longest', '_r_float_dotdotdot': 'longest', '_r_words': 'longest'}


def render(lines, sep_at=None, sep=None):
    """text of the base; gap (li, ti) = before token ti of line li (ti == 0: between lines)"""
    out = []
    for li, line in enumerate(lines):
        for ti, tok in enumerate(line):
            if (li, ti) == sep_at:
                if ti == 0:
                    out.append('\n')         # the previous line always ends; the separator comes on top of that
                out.append(sep)
            elif ti > 0:
                out.append(' ')
            elif li > 0:
                out.append('\n')
            out.append(tok)
    out.append('\n')
    return out


def define_groups(m):
    """(name, value) of a '#define' match: mirrors the two capture groups of _r_define"""
    s = m.group()
    if isinstance(s, str):
        return cparser_mod()._verif_orig['_r_define'].match(s).groups()
    ex = s.ex
    chars = s.chars
    i = 0
    is_ws = lambda c: s._in_set(c, symstr.WS)
    while is_ws(chars[i]):
        i += 1
    i += 1                                  # '#'
    while is_ws(chars[i]):
        i += 1
    i += 6                                  # 'define'
    while is_ws(chars[i]):
        i += 1
    j = i
    word = lambda c: s._in_set(c, tuple(range(48, 58)) + tuple(range(65, 91)) + tuple(range(97, 123)) + (95,))
    while j < len(chars) and word(chars[j]):
        j += 1
    return s[i:j], s[j:]


def externpy_groups(m):
    s = m.group()
    if isinstance(s, str):
        return cparser_mod()._verif_orig['_r_extern_python'].match(s).groups()
    a = s.find('"')
    b = s.find('"', a + 1)
    return (s[a + 1:b],)


_cp = None


def cparser_mod():
    global _cp
    if _cp is None:
        sys.path.insert(0, os.path.join(common.REPO, 'src'))
        for k in [k for k in sys.modules if k == 'cffi' or k.startswith('cffi.')]:
            del sys.modules[k]
        from cffi import cparser
        cparser._verif_orig = dict((n, getattr(cparser, n)) for n in POLICIES)
        for n, pol in POLICIES.items():
            groups = define_groups if n == '_r_define' else (externpy_groups if n == '_r_extern_python' else None)
            setattr(cparser, n, SymRegex(cparser._verif_orig[n], end_policy=pol, groups=groups))
        for fn in ('_preprocess', '_remove_line_directives', '_put_back_line_directives', '_preprocess_extern_python',
                   '_warn_for_string_literal'):
            setattr(cparser, fn, symstr.lift_consts(getattr(cparser, fn)))
        import warnings
        warnings.simplefilter('ignore')
        _cp = cparser
    return _cp


def tokens(ex, text):
    """whitespace-separated pieces, dropping the lines that start with '#' (line directives put back)"""
    lines = text.splitlines() if isinstance(text, (str, SymStr)) else []
    out = []
    for ln in lines:
        st = ln.lstrip() if isinstance(ln, (str, SymStr)) else ln
        if isinstance(st, SymStr):
            if st.startswith('#'):
                continue
        elif st.startswith('#'):
            continue
        out.extend(ln.split())
    return out


def same_tokens(a, b):
    if len(a) != len(b):
        return z3.BoolVal(False)
    conds = []
    for x, y in zip(a, b):
        cx = x.chars if isinstance(x, SymStr) else [ord(c) for c in x]
        cy = y.chars if isinstance(y, SymStr) else [ord(c) for c in y]
        if len(cx) != len(cy):
            return z3.BoolVal(False)
        for p, q in zip(cx, cy):
            if isinstance(p, int) and isinstance(q, int):
                if p != q:
                    return z3.BoolVal(False)
            else:
                conds.append(llsym.bv(p, symstr.CW) == llsym.bv(q, symstr.CW))
    return z3.And(*conds) if conds else z3.BoolVal(True)


def norm_macros(ex, macros):
    out = {}
    for k, v in macros.items():
        out[str(k) if not isinstance(k, SymStr) else k] = v.split() if isinstance(v, (str, SymStr)) else v
    return out


def separator(ex, kind, n, in_directive):
    """(list of chars, description): the inserted text; symbolic characters are constrained to what `kind` allows"""
    C = lambda ch: ord(ch)
    fresh = lambda name: z3.BitVec(name, symstr.CW)
    cs = []
    if kind == 'blanks':
        for i in range(n):
            c = fresh('ws%d' % i)
            allowed = (32, 9) if in_directive else (32, 9, 10, 13, 12, 11)
            ex.add_definition(z3.Or(*[c == a for a in allowed]))
            cs.append(c)
    elif kind == 'block':
        body = [fresh('cb%d' % i) for i in range(n)]
        for c in body:
            ex.add_definition(z3.And(z3.ULT(c, 128), c != 0, c != C('"')))
        for a, b in zip(body, body[1:]):
            ex.add_definition(z3.Not(z3.And(a == C('*'), b == C('/'))))
        cs = [C(' '), C('/'), C('*')] + body + [C('*'), C('/'), C(' ')]
    elif kind == 'line':
        body = [fresh('cl%d' % i) for i in range(n)]
        for c in body:
            ex.add_definition(z3.And(z3.ULT(c, 128), c != 0, c != 10, c != C('"')))
        if body:
            ex.add_definition(body[-1] != C('\\'))
        cs = [C(' '), C('/'), C('/')] + body + [10]
    elif kind == 'continuation':
        cs = [C(' '), C('\\'), 10, C(' ')]
    elif kind == 'directive':
        d = fresh('digit')
        ex.add_definition(z3.And(d >= 48, d <= 57))
        name = [fresh('fn%d' % i) for i in range(n)]
        for c in name:
            ex.add_definition(z3.And(z3.ULT(c, 128), z3.UGE(c, 32), c != C('"')))
        cs = [10, C('#'), C(' '), d, C(' '), C('"')] + name + [C('"'), 10]
    else:
        raise ValueError(kind)
    return cs


def worker(args):
    prop, tier, what, base_name, gap, kind, n = args
    chk = hutil.sub_check(prop, tier)
    cp = cparser_mod()
    lines = BASES[base_name]
    li, ti = gap
    in_directive = lines[li][0] == '#' and ti > 0
    label = '%s:gap-before-%r(line %d):%s-%d' % (base_name, lines[li][ti], li, kind, n)
    ex = pysym.PyExplorer()
    base_text = ''.join(render(lines))
    base_out, base_macros = cp._preprocess(base_text)

    def replay(case):
        m = case['_model']
        ins = ''.join(chr(c if isinstance(c, int) else m.eval(c, model_completion=True).as_long()) for c in case['_sep'])
        variant = ''.join(x if isinstance(x, str) else ins for x in render(lines, gap, None))
        path = chk.write_replay('insert', REPLAY % json.dumps({'base': base_text, 'variant': variant, 'inserted': ins}))
        rc, out = common.run_replay(path)
        return common.replay_verdict(rc, out), path

    def h(ex):
        sep = separator(ex, kind, n, in_directive)
        chars = []
        for piece in render(lines, gap, None):
            if piece is None:
                chars.extend(sep)
            else:
                chars.extend(ord(c) for c in piece)
        src = SymStr(ex, chars)
        try:
            out, macros = cp._preprocess(src)
            outcome = 'ok'
        except (llsym.PathEnd, llsym.Unsupported, llsym.UnwindBound):
            raise
        except Exception as e:
            outcome = 'raises:%s' % type(e).__name__
        hutil.witness(chk, ex, label)
        inputs = dict((str(c), c) for c in sep if not isinstance(c, int))

        def decide_obligation(name, cond):
            import time
            t0 = time.time()
            m = ex.sat(llsym.b_not(cond))
            if m is None:
                chk.query(name, 'unsat', time.time() - t0)
                return
            chk.query(name, 'sat', time.time() - t0)
            ok, script = replay({'_model': m, '_sep': sep})
            ins = ''.join(chr(c if isinstance(c, int) else m.eval(c, model_completion=True).as_long()) for c in sep)
            tags = {}
            for tag, pred in TAGS:
                if pred(base_name, lines, gap, kind, ins):
                    tags[tag] = True
                    break
            chk.report_failure('%s: inserting %r' % (name, ins), tags, script, ok)
        if outcome != 'ok':
            decide_obligation(label + ':preprocess-does-not-raise(%s)' % outcome, z3.BoolVal(False))
            return
        decide_obligation(label + ':same-tokens', same_tokens(tokens(ex, out), tokens(ex, base_out)))
        nm, bm = norm_macros(ex, macros), norm_macros(ex, base_macros)
        okm = set(nm) == set(bm)
        cond = z3.BoolVal(okm)
        if okm:
            cond = z3.And(*[same_tokens(nm[k], bm[k]) for k in nm]) if nm else z3.BoolVal(True)
        decide_obligation(label + ':same-macros', cond)

    res = ex.explore(h, max_paths=20000, time_limit=1500)
    hutil.finish_explore(chk, ex, res, label)
    chk.functions = [{'name': f, 'file': 'src/cffi/cparser.py'} for f in ('_preprocess', '_remove_line_directives', '_put_back_line_directives',
                                                                            '_preprocess_extern_python', '_warn_for_string_literal')]
    return hutil.export(chk)


def validate_worker(args):
    """translator validation: SymRegex (NFA + end policy) == the real re, on concrete mutated cdef sources"""
    prop, tier, what, name = args
    chk = hutil.sub_check(prop, tier)
    cp = cparser_mod()
    rnd = random.Random(31 + sum(map(ord, name)))
    rx = getattr(cp, name)
    samples = []
    alpha = ' \t\n/*\\#"(){}[],;=.aZ_09-'
    seeds = [''.join(render(b)) for b in BASES.values()] + ['#define A 1 /* c */\n# 12 "x.h"\nint __stdcall f(int WINAPI);\n// x \\\n y\n',
                                                            'extern "Python+C" { int g(void); }\nunsigned long int ... t;\nfloat ... u;\nint(__cdecl *h)();\n']
    for _ in range(400 if tier == 'quick' else 2000):
        t = list(rnd.choice(seeds))
        for _ in range(rnd.randrange(0, 5)):
            op = rnd.random()
            pos = rnd.randrange(0, len(t) + 1)
            if op < 0.5:
                t.insert(pos, rnd.choice(alpha))
            elif op < 0.8 and t:
                t[min(pos, len(t) - 1)] = rnd.choice(alpha)
            elif t:
                del t[min(pos, len(t) - 1)]
        a = rnd.randrange(0, len(t))
        samples.append(''.join(t[a:a + rnd.randrange(4, 60)]))
    bad = rx.validate(samples)
    chk.translator_validation['samples'] += len(samples)
    chk.translator_validation['disagreements'] += len(bad)
    chk.query('translator:%s:%d-samples-agree-with-re' % (name, len(samples)), 'unsat' if not bad else 'sat', 0.0)
    if bad:
        chk.harness_error('SymRegex disagrees with re for %s on %r: re %r, model %r' % (name, bad[0][0], bad[0][1], bad[0][2]))
    # group extractors
    if name in ('_r_define', '_r_extern_python'):
        fn = define_groups if name == '_r_define' else externpy_groups
        nb = 0
        for text in samples:
            for m in cp._verif_orig[name].finditer(text):
                class _E(object):
                    def decide(self, c):
                        c = z3.simplify(c) if not isinstance(c, bool) else c
                        return c if isinstance(c, bool) else z3.is_true(c)
                sm = symstr.SymMatch(rx, SymStr(_E(), [ord(ch) for ch in text]), m.start(), m.end())
                sm.group = lambda *a, _s=SymStr(_E(), [ord(ch) for ch in m.group()]): _s
                got = tuple(g if isinstance(g, str) else ''.join(chr(c) for c in g.chars) for g in fn(sm))
                if got != m.groups():
                    nb += 1
        chk.query('translator:%s:groups-agree-with-re' % name, 'unsat' if not nb else 'sat', 0.0)
        if nb:
            chk.harness_error('group extractor of %s disagrees with re on %d matches' % (name, nb))
    return hutil.export(chk)


def dispatch(args):
    return validate_worker(args) if args[2] == 'validate' else worker(args)


def _define_line(lines, gap):
    return lines[gap[0]][0] == '#' and gap[1] > 0


def _directive_like_line_in_comment(ins):
    return re.search(r'(?m)^[ \t]*#[ \t]*(?:line|\d+)\b', ins[ins.find('/*') + 2:]) is not None


# known-finding classes (see known_findings.jsonl)
TAGS = [
    ('directive_like_line_inside_block_comment', lambda base, lines, gap, kind, ins: kind == 'block' and '\n' in ins and _directive_like_line_in_comment(ins)),
    ('newline_in_block_comment_inside_define', lambda base, lines, gap, kind, ins: kind == 'block' and _define_line(lines, gap) and gap[1] == 3 and '\n' in ins),
    ('continuation_between_define_and_name', lambda base, lines, gap, kind, ins: kind == 'continuation' and _define_line(lines, gap) and gap[1] == 2),
]


def run(chk):
    quick = chk.tier == 'quick'
    P = (chk.prop, chk.tier)
    cp = cparser_mod()
    cases = [P + ('validate', n) for n in POLICIES]
    for base_name, lines in BASES.items():
        gaps = [(li, ti) for li, line in enumerate(lines) for ti in range(len(line)) if (li, ti) != (0, 0)]
        for gap in gaps:
            li, ti = gap
            in_dir = lines[li][0] == '#' and ti > 0
            BL = (0, 1, 2) if quick else (0, 1, 2, 3, 4)       # comment body lengths (0: the empty comment /**/)
            if ti == 0:
                kinds = [('blanks', 2), ('directive', 2)] + [('block', k) for k in BL[:3]] + [('line', k) for k in BL[:3]]
            elif in_dir:
                kinds = [('blanks', 2), ('continuation', 0)] + [('block', k) for k in BL[:3]]
            else:
                kinds = [('blanks', 2)] + [('block', k) for k in BL] + [('line', k) for k in BL]
            if lines[li][0] == '#' and ti == 1:
                kinds = [('blanks', 2)]           # between '#' and 'define': blanks only (a comment there is legal C but unusual)
            for kind, n in kinds:
                cases.append(P + ('insert', base_name, gap, kind, n))
    chk.bounds = {'base cdefs': '%d token lists (#define, functions with ..., partial struct/enum, [...] arrays, int... typedefs, extern "Python", qualifiers)' % len(BASES),
                  'insertion': 'one separator at every token gap; blanks of 2 characters, comment bodies of 0..%d arbitrary characters, continuation, line directive with symbolic digit/name' % (2 if quick else 4)}
    chk.outside = ['pycparser itself (the comparison is on the token stream handed to it) and everything after _preprocess',
                   'several insertions at once; longer comment bodies; non-ASCII characters; string literals inside comments ("\\"" excluded: it only triggers a warning)',
                   'comments between "#" and "define"; _workaround_for_old_pycparser (pycparser < 2.14 only)']
    chk.assume('SymRegex = Thompson NFA of the same compiled pattern + a per-pattern end policy, validated against re each run; '
               'group extractors for _r_define and _r_extern_python validated the same way')
    hutil.run_cases(chk, cases, dispatch)
