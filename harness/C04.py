"""C04 -- ffi.cast to integer and character types follows C conversion rules.

llsym on do_cast / cast_to_integer_or_char / _my_PyLong_AsUnsignedLongLong(strict=0) /
_my_PyObject_AsBool / _convert_to_char / _my_PyUnicode_AsSingleChar32 / write_raw_integer_data,
and the pointer branch of do_cast for the intptr round trip.
Symbolic: the source value (Python int of any magnitude, any finite double, bool, 1-byte bytes,
1-character str of any storage kind, pointer-like cdata at any address).  Concrete: target type.
"""
import json
import z3
from vf import common, irgen, llsym, pystubs, hutil
from vf.llsym import bv, simp, mask, is_c
from vf.pystubs import W, V_const

TARGETS = [('signed', 1), ('signed', 2), ('signed', 4), ('signed', 8), ('unsigned', 1), ('unsigned', 2),
           ('unsigned', 4), ('unsigned', 8), ('bool', 1), ('char', 1), ('char', 2), ('char', 4), ('swchar', 4)]
SOURCES = ['int', 'float', 'pybool', 'bytes1', 'str1-latin1', 'str1-ucs2', 'str1-ucs4', 'pointer']
TNAME = {('signed', 1): 'signed char', ('signed', 2): 'short', ('signed', 4): 'int', ('signed', 8): 'long long',
         ('unsigned', 1): 'unsigned char', ('unsigned', 2): 'unsigned short', ('unsigned', 4): 'unsigned int',
         ('unsigned', 8): 'unsigned long long', ('bool', 1): '_Bool', ('char', 1): 'char', ('char', 2): 'char16_t',
         ('char', 4): 'char32_t', ('swchar', 4): 'wchar_t'}

REPLAY = r'''
# Replay for C04 against the real cffi build.
import sys, json, struct, cffi
case = json.loads(%r)
ffi = cffi.FFI()
tname, size, signed, isbool, src = case['tname'], case['size'], case['signed'], case['bool'], case['source']
if src == 'int':
    x = case['v']; num = x
elif src == 'float':
    x = struct.unpack('<d', struct.pack('<Q', case['bits']))[0]; num = int(x)
elif src == 'pybool':
    x = bool(case['v']); num = int(x)
elif src == 'bytes1':
    x = bytes([case['v']]); num = case['v']
elif src.startswith('str1'):
    x = chr(case['v']); num = case['v']
else:
    x = ffi.cast('char *', case['v']); num = case['v']
r = ffi.cast(tname, x)
got = int.from_bytes(bytes(ffi.buffer(ffi.new(tname + '*', r)) if False else ffi.buffer(ffi.addressof(ffi.new(tname + '[1]', [r])[0:1], 0), size)), 'little') if False else None
p = ffi.new(tname + '[1]')
p[0] = r
raw = int.from_bytes(bytes(ffi.buffer(p)), 'little')
want = (1 if num != 0 else 0) if isbool else num %% (1 << (8 * size))
if isbool and src == 'float':
    want = 1 if x != 0.0 else 0
bad = []
if raw != want:
    bad.append('cast(%%r, %%r) stores %%#x, C conversion gives %%#x' %% (tname, x, raw, want))
if src == 'pointer':
    back = ffi.cast('char *', ffi.cast('uintptr_t', x))
    if int(ffi.cast('uintptr_t', back)) != case['v']:
        bad.append('pointer -> uintptr_t -> pointer changed the address')
for b in bad:
    print('VIOLATED:', b)
sys.exit(1 if bad else 0)
'''


def make_replay(chk):
    def replay(case):
        path = chk.write_replay('%s-%s' % (case['tname'].replace(' ', '_'), case['source']), REPLAY % json.dumps(case))
        rc, out = common.run_replay(path)
        return common.replay_verdict(rc, out), path
    return replay


def float_trunc_payload(F):
    """128-bit representative of trunc(double): exact below 2**126 in magnitude, otherwise +-2**126 (same
    sign class, low 64 bits zero like every such double's integer value)"""
    f = z3.fpBVToFP(F, z3.Float64())
    big = z3.fpGEQ(z3.fpAbs(f), z3.FPVal(2.0 ** 126, z3.Float64()))
    exact = z3.fpToSBV(z3.RTZ(), f, z3.BitVecSort(W))
    return z3.If(big, z3.If(z3.fpIsNegative(f), V_const(-(1 << 126)), V_const(1 << 126)), exact)


def target_flags(F, kind, size):
    if kind == 'signed':
        return F['CT_PRIMITIVE_SIGNED'] | F['CT_PRIMITIVE_FITS_LONG']
    if kind == 'unsigned':
        return F['CT_PRIMITIVE_UNSIGNED'] | (F['CT_PRIMITIVE_FITS_LONG'] if size < 8 else 0)
    if kind == 'bool':
        return F['CT_PRIMITIVE_UNSIGNED'] | F['CT_IS_BOOL'] | F['CT_PRIMITIVE_FITS_LONG']
    fl = F['CT_PRIMITIVE_CHAR'] | F['CT_PRIMITIVE_FITS_LONG']
    if kind == 'swchar':
        fl |= F['CT_IS_SIGNED_WCHAR']
    return fl


def worker(args):
    prop, tier, kind, size, source = args
    chk = hutil.sub_check(prop, tier)
    mod = irgen.backend()
    L = pystubs.CffiLayout(mod)
    F = L.flags
    replay = make_replay(chk)
    label = '%s%d<-%s' % (kind, size, source)

    def float_nb_int(ex, o):
        p = pystubs.py(ex)
        bits = ex.mem.load(simp(o) + 16, 8)
        f = z3.fpBVToFP(bv(bits, 64), z3.Float64())
        if ex.decide(z3.Or(z3.fpIsNaN(f), z3.fpIsInf(f))):
            p.exc = 'PyExc_ValueError' if ex.decide(z3.fpIsNaN(f)) else 'PyExc_OverflowError'
            return 0
        return p.new_int(float_trunc_payload(bv(bits, 64)))

    def float_nb_float(ex, o):
        return o
    st = pystubs.stubs(verif_float_nb_int=float_nb_int, verif_float_nb_float=float_nb_float)
    ex = llsym.Executor(mod, st, loop_bound=16, solver_timeout_ms=120000)

    def h(ex):
        py = pystubs.PyEnv(ex)
        # float objects need nb_int (CPython: float.__int__ truncates toward zero)
        ftp = ex.gaddr('PyFloat_Type')
        nb = ex.mem.alloc(36 * 8, 'float number methods', 'global', fill=0)
        ex.mem.store(nb.base + 16 * 8, ex.faddr('verif_float_nb_int'), 8)
        ex.mem.store(nb.base + 17 * 8 + 8, ex.faddr('verif_float_nb_float'), 8)   # nb_float (index 18)
        ex.mem.store(ftp + 96, nb.base, 8)
        ct = pystubs.new_ctype(ex, L, size, target_flags(F, kind, size))
        inputs = {}
        extra = {'tname': TNAME[(kind, size)], 'size': size, 'signed': kind in ('signed', 'swchar'), 'bool': kind == 'bool',
                 'source': source}
        if source == 'int':
            V = z3.BitVec('v', W)
            ob = py.new_int(V)
            num = V
            inputs['v'] = V
        elif source == 'float':
            B = z3.BitVec('bits', 64)
            f = z3.fpBVToFP(B, z3.Float64())
            ex.assume(z3.Not(z3.Or(z3.fpIsNaN(f), z3.fpIsInf(f))))
            ob = py.new_float(B)
            num = float_trunc_payload(B)
            inputs['bits'] = B
        elif source == 'pybool':
            b = ex.decide(z3.Bool('flag'))
            ob = py.new_bool(b)
            num = V_const(1 if b else 0)
            extra['v'] = 1 if b else 0
        elif source == 'bytes1':
            c = z3.BitVec('v', 8)
            ob = py.new_bytes([c])
            num = z3.ZeroExt(W - 8, c)
            inputs['v'] = c
        elif source.startswith('str1'):
            sk = {'latin1': 1, 'ucs2': 2, 'ucs4': 4}[source.split('-')[1]]
            c = z3.BitVec('v', 8 * sk)
            if sk == 4:
                ex.assume(z3.ULE(c, 0x10FFFF))
            ob = py.new_unicode([c], (1, 'latin1') if sk == 1 else sk)
            num = z3.ZeroExt(W - 8 * sk, c)
            inputs['v'] = c
        else:
            A = z3.BitVec('v', 64)
            item = pystubs.new_ctype(ex, L, 1, F['CT_PRIMITIVE_CHAR'])
            pt = pystubs.new_ctype(ex, L, 8, F['CT_POINTER'], itemdescr=item)
            ob = pystubs.new_cdata(ex, L, pt, A)
            num = z3.ZeroExt(64, A)
            inputs['v'] = A

        def rp(case):
            c = dict(case)
            if source == 'int':
                c['v'] = llsym.signed(c['v'], W)
            return replay(c)
        kw = dict(inputs=inputs, replay=rp, extra_case=extra)
        r = simp(ex.call('do_cast', [ct, ob]))
        okk = is_c(r) and r != 0 and py.exc is None
        m = hutil.witness(chk, ex, label)
        hutil.discharge(chk, ex, label + ':cast-succeeds', okk, **kw)
        if not okk:
            return
        data = simp(ex.mem.load(r + 24, 8))
        stored = bv(ex.mem.load(data, size), 8 * size)
        if kind == 'bool':
            if source == 'float':
                nz = z3.Not(z3.fpIsZero(z3.fpBVToFP(inputs['bits'], z3.Float64())))
            else:
                nz = num != 0
            want = z3.If(nz, z3.BitVecVal(1, 8), z3.BitVecVal(0, 8))
        else:
            want = z3.Extract(8 * size - 1, 0, num)
        hutil.discharge(chk, ex, label + ':stored==value-mod-2^bits', stored == want, **kw)
        hutil.discharge(chk, ex, label + ':result-type', simp(ex.mem.load(r + 16, 8)) == ct, **kw)
        if source == 'pointer' and kind == 'unsigned' and size == 8:
            # cast(T*, cast(uintptr_t, p)) has the same address
            py.objs[r]['kind'] = 'cdata'
            r2 = simp(ex.call('do_cast', [pt, r]))
            ok2 = is_c(r2) and r2 != 0 and py.exc is None
            hutil.discharge(chk, ex, label + ':back-to-pointer-succeeds', ok2, **kw)
            if ok2:
                hutil.discharge(chk, ex, label + ':round-trip-address', bv(ex.mem.load(r2 + 24, 8), 64) == inputs['v'], **kw)

    def on_oob(ex, what_, model):
        chk.report_failure('%s: stray memory access: %s' % (label, what_), {}, None, None)
    ex.on_oob = on_oob
    res = ex.explore(h, max_paths=5000)
    hutil.finish_explore(chk, ex, res, label)
    chk.functions = irgen.func_info(mod, sorted(ex.called))
    return hutil.export(chk)


def run(chk):
    P = (chk.prop, chk.tier)
    cases = [P + (k, s, src) for (k, s) in TARGETS for src in SOURCES]
    chk.bounds = {'targets': [TNAME[t] for t in TARGETS], 'sources': SOURCES, 'python int': 'any magnitude',
                  'float': 'every finite double', 'str': 'any single code point of each storage kind', 'pointer': 'any address'}
    chk.outside = ['cdata sources of primitive type (go through convert_to_object first)', 'objects with __int__/__float__ protocols',
                   'function objects (try_extract_directfnptr)']
    chk.assume('float.__int__ truncates toward zero (CPython); its result is represented by a 128-bit value that is exact '
               'below 2**126 and otherwise +-2**126 (same low 64 bits and sign class as the true integer)')
    chk.assume('CPython contracts of vf/pystubs.py')
    irgen.backend()
    hutil.run_cases(chk, cases, worker)
