"""C11 -- out-of-line ABI module is equivalent to the in-line FFI (the serialisation codec).

The whole statement (module equivalence over random cdefs) is not encodable; decided here is the codec
every declaration goes through:
  opcode : Python CffiOp.as_python_bytes / format_four_bytes (pysym; the byte expressions are taken from
           the function's AST) against C cdl_4bytes / cdl_opcode (llsym): decode(encode(op,arg)) == (op,arg)
           for every op < 256 and arg < 2**23, big-endian, and LEN entries >= 2**31 are refused;
  consts : the integer constants of the module (ffiobj_init's globals loop + _cdl_realize_global_int +
           realize_global_int): for every Python int in [-2**63, 2**64) the value handed back by
           ffi.integer_const / lib.X is the value that was serialised.
"""
import os, sys, json, ast, inspect
import z3
from vf import common, irgen, llsym, pysym, pystubs, hutil
from vf.llsym import bv, simp, mask, is_c
from vf.pystubs import W, V_const

REPLAY = r'''
# Replay for C11: an integer constant through an out-of-line ABI module vs the in-line FFI.
import sys, os, json, tempfile, importlib
import cffi
case = json.loads(%r)
v = case['v']
lit = ('%%d' %% v) if v >= 0 else '(-%%d - 1)' %% (-v - 1)
ffi = cffi.FFI()
ffi.cdef('#define X %%s\n' %% (('%%d' %% v) if v >= 0 else ('-%%d' %% -v)))
inline = ffi.integer_const('X')
d = tempfile.mkdtemp()
ffi.set_source('_c11_replay', None)
ffi.emit_python_code(os.path.join(d, '_c11_replay.py'))
sys.path.insert(0, d)
m = importlib.import_module('_c11_replay')
out = m.ffi.integer_const('X')
if not (inline == out == v):
    print('VIOLATED: #define X %%d: in-line %%r, out-of-line %%r' %% (v, inline, out)); sys.exit(1)
sys.exit(0)
'''


def make_replay(chk):
    def replay(case):
        path = chk.write_replay('const', REPLAY % json.dumps(case))
        rc, out = common.run_replay(path)
        return common.replay_verdict(rc, out), path
    return replay


def py_worker(args):
    prop, tier, kind = args
    sys.path.insert(0, os.path.join(common.REPO, 'src'))
    chk = hutil.sub_check(prop, tier)
    from cffi import cffi_opcode
    from cffi.error import VerificationError
    ex = pysym.PyExplorer()
    label = 'python-codec'
    # the four byte expressions of format_four_bytes, from its AST
    src = inspect.getsource(cffi_opcode.format_four_bytes)
    fn = ast.parse(src).body[0]
    ret = [n for n in ast.walk(fn) if isinstance(n, ast.Return)][0]
    tup = ret.value.right if isinstance(ret.value, ast.BinOp) else None
    argname = fn.args.args[0].arg

    def h(ex):
        if not (isinstance(tup, ast.Tuple) and len(tup.elts) == 4):
            chk.report_failure('format_four_bytes no longer formats a 4-tuple of byte expressions', {}, None, None)
            return
        fmt = ret.value.left.value if isinstance(ret.value.left, ast.Constant) else None
        chk.query(label + ':format-string-is-four-\\xHH-escapes', 'unsat' if fmt == '\\x%02X\\x%02X\\x%02X\\x%02X' else 'sat', 0.0)
        if fmt != '\\x%02X\\x%02X\\x%02X\\x%02X':
            chk.report_failure('format_four_bytes: unexpected format string %r' % (fmt,), {}, None, None)
        num = ex.sym_int('num', 'bv')
        ex.assume(z3.And(num.t >= 0, num.t < (1 << 32)))
        bytes_ = [eval(compile(ast.Expression(e), 'format_four_bytes', 'eval'), {argname: num}) for e in tup.elts]
        hutil.witness(chk, ex, label + ':bytes')
        terms = [b.t for b in bytes_]
        want = [(num.t >> s) & 0xFF for s in (24, 16, 8, 0)]
        hutil.discharge(chk, ex, label + ':big-endian-bytes-of-num', z3.And(*[t == w for t, w in zip(terms, want)]), {'num': num.t})
        # as_python_bytes: captures what it hands to format_four_bytes
        captured = []
        saved = cffi_opcode.format_four_bytes
        cffi_opcode.format_four_bytes = lambda n: (captured.append(n), 'X')[1]
        try:
            op = ex.sym_int('op', 'bv')
            arg = ex.sym_int('arg', 'bv')
            ex.assume(z3.And(op.t >= 0, op.t < 256, arg.t >= 0, arg.t < (1 << 23)))
            o = cffi_opcode.CffiOp(op, arg)
            o.as_python_bytes()
            hutil.discharge(chk, ex, label + ':op-entry-encodes-(arg<<8)|op',
                            len(captured) == 1 and (captured[0].t == ((arg.t << 8) | op.t)), {'op': op.t, 'arg': arg.t})
            hutil.discharge(chk, ex, label + ':op-entry-fits-31-bits', captured[0].t < (1 << 31), {'op': op.t, 'arg': arg.t})
        finally:
            cffi_opcode.format_four_bytes = saved
        # LEN entries (op None, decimal string): refused from 2**31
        for text, should in (('2147483647', True), ('2147483648', False), ('0', True)):
            try:
                cffi_opcode.CffiOp(None, text).as_python_bytes()
                okk = True
            except OverflowError:
                okk = False
            chk.query(label + ':length-entry-%s' % text, 'unsat' if okk == should else 'sat', 0.0)
            if okk != should:
                chk.report_failure('as_python_bytes(length %s): accepted=%s' % (text, okk), {}, None, None)

    res = ex.explore(h, max_paths=100)
    hutil.finish_explore(chk, ex, res, label)
    chk.functions = [{'name': 'format_four_bytes', 'file': 'src/cffi/cffi_opcode.py'}, {'name': 'CffiOp.as_python_bytes', 'file': 'src/cffi/cffi_opcode.py'}]
    return hutil.export(chk)


def c_worker(args):
    prop, tier, kind = args
    chk = hutil.sub_check(prop, tier)
    mod = irgen.backend()
    L = pystubs.CffiLayout(mod)
    replay = make_replay(chk)
    ex = llsym.Executor(mod, pystubs.stubs(), loop_bound=16)

    if kind == 'c-opcode':
        label = 'C-opcode-decoding'

        def h(ex):
            py = pystubs.PyEnv(ex)
            num = z3.BitVec('num', 32)
            buf = ex.mem.alloc(4, 'four bytes', 'input')
            for k, s in enumerate((24, 16, 8, 0)):
                ex.mem.store(buf.base + k, z3.Extract(s + 7, s, num), 1)
            r = ex.call('cdl_4bytes', [buf.base])
            hutil.witness(chk, ex, label)
            hutil.discharge(chk, ex, label + ':cdl_4bytes==signed-big-endian-32', bv(r, 64) == z3.SignExt(32, num), {'num': num})
            o = ex.call('cdl_opcode', [buf.base])
            op, arg = z3.Extract(7, 0, num), z3.LShR(num, 8)
            ex.assume(z3.ULT(num, 1 << 31))
            # _CFFI_GETOP(x) = (unsigned char)(uintptr_t)x ; _CFFI_GETARG(x) = ((intptr_t)x) >> 8
            hutil.discharge(chk, ex, label + ':GETOP(decode(encode))==op', z3.Extract(7, 0, bv(o, 64)) == op, {'num': num})
            hutil.discharge(chk, ex, label + ':GETARG(decode(encode))==arg', (bv(o, 64) >> 8) == z3.ZeroExt(32, arg), {'num': num})
    else:
        label = 'C-integer-constants'
        FF = mod.struct_layout(('named', 'struct.FFIObject_s'))
        tb_off = FF[0][6]
        ctxl = mod.struct_layout(('named', 'struct._cffi_type_context_s'))[0]

        def h(ex):
            py = pystubs.PyEnv(ex)
            V = z3.BitVec('v', W)
            ex.assume(z3.And(V >= V_const(-(1 << 63)), V < V_const(1 << 64)))
            ffi = py.new_obj('ffi', 'FFI_Type', FF[1] + 16)
            for off in range(16, FF[1], 8):
                ex.mem.store(ffi + off, 0, 8)
            name = b'X'
            OP_CONSTANT_INT = 31
            entry = py.new_bytes([0, 0, 0, OP_CONSTANT_INT] + list(name))
            o = py.new_int(V)
            globs = py.new_tuple([entry, o])

            def parse(ex2, a_, k_, fmt, kw, *outs):
                # "|sns#O!O!O!O!O!:FFI": ffiname, version, types, types_len, (type, globals), (type, struct_unions), ...
                ex2.mem.store(outs[1], 0x2601, 8)
                ex2.mem.store(outs[5], globs, 8)
                return 1

            def richcmp(ex2, a, b, op):
                # o <= False  <=>  value <= 0
                va = py.info(a)['V']
                return 1 if ex2.decide(va <= 0) else 0

            def pymalloc(ex2, n):
                n = ex2.concretize(n, 64, 64, 'PyMem_Malloc size')
                return ex2.mem.alloc(n, 'PyMem_Malloc', 'heap').base
            ex.stubs.update({'_PyArg_ParseTupleAndKeywords_SizeT': parse, 'PyObject_RichCompareBool': richcmp,
                             'PyMem_Malloc': pymalloc, 'PyMem_Free': lambda e, p: None})
            r = simp(ex.call('ffiobj_init', [ffi, py.new_opaque('args-tuple'), 0]))
            inputs = {'v': V}

            def rp(c):
                return replay({'v': llsym.signed(c['v'], W)})
            hutil.witness(chk, ex, label + ':init')
            okk = (r == 0) and py.exc is None
            hutil.discharge(chk, ex, label + ':module-initialises', okk, inputs, replay=rp)
            if not okk:
                return
            x = simp(ex.call('realize_global_int', [ffi + tb_off, 0]))
            okk = is_c(x) and x != 0 and py.exc is None and py.info(x)['kind'] == 'int'
            hutil.discharge(chk, ex, label + ':constant-realised', okk, inputs, replay=rp)
            if okk:
                hutil.discharge(chk, ex, label + ':value==serialised-value', py.info(x)['V'] == V, inputs, replay=rp)

    def on_oob(ex, what_, model):
        chk.report_failure('%s: stray memory access: %s' % (label, what_), {}, None, None)
    ex.on_oob = on_oob
    res = ex.explore(h, max_paths=2000)
    hutil.finish_explore(chk, ex, res, label)
    chk.functions = irgen.func_info(mod, sorted(ex.called))
    return hutil.export(chk)


def tables_worker(args):
    """struct/union, field, enum and typename tables of an out-of-line ABI module: the real encoder classes of
    recompiler.py produce the module's literals (format_four_bytes / as_python_bytes are represented by 4 symbolic
    big-endian bytes each -- their correctness is the 'python-codec' case), the real ffiobj_init decodes them."""
    prop, tier, kind, flags_text, bitfield, enum_row = args
    chk = hutil.sub_check(prop, tier)
    mod = irgen.backend()
    sys.path.insert(0, os.path.join(common.REPO, 'src'))
    from cffi import recompiler, cffi_opcode
    label = 'tables:flags=%s:%s:enum-%d-bytes-%s' % (flags_text, 'bitfield' if bitfield else 'plain-field', enum_row[0], 'signed' if enum_row[1] else 'unsigned')
    FF = mod.struct_layout(('named', 'struct.FFIObject_s'))
    tb_off = FF[0][6]
    ctxl = mod.struct_layout(('named', 'struct._cffi_type_context_s'))[0]
    sul = mod.struct_layout(('named', 'struct._cffi_struct_union_s'))
    fl = mod.struct_layout(('named', 'struct._cffi_field_s'))
    el = mod.struct_layout(('named', 'struct._cffi_enum_s'))
    tnl = mod.struct_layout(('named', 'struct._cffi_typename_s'))
    ex = llsym.Executor(mod, pystubs.stubs(), loop_bound=32)

    def h(ex):
        py = pystubs.PyEnv(ex)
        markers = []

        def four(v):
            """stand-in for format_four_bytes(v): an escaped marker quad, replaced by v's 4 big-endian bytes below"""
            markers.append(v)
            return '\\x%02x\\xf1\\xf2\\xf3' % (0xE0 + len(markers) - 1)

        class Op(object):                       # a CffiOp whose packed word is symbolic
            def __init__(self, op, word):
                self.op, self.word = op, word

            def as_python_bytes(self):
                return four(self.word)
        saved = recompiler.format_four_bytes
        recompiler.format_four_bytes = four
        try:
            S_idx, E_idx, T_idx = (z3.BitVec(n, 32) for n in ('struct_type_index', 'enum_type_index', 'typename_type_index'))
            F_word, F_bits = z3.BitVec('field_type_op', 32), z3.BitVec('field_bitsize', 32)
            # the decoder dispatches on the opcode byte of the field: bit-field entries carry a size, plain ones do not
            want_op = cffi_opcode.OP_BITFIELD if bitfield else cffi_opcode.OP_NOOP
            ex.assume(z3.And(z3.Extract(7, 0, F_word) == want_op, z3.ULT(F_word, 1 << 31)))
            fields = [] if 'OPAQUE' in flags_text else [recompiler.FieldExpr('fld', 'offsetof', 'sizeof', F_bits, Op(want_op, F_word))]
            su = recompiler.StructUnionExpr('s_name', S_idx, flags_text, 'size', 'align', 'comment', 0, fields)
            enum_size, enum_signed = enum_row
            en = recompiler.EnumExpr('e_name', E_idx, enum_size, enum_signed, 'A,BB')
            tn = recompiler.TypenameExpr('t_name', T_idx)
            lit_su = ast.literal_eval(su.as_python_expr())
            lit_en = ast.literal_eval(en.as_python_expr())
            lit_tn = ast.literal_eval(tn.as_python_expr())
        finally:
            recompiler.format_four_bytes = saved
        if not isinstance(lit_su, tuple):
            lit_su = (lit_su,)

        def to_obj(b):
            data, i = [], 0
            while i < len(b):
                if 0xE0 <= b[i] < 0xE0 + len(markers) and b[i + 1:i + 4] == b'\xf1\xf2\xf3':
                    v = markers[b[i] - 0xE0]
                    v = bv(v, 32)
                    data += [z3.Extract(31, 24, v), z3.Extract(23, 16, v), z3.Extract(15, 8, v), z3.Extract(7, 0, v)]
                    i += 4
                else:
                    data.append(b[i])
                    i += 1
            return py.new_bytes(data)
        t_su = py.new_tuple([py.new_tuple([to_obj(x) for x in lit_su])])
        t_en = py.new_tuple([to_obj(lit_en)])
        t_tn = py.new_tuple([to_obj(lit_tn)])
        ffi = py.new_obj('ffi', 'FFI_Type', FF[1] + 16)
        for off in range(16, FF[1], 8):
            ex.mem.store(ffi + off, 0, 8)

        def parse(ex2, a_, k_, fmt, kw, *outs):
            # ffiname, version, types, types_len, (type, globals), (type, struct_unions), (type, enums), (type, typenames), (type, includes)
            ex2.mem.store(outs[1], 0x2601, 8)
            ex2.mem.store(outs[7], t_su, 8)
            ex2.mem.store(outs[9], t_en, 8)
            ex2.mem.store(outs[11], t_tn, 8)
            return 1

        def pymalloc(ex2, n):
            n = ex2.concretize(n, 64, 64, 'PyMem_Malloc size')
            return ex2.mem.alloc(n, 'PyMem_Malloc (exact size)', 'heap').base
        ex.stubs.update({'_PyArg_ParseTupleAndKeywords_SizeT': parse, 'PyMem_Malloc': pymalloc, 'PyMem_Free': lambda e, p: None})
        r = simp(ex.call('ffiobj_init', [ffi, py.new_opaque('args-tuple'), 0]))
        inputs = {'struct_type_index': S_idx, 'enum_type_index': E_idx, 'typename_type_index': T_idx, 'field_type_op': F_word, 'field_bitsize': F_bits}
        hutil.witness(chk, ex, label)
        okk = (r == 0) and py.exc is None
        hutil.discharge(chk, ex, label + ':module-initialises', okk, inputs)
        if not okk:
            return
        ctx = ffi + tb_off
        ld = lambda a, n: ex.mem.load(a, n)

        def cstr(p_):
            return llsym.c_string(ex, simp(p_)).decode()
        flags = eval(flags_text, cffi_opcode.G_FLAGS)
        su_p = simp(ld(ctx + ctxl[3], 8))
        D = lambda nm, c: hutil.discharge(chk, ex, label + ':' + nm, c, inputs)
        D('num_struct_unions==1', simp(ld(ctx + ctxl[7], 4)) == 1)
        D('struct.name', cstr(ld(su_p + sul[0][0], 8)) == 's_name')
        D('struct.type_index', bv(ld(su_p + sul[0][1], 4), 32) == S_idx)
        D('struct.flags', simp(ld(su_p + sul[0][2], 4)) == flags)
        opaque = bool(flags & (cffi_opcode.F_OPAQUE | cffi_opcode.F_EXTERNAL))
        D('struct.num_fields', llsym.signed(simp(ld(su_p + sul[0][6], 4)), 32) == (0 if opaque else len(fields)))
        D('struct.first_field_index', llsym.signed(simp(ld(su_p + sul[0][5], 4)), 32) == (-1 if opaque else 0))
        D('struct.size-and-alignment-marked-unknown', simp(ld(su_p + sul[0][3], 8)) == (mask(64) if opaque else mask(64) - 1)
          and llsym.signed(simp(ld(su_p + sul[0][4], 4)), 32) == (-1 if opaque else -2))
        if fields:
            f_p = simp(ld(ctx + ctxl[2], 8))
            D('field.name', cstr(ld(f_p + fl[0][0], 8)) == 'fld')
            D('field.type_op', bv(ld(f_p + fl[0][3], 8), 64) == z3.ZeroExt(32, F_word))
            D('field.offset-unknown', simp(ld(f_p + fl[0][1], 8)) == mask(64))
            if bitfield:
                D('field.size==bit-width', bv(ld(f_p + fl[0][2], 8), 64) == z3.SignExt(32, F_bits))
            else:
                D('field.size-unknown', simp(ld(f_p + fl[0][2], 8)) == mask(64))
        e_p = simp(ld(ctx + ctxl[4], 8))
        D('num_enums==1', simp(ld(ctx + ctxl[8], 4)) == 1)
        D('enum.name', cstr(ld(e_p + el[0][0], 8)) == 'e_name')
        D('enum.type_index', bv(ld(e_p + el[0][1], 4), 32) == E_idx)
        # the primitive the compiler's (size, signedness) of the enum denotes: the table of the C macro _cffi_prim_int
        want_prim = {(1, 0): cffi_opcode.PRIM_UINT8, (1, 1): cffi_opcode.PRIM_INT8, (2, 0): cffi_opcode.PRIM_UINT16,
                     (2, 1): cffi_opcode.PRIM_INT16, (4, 0): cffi_opcode.PRIM_UINT32, (4, 1): cffi_opcode.PRIM_INT32,
                     (8, 0): cffi_opcode.PRIM_UINT64, (8, 1): cffi_opcode.PRIM_INT64}[enum_row]
        D('enum.type_prim==the-integer-type-of-that-size-and-signedness', simp(ld(e_p + el[0][2], 4)) == want_prim)
        D('enum.enumerators', cstr(ld(e_p + el[0][3], 8)) == 'A,BB')
        t_p = simp(ld(ctx + ctxl[5], 8))
        D('num_typenames==1', simp(ld(ctx + ctxl[9], 4)) == 1)
        D('typename.name', cstr(ld(t_p + tnl[0][0], 8)) == 't_name')
        D('typename.type_index', bv(ld(t_p + tnl[0][1], 4), 32) == T_idx)

    def on_oob(ex, what_, model):
        chk.report_failure('%s: stray memory access: %s' % (label, what_), {}, None, None)
    ex.on_oob = on_oob
    res = ex.explore(h, max_paths=2000)
    hutil.finish_explore(chk, ex, res, label)
    chk.functions = irgen.func_info(mod, sorted(ex.called)) + [{'name': n + '.as_python_expr', 'file': 'src/cffi/recompiler.py'}
                                                               for n in ('StructUnionExpr', 'FieldExpr', 'EnumExpr', 'TypenameExpr')]
    return hutil.export(chk)


def names_worker(args):
    """struct/union/enum names of a module: '$N' (unnamed) -> 'struct $N', '$foo' (typedef-only) -> 'foo', 'foo' -> 'struct foo',
    and _unrealize_name gives the stored name back (it is what do_realize_lazy_struct searches for)"""
    prop, tier, kind, n = args
    chk = hutil.sub_check(prop, tier)
    mod = irgen.backend()
    label = 'names:len=%d' % n
    ex = llsym.Executor(mod, dict(llsym.LIBC), loop_bound=64)

    def h(ex):
        mem = ex.mem
        cs = [z3.BitVec('c%d' % i, 8) for i in range(n)]
        for c in cs:
            ex.assume(c != 0)
        src = mem.alloc(n + 1, 'stored name', 'input')
        for i, c in enumerate(cs):
            mem.store(src.base + i, c, 1)
        mem.store(src.base + n, 0, 1)
        prefix = mem.alloc(8, 'prefix', 'heap', fill=0)
        for i, ch in enumerate(b'struct '):
            mem.store(prefix.base + i, ch, 1)
        out = mem.alloc(7 + n + 1, 'realized name (exact size)', 'input')
        ex.call('_realize_name', [out.base, prefix.base, src.base])
        inputs = dict(('c%d' % i, c) for i, c in enumerate(cs))
        typedef_only = z3.And(cs[0] == ord('$'), cs[1] != ord('$'), z3.Not(z3.And(cs[1] >= 48, cs[1] <= 57))) if n >= 2 else z3.BoolVal(False)
        if n == 1:
            typedef_only = z3.BoolVal(False)      # '$' alone: srcname[1] is the terminator, not a digit -> see below
            ex.assume(cs[0] != ord('$'))
        is_t = ex.decide(typedef_only)
        hutil.witness(chk, ex, label + (':typedef-only' if is_t else ':tagged'))
        want = (cs[1:] + [0]) if is_t else ([c for c in b'struct '] + cs + [0])
        got = [bv(mem.load(out.base + i, 1), 8) for i in range(len(want))]
        hutil.discharge(chk, ex, label + ':realized-name', z3.And(*[g == w for g, w in zip(got, want)]), inputs)
        back = mem.alloc(n + 2, 'unrealized name (exact size)', 'input')
        ex.call('_unrealize_name', [back.base, out.base])
        got2 = [bv(mem.load(back.base + i, 1), 8) for i in range(n + 1)]
        # the round trip is the identity unless a typedef-only name itself starts with 'struct ' / 'union ' / 'enum ' (not an identifier)
        ident = z3.And(*[z3.Or(z3.And(c >= 48, c <= 57), z3.And(c >= 65, c <= 90), z3.And(c >= 97, c <= 122), c == 95, c == ord('$')) for c in cs])
        hutil.discharge(chk, ex, label + ':unrealize(realize(name))==name', z3.Implies(ident, z3.And(*[g == w for g, w in zip(got2, cs + [0])])), inputs)

    def on_oob(ex, what_, model):
        chk.report_failure('%s: name buffer overflow: %s' % (label, what_), {}, None, None)
    ex.on_oob = on_oob
    res = ex.explore(h, max_paths=5000)
    hutil.finish_explore(chk, ex, res, label)
    chk.functions = irgen.func_info(mod, sorted(ex.called))
    return hutil.export(chk)


AGG_REPLAY = r"""
# Replay for C11: the name of a struct/union in-line vs in the out-of-line ABI module built from the same cdef
import sys, os, json, tempfile, importlib, atexit, shutil
import cffi
case = json.loads(%r)
kind, tag, alias = case['kind'], case['tag'], case['alias']
body = '{ int a; }'
if tag and alias:
    cdef, asks = '%%s %%s %%s; typedef %%s %%s %%s;' %% (kind, tag, body, kind, tag, alias), ['%%s %%s' %% (kind, tag), alias]
elif tag:
    cdef, asks = '%%s %%s %%s;' %% (kind, tag, body), ['%%s %%s' %% (kind, tag)]
else:
    cdef, asks = 'typedef %%s %%s %%s;' %% (kind, body, alias), [alias]
d = tempfile.mkdtemp(); atexit.register(shutil.rmtree, d, True)
sys.path.insert(0, d)
ffi = cffi.FFI(); ffi.cdef(cdef)
ffi.set_source('_c11_aggname', None); ffi.emit_python_code(os.path.join(d, '_c11_aggname.py'))
m = importlib.import_module('_c11_aggname')
bad = []
for t in asks:
    a, b = ffi.typeof(t).cname, m.ffi.typeof(t).cname
    if a != b:
        bad.append('cdef %%r: typeof(%%r) is named %%r in-line and %%r out-of-line' %% (cdef, t, a, b))
for b in bad: print('VIOLATED:', b)
sys.exit(1 if bad else 0)
"""

AGG_TAGS = [
    hutil.Tag('named_aggregate_with_typedef_alias',
              lambda c: bool(c.get('tag')) and bool(c.get('alias')),
              lambda inputs: True),
]


def aggname_worker(args):
    """the name of a struct/union: in-line (cparser._get_struct_union_enum_type -> model.get_official_name) against the
    out-of-line module (the stored name the Recompiler emits, realized by _realize_name -- its rule is the lemma decided by the
    'names' cases)"""
    prop, tier, kind_, agg, lt, la = args
    chk = hutil.sub_check(prop, tier)
    sys.path.insert(0, os.path.join(common.REPO, 'src'))
    from vf import symstr
    from cffi import cparser, model
    from pycparser import c_ast
    label = 'aggregate-name:%s:tag-length-%d:typedef-length-%d' % (agg, lt, la)
    ex = pysym.PyExplorer()
    IDENT = [c for c in range(128) if chr(c).isalnum() or chr(c) == '_']

    def ident(name, n):
        t = symstr.SymStr.fresh(ex, name, n)
        for c in t.chars:
            ex.add_definition(z3.Or(*[c == v for v in IDENT]))
        ex.add_definition(z3.Not(z3.And(t.chars[0] >= 48, t.chars[0] <= 57)))
        return t

    def h(ex):
        tag = ident('tag', lt) if lt else None
        alias = ident('alias', la) if la else None
        parser = cparser.Parser()

        class Decls(dict):
            def get(self, k, default=None):
                return default

            def __contains__(self, k):
                return False

            def __setitem__(self, k, v):
                pass
        parser._declarations = Decls()
        node = c_ast.Struct(tag, None) if agg == 'struct' else c_ast.Union(tag, None)
        # the same functions re-compiled from the working tree's source with their str literals lifted, so that '%s %s' % (kind, name) and '$%s' % name accept symbolic names
        saved = model.StructOrUnionOrEnum.build_c_name_with_marker
        model.StructOrUnionOrEnum.build_c_name_with_marker = symstr.lift_source(saved)
        try:
            tp = symstr.lift_source(cparser.Parser._get_struct_union_enum_type)(parser, agg, node, name=alias)
            inline = tp.get_official_name()
        finally:
            model.StructOrUnionOrEnum.build_c_name_with_marker = saved
        stored = tp.name
        # _realize_name: '$x...' with x not '$' and not a digit names a typedef-only aggregate
        if isinstance(stored, str):
            typedef_only = stored[:1] == '$' and len(stored) > 1 and stored[1] != '$' and not stored[1].isdigit()
        else:
            c0, c1 = stored.chars[0], (stored.chars[1] if len(stored.chars) > 1 else 0)
            typedef_only = ex.decide(z3.And(symstr.SymStr._ceq(c0, 36), z3.Not(symstr.SymStr._ceq(c1, 36)),
                                            z3.Not(z3.And(llsym.bv(c1, symstr.CW) >= 48, llsym.bv(c1, symstr.CW) <= 57)))) if len(stored.chars) > 1 else False
        outofline = stored[1:] if typedef_only else (agg + ' ') + stored
        hutil.witness(chk, ex, label)
        inputs = {}
        for nm, t in (('tag', tag), ('alias', alias)):
            if t is not None:
                for i, c in enumerate(t.chars):
                    inputs['%s[%d]' % (nm, i)] = c

        def rp(case):
            txt = lambda nm, n: ''.join(chr(case['%s[%d]' % (nm, i)]) for i in range(n))
            c = {'kind': agg, 'tag': txt('tag', lt), 'alias': txt('alias', la)}
            path = chk.write_replay('aggname', AGG_REPLAY % json.dumps(c))
            rc, out = common.run_replay(path, timeout=120)
            return common.replay_verdict(rc, out), path
        a = inline if not isinstance(inline, str) else symstr.SymStr(ex, [ord(ch) for ch in inline])
        eq = a._eq_term(outofline) if isinstance(a, symstr.SymStr) else (a == outofline)
        hutil.discharge(chk, ex, label + ':same-name-in-line-and-out-of-line', eq, inputs, tags=AGG_TAGS, replay=rp,
                        extra_case={'tag': 'x' * lt, 'alias': 'x' * la})

    res = ex.explore(h, max_paths=2000)
    hutil.finish_explore(chk, ex, res, label)
    if not chk.witnesses:
        chk.inconc(label + ': no path reached an obligation')
    chk.functions = [{'name': n, 'file': 'src/cffi/cparser.py'} for n in ('Parser._get_struct_union_enum_type',)] + \
                    [{'name': 'StructOrUnionOrEnum.force_the_name / get_official_name', 'file': 'src/cffi/model.py'}]
    return hutil.export(chk)


ENUM_ROWS = [(1, 0), (1, 1), (2, 0), (2, 1), (4, 0), (4, 1), (8, 0), (8, 1)]


def dispatch(args):
    if args[2] == 'aggname':
        return aggname_worker(args)
    if args[2] == 'names':
        return names_worker(args)
    if args[2] == 'tables':
        return tables_worker(args)
    return (py_worker if args[2] == 'py' else c_worker)(args)


def run(chk):
    P = (chk.prop, chk.tier)
    chk.bounds = {'opcodes': 'every op < 256 and arg < 2**23 (what the generator can emit below 8M types); every 32-bit word for decoding',
                  'integer constants': 'every Python int in [-2**63, 2**64)'}
    chk.outside = ['whole-module equivalence (typedefs, structs, functions, globals through import machinery and realize_c_type on live '
                   'objects): not encodable; only the codec every declaration goes through is decided',
                   'arg >= 2**23 (more than 8 million types)', 'tables with several entries (each entry is decoded by the same loop body)']
    chk.assume('CPython contracts of vf/pystubs.py; PyObject_RichCompareBool(o, False, Py_LE) == (o <= 0)')
    irgen.backend()
    cases = [P + ('py',), P + ('c-opcode',), P + ('c-consts',)]
    for fl_ in ('0', '_CFFI_F_UNION', '_CFFI_F_CHECK_FIELDS|_CFFI_F_PACKED', '_CFFI_F_OPAQUE', '_CFFI_F_EXTERNAL'):
        for bf in (False, True):
            if 'OPAQUE' in fl_ or 'EXTERNAL' in fl_:
                if bf:
                    continue
            # the 8 table cases also walk through the 8 (size, signedness) rows an enum can have
            cases.append(P + ('tables', fl_, bf, ENUM_ROWS[len([c for c in cases if c[2] == 'tables']) % 8]))
    for n in range(1, 6):
        cases.append(P + ('names', n))
    for agg in ('struct', 'union'):
        for lt, la in ((1, 0), (2, 0), (0, 1), (0, 2), (0, 0), (1, 1), (2, 2)):
            cases.append(P + ('aggname', agg, lt, la))
    chk.bounds['aggregate names'] = 'struct/union with a tag of 0..2 identifier characters and a typedef alias of 0..2 characters'
    chk.bounds['names'] = 'every NUL-free stored name of 1..5 characters through _realize_name / _unrealize_name'
    chk.bounds['tables'] = 'one struct/union (5 flag combinations) with one plain or bit-field member, one enum, one typename: every 32-bit type index, field opcode word and bit width'
    hutil.run_cases(chk, cases, dispatch)
