"""C25 -- every declared name is found by the runtime lookup of generated tables.

llsym (path mode) on the real IR of parse_c_type.c:search_sorted (and the search_in_* wrappers).
Symbolic: the table's names (NUL-terminated strings of arbitrary non-NUL bytes, each of any
length up to the bound), the search string bytes.  Concrete per case: number of entries,
item size, search length.
Precondition (what the generator's sort establishes): names strictly increasing in unsigned
byte order.  Obligations: result == i  <=>  name_i == search[:len];  -1 <=> no such i;
all reads stay inside the strings (bounds monitor); the loop terminates within the unrolling.
"""
import json, itertools
import z3
from vf import common, irgen, llsym, pystubs, hutil
from vf.llsym import bv, simp, mask, is_c

REPLAY = r'''
# Replay for C25: an out-of-line ABI module (no compiler needed) declaring the given typedef names;
# ffi.typeof(search) must resolve iff `search` is one of them.
import sys, os, json, tempfile, importlib
import cffi
case = json.loads(%r)
names, search = case['names'], case['search']
d = tempfile.mkdtemp()
ffi = cffi.FFI()
ffi.cdef(''.join('typedef struct %%s_tag { int f%%d; } %%s;\n' %% (n, i, n) for i, n in enumerate(names)))
ffi.set_source('_c25_replay', None)
ffi.emit_python_code(os.path.join(d, '_c25_replay.py'))
sys.path.insert(0, d)
m = importlib.import_module('_c25_replay')
bad = []
for n in names:
    try:
        t = m.ffi.typeof(n)
        if t.cname != n:
            bad.append('declared %%r resolves to %%r' %% (n, t.cname))
    except Exception as e:
        bad.append('declared %%r not found: %%s' %% (n, e))
if search not in names:
    try:
        t = m.ffi.typeof(search)
        bad.append('undeclared %%r found as %%r' %% (search, t.cname))
    except Exception:
        pass
for b in bad:
    print('VIOLATED:', b)
sys.exit(1 if bad else 0)
'''


def ident_ok(s):
    import re
    return re.match(r'^[A-Za-z_][A-Za-z_0-9]*$', s) is not None and s not in ('int', 'char', 'long', 'short')


def make_replay(chk):
    def replay(case):
        if not all(ident_ok(n) for n in case['names']) or not ident_ok(case['search']):
            return None, None
        path = chk.write_replay('n%d' % len(case['names']), REPLAY % json.dumps(case))
        rc, out = common.run_replay(path)
        return common.replay_verdict(rc, out), path
    return replay


def str_lt(a, b):
    """z3 Bool: NUL-terminated byte string a < b (unsigned byte order); a, b lists of BV8 with last == 0"""
    res = z3.BoolVal(False)
    for i in range(len(a) - 1, -1, -1):
        x, y = a[i], b[i]
        res = z3.If(z3.ULT(x, y), True, z3.If(z3.UGT(x, y), False, z3.If(x == 0, False, res)))
    return res


def str_eq_prefix(name, search):
    """name (NUL-terminated, list incl. terminator slot) equals exactly the bytes `search`"""
    L = len(search)
    if L >= len(name):
        return z3.BoolVal(False)
    return z3.And(*([name[i] == search[i] for i in range(L)] + [name[L] == 0]))


def worker(args):
    prop, tier, N, maxlen, slen, item_size, identlike = args
    chk = hutil.sub_check(prop, tier)
    mod = irgen.backend()
    st = dict(llsym.LIBC)
    ex = llsym.Executor(mod, st, loop_bound=8)
    replay = make_replay(chk)
    label = 'N=%d,maxlen=%d,slen=%d,item=%d%s' % (N, maxlen, slen, item_size, ',ident' if identlike else '')

    def h(ex):
        mem = ex.mem
        table = mem.alloc(max(N * item_size, 1), 'table', 'input', fill=0)
        names = []
        for i in range(N):
            r = mem.alloc(maxlen + 1, 'name%d' % i, 'input')
            cs = [z3.BitVec('n%d_%d' % (i, k), 8) for k in range(maxlen)] + [z3.BitVecVal(0, 8)]
            for k, c in enumerate(cs):
                mem.store(r.base + k, simp(c), 1)
            # nothing after the first NUL matters; keep it canonical (zero) so that models are strings
            for k in range(maxlen - 1):
                ex.assume(z3.Implies(cs[k] == 0, cs[k + 1] == 0))
            ex.assume(cs[0] != 0)       # C identifiers are not empty
            names.append(cs)
            mem.store(table.base + i * item_size, r.base, 8)
        for i in range(N - 1):
            ex.assume(str_lt(names[i], names[i + 1]))
        sreg = mem.alloc(max(slen, 1), 'search', 'input')
        search = [z3.BitVec('s_%d' % k, 8) for k in range(slen)]
        for k, c in enumerate(search):
            mem.store(sreg.base + k, c, 1)
            ex.assume(c != 0)
        if identlike:
            # bytes restricted to identifier characters: makes counter-models replayable through typeof()
            def idc(c):
                return z3.Or(z3.And(c >= 48, c <= 57), z3.And(c >= 65, c <= 90), z3.And(c >= 97, c <= 122), c == 95)
            for cs in names:
                for c in cs[:-1]:
                    ex.assume(z3.Or(c == 0, idc(c)))
            for c in search:
                ex.assume(idc(c))
        if slen < 1:
            sbase = sreg.base + 1     # zero-length search: pointer one past a 1-byte region, no byte readable
        else:
            sbase = sreg.base
        r = simp(ex.call('search_sorted', [table.base, item_size, N, sbase, slen]))
        if not is_c(r):
            raise llsym.Unsupported('symbolic result')
        r = llsym.signed(r, 32)
        inputs = {}
        for i, cs in enumerate(names):
            for k, c in enumerate(cs[:-1]):
                inputs['n%d_%d' % (i, k)] = c
        for k, c in enumerate(search):
            inputs['s_%d' % k] = c

        def rp(case):
            def tostr(prefix, n):
                out = []
                for k in range(n):
                    v = case.get('%s_%d' % (prefix, k), 0)
                    if v == 0:
                        break
                    out.append(chr(v))
                return ''.join(out)
            return replay({'names': [tostr('n%d' % i, maxlen) for i in range(N)], 'search': tostr('s', slen)})

        if r == -1:
            m = hutil.witness(chk, ex, label + ':not-found')
            hutil.discharge(chk, ex, label + ':not-found=>no-entry-equals', z3.And(*[z3.Not(str_eq_prefix(cs, search)) for cs in names]) if N else True,
                            inputs, replay=rp)
        else:
            m = hutil.witness(chk, ex, label + ':found@%d' % r)
            if m is not None and r == N - 1:
                chk.sample({'case': label, 'names': [bytes(hutil.mval(m, c) for c in cs[:-1]).split(b'\0')[0].decode('latin1') for cs in names],
                            'search': bytes(hutil.mval(m, c) for c in search).decode('latin1'), 'result': r})
            ok = 0 <= r < N
            hutil.discharge(chk, ex, label + ':found=>index-in-range', ok, inputs, replay=rp)
            if ok:
                hutil.discharge(chk, ex, label + ':found=>entry-equals-search', str_eq_prefix(names[r], search), inputs, replay=rp)

    def on_oob(ex, what, model):
        chk.report_failure('%s: read outside the strings: %s' % (label, what), {}, None, None)
    ex.on_oob = on_oob
    res = ex.explore(h, max_paths=200000)
    hutil.finish_explore(chk, ex, res, label)
    chk.functions = irgen.func_info(mod, sorted(ex.called))
    return hutil.export(chk)


GEN_REPLAY = r"""
# Replay for C25 (generator side): an out-of-line ABI module with the given typedef / struct / enum / function
# names, optionally using FILE without declaring it; every declared name must be found by the runtime.
import sys, os, json, tempfile, importlib, atexit, shutil
import cffi
case = json.loads(%r)
d = tempfile.mkdtemp(); atexit.register(shutil.rmtree, d, True)
ffi = cffi.FFI()
src = []
for i, n in enumerate(case['typedefs']): src.append('typedef struct { int f%%d; } %%s;' %% (i, n))
for i, n in enumerate(case['structs']): src.append('struct %%s { int g%%d; };' %% (n, i))
for i, n in enumerate(case['enums']): src.append('enum %%s { EN_%%d_A, EN_%%d_B };' %% (n, i, i))
for i, n in enumerate(case['globals']): src.append('int %%s(int);' %% n)
if case['use_file']: src.append('void _c25_use_file(FILE *);')
ffi.cdef('\n'.join(src))
ffi.set_source('_c25_gen_replay', None)
ffi.emit_python_code(os.path.join(d, '_c25_gen_replay.py'))
sys.path.insert(0, d)
m = importlib.import_module('_c25_gen_replay')
bad = []
for kind, pre in (('typedefs', ''), ('structs', 'struct '), ('enums', 'enum ')):
    for n in case[kind]:
        try:
            t = m.ffi.typeof(pre + n)
            if t.cname != pre + n:
                bad.append('declared %%r resolves to %%r' %% (pre + n, t.cname))
        except Exception as e:
            bad.append('declared %%r not found: %%s' %% (pre + n, e))
if case['use_file']:
    try: m.ffi.typeof('FILE')
    except Exception as e: bad.append('FILE not found: %%s' %% e)
for b in bad: print('VIOLATED:', b)
sys.exit(1 if bad else 0)
"""


class DeclName(object):
    """the key 'kind name' of Parser._declarations with a symbolic name part: ordered like the string"""

    def __init__(self, kind, name):
        self.kind, self.name = kind, name

    def split(self, sep, n):
        assert sep == ' ' and n == 1
        return [self.kind, self.name]

    def __hash__(self):
        return hash(self.kind)

    def __eq__(self, o):
        return isinstance(o, DeclName) and self.kind == o.kind and bool(self.name == o.name)

    def __lt__(self, o):
        if self.kind != o.kind:
            return self.kind < o.kind
        return bool(self.name < o.name)

    def __repr__(self):
        return '%s %r' % (self.kind, self.name)


def gen_worker(args):
    """the real Recompiler.collect_type_table + collect_step_tables on declarations whose names are symbolic:
    every searchable table comes out strictly increasing in byte order (the precondition of the C search)"""
    prop, tier, kind, lens, use_file, target_py = args
    chk = hutil.sub_check(prop, tier)
    import os, sys
    sys.path.insert(0, os.path.join(common.REPO, 'src'))
    from vf import pysym, symstr
    import cffi
    from cffi import recompiler, model
    label = 'generator:%s:lens=%s:%s%s' % ('py' if target_py else 'c', ','.join(map(str, lens)), 'implicit-FILE' if use_file else 'no-FILE',
                                            '')
    ex = pysym.PyExplorer()
    IDENT = [c for c in range(128) if chr(c).isalnum() or chr(c) == '_']

    def replay(case):
        def txt(prefix, k):
            return ''.join(chr(case['%s%d[%d]' % (prefix, k, i)]) for i in range(lens[k]))
        names = [txt('n', k) for k in range(len(lens))]
        c = {'typedefs': names[0:2], 'structs': names[2:3], 'enums': [], 'globals': names[3:4], 'use_file': use_file}
        if len(set(names)) != len(names) or any(n[0].isdigit() for n in names) or 'FILE' in names or '_IO_FILE' in names:
            return None, None
        path = chk.write_replay('generator', GEN_REPLAY % json.dumps(c))
        rc, out = common.run_replay(path, timeout=120)
        return common.replay_verdict(rc, out), path

    def h(ex):
        ffi = cffi.FFI()
        ffi.cdef("typedef struct { int f0; } T0; typedef struct { int f1; } T1; struct S0 { int g0; }; int G0(int);"
                 + (" void _c25_use_file(FILE *);" if use_file else ""))
        syms = []
        for k, n in enumerate(lens):
            sname = symstr.SymStr.fresh(ex, 'n%d' % k, n)
            for i, c in enumerate(sname.chars):
                ex.add_definition(z3.Or(*[c == v for v in IDENT]))
            ex.add_definition(z3.Not(z3.And(sname.chars[0] >= 48, sname.chars[0] <= 57)))
            syms.append(sname)
        # names of one namespace are distinct and differ from the implicit FILE / _IO_FILE
        def differ(a, b):
            t = a._eq_term(b)
            if t is not False:
                ex.add_definition(z3.Not(t) if t is not True else z3.BoolVal(False))
        differ(syms[0], syms[1])
        for sname in syms[:2]:
            differ(sname, 'FILE')
        differ(syms[2], '_IO_FILE')
        differ(syms[3], '_c25_use_file')
        decls = ffi._parser._declarations
        new = {}
        ren = {'typedef T0': ('typedef', syms[0]), 'typedef T1': ('typedef', syms[1]), 'struct S0': ('struct', syms[2]),
               'function G0': ('function', syms[3])}
        for key, val in decls.items():
            if key in ren:
                kind_, sn = ren[key]
                if kind_ == 'struct':
                    val[0].name = sn
                new[DeclName(kind_, sn)] = val
            else:
                kind_, nm = key.split(' ', 1)
                new[DeclName(kind_, nm)] = val
        ffi._parser._declarations = new
        r = recompiler.Recompiler(ffi, '_c25_mod', target_is_python=target_py)
        r.collect_type_table()
        r.collect_step_tables()
        inputs = {}
        for k, sname in enumerate(syms):
            for i, c in enumerate(sname.chars):
                inputs['n%d[%d]' % (k, i)] = c
        hutil.witness(chk, ex, label + ':tables-built')
        for step in ('global', 'struct_union', 'enum', 'typename'):
            lst = r._lsts[step]
            names = [e.name for e in lst]
            for i in range(len(names) - 1):
                a, b = names[i], names[i + 1]
                la = a.chars if isinstance(a, symstr.SymStr) else [ord(ch) for ch in a]
                lb = b.chars if isinstance(b, symstr.SymStr) else [ord(ch) for ch in b]
                t = symstr.SymStr(ex, [])._lt_term(la, lb, False)
                hutil.discharge(chk, ex, '%s:%s-table:entry%d<entry%d' % (label, step, i, i + 1),
                                t if not isinstance(t, bool) else t, inputs, replay=replay)
        # every declared name is in its table exactly once
        tn = [e.name for e in r._lsts['typename']]
        want = syms[:2] + (['FILE'] if use_file else [])
        hutil.discharge(chk, ex, label + ':typename-table-has-every-typedef', len(tn) == len(want), inputs, replay=replay)

    res = ex.explore(h, max_paths=20000)
    hutil.finish_explore(chk, ex, res, label)
    if not chk.witnesses:
        chk.inconc(label + ': no path reached the obligations')
    chk.functions = [{'name': n, 'file': 'src/cffi/recompiler.py'} for n in
                     ('Recompiler.collect_type_table', 'Recompiler.collect_step_tables', 'Recompiler._generate',
                      'Recompiler._add_missing_struct_unions', 'Recompiler._typedef_ctx', 'Recompiler._struct_ctx')]
    return hutil.export(chk)


def dispatch(args):
    if args[2] == 'gen':
        return gen_worker(args)
    return worker(args)


def run(chk):
    quick = chk.tier == 'quick'
    P = (chk.prop, chk.tier)
    cases = []
    NMAX = 4 if quick else 9
    ML = 3 if quick else 5
    for N in range(0, NMAX + 1):
        for slen in range(0, ML + 1):
            cases.append(P + (N, ML, slen, 24 if N % 2 else 16, False))
    for N in (2, 3):
        for slen in (1, 2, 3):
            cases.append(P + (N, ML, slen, 40, True))
    chk.bounds = {'table entries': '0..%d' % NMAX, 'name length': '1..%d arbitrary non-NUL bytes (symbolic length)' % ML,
                  'search length': '0..%d arbitrary non-NUL bytes, not NUL-terminated' % ML, 'item sizes': [16, 24, 40]}
    for lens in ([(1, 1, 1, 1), (4, 4, 8, 1), (5, 3, 7, 13)] if quick else
                 [(1, 1, 1, 1), (2, 1, 1, 2), (4, 4, 8, 1), (3, 4, 8, 1), (5, 3, 7, 13), (4, 5, 8, 13), (6, 6, 2, 3)]):
        for use_file in (False, True):
            for target_py in (False, True):
                cases.append(P + ('gen', lens, use_file, target_py))
    chk.outside = ['generator side beyond the bound: two typedefs, one struct, one function with symbolic identifier names of the '
                   'listed lengths (any identifier characters), with and without an implicit FILE, C and Python targets; '
                   'Python str order == strcmp order holds for ASCII identifiers',
                   'tables larger than the bound (the loop is a plain binary search: log2(N)+1 iterations, '
                   'unwinding assertion at 8)']
    chk.assume('precondition: table strictly increasing in unsigned byte (strcmp) order')
    chk.assume('strncmp modelled per its C contract (vf/llsym.py LIBC)')
    irgen.backend()
    hutil.run_cases(chk, cases, dispatch)
