"""C05 -- floating-point and complex stores round-trip with C conversion semantics.

llsym (z3 floating point) on write_raw_float_data / read_raw_float_data / write_raw_complex_data /
read_raw_complex_data / read_raw_longdouble_data / write_raw_longdouble_data and the float/complex
branches of convert_from_object, convert_to_object and do_cast.
Symbolic: all 64 bits of the Python float (every finite, infinite and NaN double), both parts of a
complex, the 1-byte / 1-character source of a cast, all 80 value bits of a long double.
"""
import json, struct
import z3
from vf import common, irgen, llsym, pystubs, hutil
from vf.llsym import bv, simp, mask, is_c

F32, F64 = z3.Float32(), z3.Float64()

REPLAY = r'''
# Replay for C05 against the real cffi build.
import sys, json, struct, math, cffi
case = json.loads(%r)
ffi = cffi.FFI()
bad = []
def d(bits): return struct.unpack('<d', struct.pack('<Q', bits))[0]
def cconv32(x):
    try:
        return struct.unpack('<f', struct.pack('<f', x))[0]
    except OverflowError:
        return math.copysign(math.inf, x)
def same(a, b): return (a == b and math.copysign(1, a) == math.copysign(1, b)) or (a != a and b != b)
k = case['kind']
if k in ('store', 'cast'):
    x = d(case['bits']); t = case['tname']
    want = cconv32(x) if t == 'float' else x
    if k == 'store':
        p = ffi.new(t + '*', x); got = p[0]
        if t == 'float':
            raw = struct.unpack('<I', bytes(ffi.buffer(p)))[0]
            wantraw = struct.unpack('<I', struct.pack('<f', want))[0]
            if not (x != x) and raw != wantraw:
                bad.append('float store of %%r: bits %%#x, C gives %%#x' %% (x, raw, wantraw))
    else:
        got = float(ffi.cast(t, x))
    if not same(got, want):
        bad.append('%%s %%s of %%r reads back %%r, C conversion gives %%r' %% (t, k, x, got, want))
elif k == 'complex':
    re, im = d(case['re']), d(case['im']); t = case['tname']
    p = ffi.new(t + '*', complex(re, im)); got = p[0]
    wr, wi = (cconv32(re), cconv32(im)) if t.startswith('float') else (re, im)
    if not (same(got.real, wr) and same(got.imag, wi)):
        bad.append('%%s store of %%r reads back %%r' %% (t, complex(re, im), got))
elif k == 'longdouble':
    raw = case['raw'].to_bytes(10, 'little') + b'\0' * 6
    p = ffi.new('long double *'); ffi.buffer(p)[:] = raw
    q = ffi.new('long double *', p[0])
    r = ffi.cast('long double', p[0])
    q2 = ffi.new('long double *', r)
    if bytes(ffi.buffer(q))[:10] != raw[:10] or bytes(ffi.buffer(q2))[:10] != raw[:10]:
        bad.append('long double bits %%s copied as %%s / %%s' %% (raw[:10].hex(), bytes(ffi.buffer(q))[:10].hex(), bytes(ffi.buffer(q2))[:10].hex()))
for b in bad:
    print('VIOLATED:', b)
sys.exit(1 if bad else 0)
'''


def make_replay(chk):
    def replay(case):
        path = chk.write_replay('%s-%s' % (case['kind'], case.get('tname', 'ld').replace(' ', '_')), REPLAY % json.dumps(case))
        rc, out = common.run_replay(path)
        return common.replay_verdict(rc, out), path
    return replay


def same_fp(a, b, sort):
    """IEEE value identity: equal bit patterns, or both NaN (payloads are not part of the claim)"""
    fa, fb = z3.fpBVToFP(a, sort), z3.fpBVToFP(b, sort)
    return z3.Or(a == b, z3.And(z3.fpIsNaN(fa), z3.fpIsNaN(fb)))


def narrow(D):
    """the float C obtains from (float)double: round-to-nearest-even, as bits"""
    return z3.fpToIEEEBV(z3.fpToFP(z3.RNE(), z3.fpBVToFP(D, F64), F32))


def widen(S):
    return z3.fpToIEEEBV(z3.fpToFP(z3.RNE(), z3.fpBVToFP(S, F32), F64))


def worker(args):
    prop, tier, what = args
    chk = hutil.sub_check(prop, tier)
    mod = irgen.backend()
    L = pystubs.CffiLayout(mod)
    F = L.flags
    replay = make_replay(chk)
    label = ':'.join(str(w) for w in what)

    def cplx_as(ex, o):
        i = pystubs.py(ex).info(o)
        if i['kind'] != 'complex':
            pystubs._typeerror(ex, 'complex expected')
            return [0xBFF0000000000000, 0]
        return [i['re'], i['im']]

    def cplx_from(ex, re, im):
        p = pystubs.py(ex)
        a = p.new_obj('complex', 'PyComplex_Type', 32, re=re, im=im)
        p.created.append(('PyComplex_FromCComplex', a, (re, im)))
        return a

    def fpext80(ex, v, sw, dw):
        raise llsym.Unsupported('value conversion involving x86_fp80 (only bit copies are claimed)')
    st = pystubs.stubs(PyComplex_AsCComplex=cplx_as, PyComplex_FromCComplex=cplx_from)
    ex = llsym.Executor(mod, st, loop_bound=16, solver_timeout_ms=300000)

    def on_oob(ex, what_, model):
        chk.report_failure('%s: stray memory access: %s' % (label, what_), {}, None, None)
    ex.on_oob = on_oob

    if what[0] in ('store', 'cast'):
        size, source = what[1], what[2]
        tname = 'float' if size == 4 else 'double'

        def h(ex):
            py = pystubs.PyEnv(ex)
            ct = pystubs.new_ctype(ex, L, size, F['CT_PRIMITIVE_FLOAT'])
            D = z3.BitVec('bits', 64)
            inputs = {'bits': D}
            extra = {'kind': what[0], 'tname': tname}
            if source == 'float':
                ob = py.new_float(D)
                val = D
            elif source == 'bytes1':
                c = z3.BitVec('c', 8)
                ob = py.new_bytes([c])
                val = z3.fpToIEEEBV(z3.fpUnsignedToFP(z3.RNE(), c, F64))
                inputs = {'c': c}
            else:
                sk = 2
                c = z3.BitVec('c', 16)
                ob = py.new_unicode([c], sk)
                val = z3.fpToIEEEBV(z3.fpUnsignedToFP(z3.RNE(), c, F64))
                inputs = {'c': c}
            rp = replay if source == 'float' else None
            kw = dict(inputs=inputs, replay=rp, extra_case=extra)
            if what[0] == 'store':
                data = ex.mem.alloc(size, 'target', 'input')
                r = simp(ex.call('convert_from_object', [data.base, ct, ob]))
                hutil.witness(chk, ex, label)
                hutil.discharge(chk, ex, label + ':store-succeeds', (r == 0) and py.exc is None, **kw)
                if r != 0:
                    return
                base = data.base
            else:
                r = simp(ex.call('do_cast', [ct, ob]))
                okk = is_c(r) and r != 0 and py.exc is None
                hutil.witness(chk, ex, label)
                hutil.discharge(chk, ex, label + ':cast-succeeds', okk, **kw)
                if not okk:
                    return
                base = simp(ex.mem.load(r + 24, 8))
            stored = bv(ex.mem.load(base, size), 8 * size)
            if size == 4:
                hutil.discharge(chk, ex, label + ':stored==(float)x', same_fp(stored, narrow(val), F32), **kw)
            else:
                hutil.discharge(chk, ex, label + ':stored==x', same_fp(stored, val, F64), **kw)
            # reading returns it
            o = simp(ex.call('convert_to_object', [base, ct]))
            okk = is_c(o) and o != 0 and py.exc is None and py.info(o)['kind'] == 'float'
            hutil.discharge(chk, ex, label + ':read-succeeds', okk, **kw)
            if okk:
                got = bv(py.info(o)['bits'], 64)
                want = widen(narrow(val)) if size == 4 else val
                hutil.discharge(chk, ex, label + ':read==stored-value', same_fp(got, want, F64), **kw)
    elif what[0] == 'complex':
        size = what[1]
        tname = 'float _Complex' if size == 8 else 'double _Complex'

        def h(ex):
            py = pystubs.PyEnv(ex)
            ct = pystubs.new_ctype(ex, L, size, F['CT_PRIMITIVE_COMPLEX'])
            RE, IM = z3.BitVec('re', 64), z3.BitVec('im', 64)
            ob = py.new_obj('complex', 'PyComplex_Type', 32, re=RE, im=IM)
            kw = dict(inputs={'re': RE, 'im': IM}, replay=replay, extra_case={'kind': 'complex', 'tname': tname})
            data = ex.mem.alloc(size, 'target', 'input')
            r = simp(ex.call('convert_from_object', [data.base, ct, ob]))
            hutil.witness(chk, ex, label)
            hutil.discharge(chk, ex, label + ':store-succeeds', (r == 0) and py.exc is None, **kw)
            if r != 0:
                return
            half = size // 2
            a = bv(ex.mem.load(data.base, half), 8 * half)
            b = bv(ex.mem.load(data.base + half, half), 8 * half)
            if half == 4:
                hutil.discharge(chk, ex, label + ':real-part', same_fp(a, narrow(RE), F32), **kw)
                hutil.discharge(chk, ex, label + ':imag-part', same_fp(b, narrow(IM), F32), **kw)
            else:
                hutil.discharge(chk, ex, label + ':real-part', same_fp(a, RE, F64), **kw)
                hutil.discharge(chk, ex, label + ':imag-part', same_fp(b, IM, F64), **kw)
            o = simp(ex.call('convert_to_object', [data.base, ct]))
            okk = is_c(o) and o != 0 and py.info(o)['kind'] == 'complex'
            hutil.discharge(chk, ex, label + ':read-succeeds', okk, **kw)
            if okk:
                i = py.info(o)
                wr = widen(narrow(RE)) if half == 4 else RE
                wi = widen(narrow(IM)) if half == 4 else IM
                hutil.discharge(chk, ex, label + ':read==stored', z3.And(same_fp(bv(i['re'], 64), wr, F64),
                                                                         same_fp(bv(i['im'], 64), wi, F64)), **kw)
    else:   # long double bit copies
        path = what[1]

        def h(ex):
            py = pystubs.PyEnv(ex)
            ct = pystubs.new_ctype(ex, L, 16, F['CT_PRIMITIVE_FLOAT'] | F['CT_IS_LONGDOUBLE'])
            RAW = z3.BitVec('raw', 80)
            src = ex.mem.alloc(16, 'source long double', 'input')
            ex.mem.store(src.base, RAW, 10)
            ex.mem.store(src.base + 10, z3.BitVec('pad', 48), 6)
            cd = pystubs.new_cdata(ex, L, ct, src.base)
            kw = dict(inputs={'raw': RAW}, replay=replay, extra_case={'kind': 'longdouble'})
            if path == 'store':
                dst = ex.mem.alloc(16, 'target', 'input')
                r = simp(ex.call('convert_from_object', [dst.base, ct, cd]))
                hutil.witness(chk, ex, label)
                hutil.discharge(chk, ex, label + ':store-succeeds', (r == 0) and py.exc is None, **kw)
                if r == 0:
                    hutil.discharge(chk, ex, label + ':80-value-bits-copied', bv(ex.mem.load(dst.base, 10), 80) == RAW, **kw)
            elif path == 'read':
                o = simp(ex.call('convert_to_object', [src.base, ct]))
                okk = is_c(o) and o != 0 and py.exc is None
                hutil.witness(chk, ex, label)
                hutil.discharge(chk, ex, label + ':read-gives-cdata', okk, **kw)
                if okk:
                    d2 = simp(ex.mem.load(o + 24, 8))
                    hutil.discharge(chk, ex, label + ':80-value-bits-copied', bv(ex.mem.load(d2, 10), 80) == RAW, **kw)
            else:
                o = simp(ex.call('do_cast', [ct, cd]))
                okk = is_c(o) and o != 0 and py.exc is None
                hutil.witness(chk, ex, label)
                hutil.discharge(chk, ex, label + ':cast-succeeds', okk, **kw)
                if okk:
                    d2 = simp(ex.mem.load(o + 24, 8))
                    hutil.discharge(chk, ex, label + ':80-value-bits-copied', bv(ex.mem.load(d2, 10), 80) == RAW, **kw)

    res = ex.explore(h, max_paths=2000)
    hutil.finish_explore(chk, ex, res, label)
    chk.functions = irgen.func_info(mod, sorted(ex.called))
    return hutil.export(chk)


def run(chk):
    P = (chk.prop, chk.tier)
    cases = []
    for size in (4, 8):
        for src in ('float', 'bytes1', 'str1'):
            cases.append(P + (('cast', size, src),))
        cases.append(P + (('store', size, 'float'),))
    cases += [P + (('complex', 8),), P + (('complex', 16),)]
    cases += [P + (('longdouble', p),) for p in ('store', 'read', 'cast')]
    chk.bounds = {'python float': 'all 2^64 bit patterns (finite, infinities, NaNs)', 'complex': 'both parts any double',
                  'cast sources': ['float', '1-byte bytes', '1-character str'], 'long double': 'all 2^80 value bit patterns'}
    chk.outside = ['the numeric value of (long double)double and back (x87 extension; only bit copies are claimed)',
                   'objects with __float__ (CPython protocol)', 'NaN payloads (NaN stays NaN is what is claimed)']
    chk.assume('IEEE-754 binary32/binary64 semantics of fptrunc/fpext as implemented by z3 FP (round-to-nearest-even)')
    irgen.backend()
    hutil.run_cases(chk, cases, worker)
