# known finding C07: array bounds that are expressions / qualifiers are accepted by the in-line FFI only
import sys, cffi, _cffi_backend
bad = []
for t in ('int[3*3]', 'int[(3)]', 'int[const]'):
    try: a = cffi.FFI().typeof(t)
    except Exception: a = None
    try: b = _cffi_backend.FFI().typeof(t)
    except Exception: b = None
    if (a is None) != (b is None): bad.append('typeof(%r): in-line %r, compiled %r' % (t, a, b))
for b in bad: print('VIOLATED:', b)
sys.exit(1 if bad else 0)
