# known finding C11: a tagged struct with a typedef alias has a different name in-line and in the out-of-line module
import sys, os, tempfile, importlib, atexit, shutil
import cffi
d = tempfile.mkdtemp(); atexit.register(shutil.rmtree, d, True)
sys.path.insert(0, d)
cdef = "struct outer { int a; }; typedef struct outer outer_t;"
ffi = cffi.FFI(); ffi.cdef(cdef)
ffi.set_source('_c11f_m', None); ffi.emit_python_code(os.path.join(d, '_c11f_m.py'))
m = importlib.import_module('_c11f_m')
a, b = ffi.typeof('struct outer').cname, m.ffi.typeof('struct outer').cname
if a != b:
    print('VIOLATED: typeof("struct outer") is named %r in-line and %r in the out-of-line module' % (a, b)); sys.exit(1)
sys.exit(0)
