# known finding C07: the in-line FFI accepts a type string without a type specifier, the compiled FFI rejects it
import sys, cffi, _cffi_backend
bad = []
for t in ('const', 'const *', 'volatile [ ]'):
    try: a = cffi.FFI().typeof(t)
    except Exception: a = None
    try: b = _cffi_backend.FFI().typeof(t)
    except Exception: b = None
    if (a is None) != (b is None): bad.append('typeof(%r): in-line %r, compiled %r' % (t, a, b))
for b in bad: print('VIOLATED:', b)
sys.exit(1 if bad else 0)
