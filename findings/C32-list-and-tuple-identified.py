# known finding C32: flatten() encodes lists and tuples identically
import sys
from cffi import ffiplatform
if ffiplatform.flatten({'libraries': ['m']}) == ffiplatform.flatten({'libraries': ('m',)}):
    print("VIOLATED: flatten({'libraries': ['m']}) == flatten({'libraries': ('m',)})"); sys.exit(1)
sys.exit(0)
