# known finding C31: a directive-like line inside a comment is removed before comments are stripped
import sys, cffi
def decls(src):
    ffi = cffi.FFI()
    try: ffi.cdef(src)
    except Exception as e: return 'error: %s' % type(e).__name__
    return sorted(ffi._parser._declarations)
a, b = decls('int a; int b;\n'), decls('int a; /*\n#0*/ int b;\n')
if a != b:
    print('VIOLATED: "int a; /*\\n#0*/ int b;" gives %r instead of %r' % (b, a)); sys.exit(1)
sys.exit(0)
