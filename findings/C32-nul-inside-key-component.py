# known finding C32: the verify() key joins its components with NUL without escaping
import sys, cffi
from cffi import verifier
def name(sources):
    ffi = cffi.FFI()
    for s in sources: ffi.cdef(s) if s.strip('\x00 ') and False else None
    ffi._cdefsources = list(sources)
    v = verifier.Verifier(ffi, 'int x;', force_generic_engine=True)
    return v.get_module_name()
a, b = name(['a', 'b']), name(['a\x00b'])
if a == b:
    print('VIOLATED: cdef sources [\'a\', \'b\'] and [\'a\\x00b\'] give the same module name', a); sys.exit(1)
sys.exit(0)
