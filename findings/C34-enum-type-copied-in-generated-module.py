# known finding C34: in generated (out-of-line) modules an enum of an included FFI is not shared but copied
import sys, os, tempfile, importlib, atexit, shutil
import cffi
d = tempfile.mkdtemp(); atexit.register(shutil.rmtree, d, True)
sys.path.insert(0, d)
f1 = cffi.FFI(); f1.cdef("enum e { EA = 3, EB }; struct S { int a; };")
f1.set_source('_c34f_m1', None); f1.emit_python_code(os.path.join(d, '_c34f_m1.py'))
f2 = cffi.FFI(); f2.include(f1); f2.cdef("struct T { enum e v; struct S s; };")
f2.set_source('_c34f_m2', None); f2.emit_python_code(os.path.join(d, '_c34f_m2.py'))
m1, m2 = importlib.import_module('_c34f_m1'), importlib.import_module('_c34f_m2')
bad = []
if m2.ffi.typeof('struct S') is not m1.ffi.typeof('struct S'):
    bad.append("struct S is not shared")           # (it is: this is the behaviour the property describes)
if m2.ffi.typeof('enum e') is not m1.ffi.typeof('enum e'):
    bad.append("m2.ffi.typeof('enum e') is not m1.ffi.typeof('enum e')")
try:
    m2.ffi.new('enum e *[1]', [m1.ffi.new('enum e *')])
except TypeError as e:
    bad.append("an 'enum e *' of the included module is refused by the including one: %s" % e)
# the in-line FFIs do share it
g1 = cffi.FFI(); g1.cdef("enum e { EA = 3, EB };")
g2 = cffi.FFI(); g2.include(g1)
assert g2.typeof('enum e') is g1.typeof('enum e')
for b in bad:
    print('VIOLATED:', b)
sys.exit(1 if bad else 0)
