# known finding C31: a backslash-newline between 'define' and the macro name is not recognised
import sys, cffi
def consts(src):
    ffi = cffi.FFI()
    try: ffi.cdef(src)
    except Exception as e: return 'error: %s' % type(e).__name__
    return sorted(ffi._parser._int_constants.items())
a, b = consts('#define FOO 42\n'), consts('#define \\\n FOO 42\n')
if a != b:
    print('VIOLATED: "#define \\\\\\n FOO 42" gives %r instead of %r' % (b, a)); sys.exit(1)
sys.exit(0)
