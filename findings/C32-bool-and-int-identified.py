# known finding C32: flatten() encodes True/False as 1/0
import sys
from cffi import ffiplatform
if ffiplatform.flatten({'k': True}) == ffiplatform.flatten({'k': 1}):
    print("VIOLATED: flatten({'k': True}) == flatten({'k': 1})"); sys.exit(1)
sys.exit(0)
