# known finding C15: a lone high surrogate followed by a lone low surrogate does not round-trip through char16_t[]
import sys, cffi
ffi = cffi.FFI()
s = chr(0xD800) + chr(0xDC00)      # a lone high surrogate followed by a lone low surrogate
a = ffi.new("char16_t[]", s)
back = ffi.string(a)
if back != s:
    print('VIOLATED: %r stored in a char16_t[] reads back as %r' % (s, back)); sys.exit(1)
sys.exit(0)
