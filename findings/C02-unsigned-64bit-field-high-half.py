# known finding C02: an unsigned 64-bit-wide bit-field rejects in-range values >= 2**63
import sys, cffi
ffi = cffi.FFI()
ffi.cdef("struct s { unsigned long long x:64; };")
p = ffi.new("struct s *")
try:
    p.x = 2**63
except OverflowError as e:
    print('VIOLATED: p.x = 2**63 on "unsigned long long x:64" raises OverflowError:', e); sys.exit(1)
sys.exit(0 if p.x == 2**63 else 1)
