# known finding C07: the compiled FFI's parser supports one level of grouping parentheses only
import sys, cffi, _cffi_backend
t = 'int((*))'
a = cffi.FFI().typeof(t)
try: b = _cffi_backend.FFI().typeof(t)
except Exception as e: b = None
if b is not a:
    print('VIOLATED: typeof(%r): in-line %r, compiled %r' % (t, a, b)); sys.exit(1)
sys.exit(0)
