"""pysym -- symbolic execution of real Python functions of src/cffi through proxy values.

SymInt wraps a z3 term and implements Python's int operators exactly (floor division, sign of
modulo, unbounded precision); a branch on a SymBool goes through the same decision-tree
explorer as llsym (re-execution DFS, feasibility by z3).  Two back ends, chosen per harness:
  'int' : z3 Int (mathematical integers) -- + - * // % comparisons; shifts by a constant-bounded
          amount are expanded as multiplication/division by 2**k after forking on k
  'bv'  : signed bit-vectors of width BVW (default 160) -- & | ^ << >> and comparisons; sound for
          operands the harness bounds to 64 bits because no intermediate result can wrap
The function under test is the real function object imported from /repo; only its int
arguments are proxies."""
import z3
from . import llsym

BVW = 160


class Unmodelled(llsym.Unsupported):
    """The code under test applied an operation the proxies do not model (e.g. true division).
    Harnesses fall back to solver-chosen concrete models of the path for such paths."""


class SymBool(object):
    def __init__(self, ex, term):
        self.ex, self.t = ex, term

    def __bool__(self):
        return self.ex.decide(self.t)

    def __invert__(self):
        return SymBool(self.ex, z3.Not(self.t))

    def __xor__(self, o):
        o = o.t if isinstance(o, SymBool) else z3.BoolVal(bool(o))
        return SymBool(self.ex, z3.Xor(self.t, o))

    __rxor__ = __xor__

    def __and__(self, o):
        o = o.t if isinstance(o, SymBool) else z3.BoolVal(bool(o))
        return SymBool(self.ex, z3.And(self.t, o))

    def __or__(self, o):
        o = o.t if isinstance(o, SymBool) else z3.BoolVal(bool(o))
        return SymBool(self.ex, z3.Or(self.t, o))

    def __eq__(self, o):
        o = o.t if isinstance(o, SymBool) else z3.BoolVal(bool(o))
        return SymBool(self.ex, self.t == o)

    def __ne__(self, o):
        o = o.t if isinstance(o, SymBool) else z3.BoolVal(bool(o))
        return SymBool(self.ex, self.t != o)

    __hash__ = None


class SymInt(object):
    """Python int semantics over a z3 Int ('int' back end) or signed BV ('bv' back end)."""

    def __init__(self, ex, term, mode):
        self.ex, self.t, self.mode = ex, term, mode

    # -- helpers
    def _lift(self, o):
        if isinstance(o, SymInt):
            return o.t
        if isinstance(o, bool):
            o = int(o)
        if isinstance(o, int):
            return z3.IntVal(o) if self.mode == 'int' else z3.BitVecVal(o, BVW)
        if isinstance(o, SymBool):
            one = z3.IntVal(1) if self.mode == 'int' else z3.BitVecVal(1, BVW)
            zero = z3.IntVal(0) if self.mode == 'int' else z3.BitVecVal(0, BVW)
            return z3.If(o.t, one, zero)
        return None

    def _mk(self, t):
        return SymInt(self.ex, t, self.mode)

    def _bin(self, o, f):
        b = self._lift(o)
        if b is None:
            return NotImplemented
        return self._mk(f(self.t, b))

    def _rbin(self, o, f):
        b = self._lift(o)
        if b is None:
            return NotImplemented
        return self._mk(f(b, self.t))

    def _cmp(self, o, f):
        b = self._lift(o)
        if b is None:
            return NotImplemented
        return SymBool(self.ex, f(self.t, b))

    # -- arithmetic
    def __add__(self, o):
        return self._bin(o, lambda a, b: a + b)

    def __radd__(self, o):
        return self._rbin(o, lambda a, b: a + b)

    def __sub__(self, o):
        return self._bin(o, lambda a, b: a - b)

    def __rsub__(self, o):
        return self._rbin(o, lambda a, b: a - b)

    def __mul__(self, o):
        return self._bin(o, lambda a, b: a * b)

    def __rmul__(self, o):
        return self._rbin(o, lambda a, b: a * b)

    def __neg__(self):
        return self._mk(-self.t)

    def __pos__(self):
        return self

    def __abs__(self):
        return self._mk(z3.If(self.t >= 0, self.t, -self.t))

    def __invert__(self):
        return self._mk(-self.t - 1)

    def _floordiv(self, a, b):
        # Python: ZeroDivisionError when b == 0, else floor(a/b)
        if self.ex.decide(b == 0):
            raise ZeroDivisionError('integer division or modulo by zero')
        if self.mode == 'int':
            # relational: a == q*b + r with r having the sign of b (Python's floor division)
            q = self.ex.fresh_int('fdiv_q')
            r = self.ex.fresh_int('fdiv_r')
            self.ex.add_definition(z3.And(a == q * b + r,
                                          z3.If(b > 0, z3.And(r >= 0, r < b), z3.And(r <= 0, r > b))))
            return q
        q = a / b               # signed BV division truncates toward zero
        r = z3.SRem(a, b)
        return z3.If(z3.And(r != 0, (r < 0) != (b < 0)), q - 1, q)

    def __floordiv__(self, o):
        b = self._lift(o)
        if b is None:
            return NotImplemented
        return self._mk(self._floordiv(self.t, b))

    def __rfloordiv__(self, o):
        b = self._lift(o)
        if b is None:
            return NotImplemented
        return self._mk(self._floordiv(b, self.t))

    def _mod(self, a, b):
        q = self._floordiv(a, b)
        return a - q * b

    def __divmod__(self, o):
        b = self._lift(o)
        if b is None:
            return NotImplemented
        if not (isinstance(b, int) and b == 0) and isinstance(o, int) and o == 0:
            raise ZeroDivisionError('integer division or modulo by zero')
        return (self.__floordiv__(o), self.__mod__(o))

    def __rdivmod__(self, o):
        b = self._lift(o)
        if b is None:
            return NotImplemented
        return (self.__rfloordiv__(o), self.__rmod__(o))

    def __mod__(self, o):
        b = self._lift(o)
        if b is None:
            return NotImplemented
        return self._mk(self._mod(self.t, b))

    def __rmod__(self, o):
        b = self._lift(o)
        if b is None:
            return NotImplemented
        return self._mk(self._mod(b, self.t))

    def __rtruediv__(self, o):
        raise Unmodelled('true division of symbolic ints')

    def __float__(self):
        raise Unmodelled('float() of a symbolic int')

    def __truediv__(self, o):
        raise Unmodelled('true division of symbolic ints')

    # -- shifts and bit operations
    def _shift(self, o, left):
        b = self._lift(o)
        if b is None:
            return NotImplemented
        if self.ex.decide(b < 0):
            raise ValueError('negative shift count')
        if self.mode == 'bv':
            # the harness bounds counts so that nothing wraps inside BVW bits
            if self.ex.decide(b >= BVW):
                raise llsym.Unsupported('shift count >= %d in the bv back end' % BVW)
            return self._mk(self.t << b if left else self.t >> b)
        k = self.ex.concretize_int(b, 130, 'shift count')
        if left:
            return self._mk(self.t * (1 << k))
        p = 1 << k
        return self._mk(self._floordiv(self.t, z3.IntVal(p)))

    def __lshift__(self, o):
        return self._shift(o, True)

    def __rshift__(self, o):
        return self._shift(o, False)

    def _bitop(self, o, f):
        if self.mode != 'bv':
            raise llsym.Unsupported('bit operation on the Int back end')
        return self._bin(o, f)

    def __and__(self, o):
        return self._bitop(o, lambda a, b: a & b)

    __rand__ = __and__

    def __or__(self, o):
        return self._bitop(o, lambda a, b: a | b)

    __ror__ = __or__

    def __xor__(self, o):
        return self._bitop(o, lambda a, b: a ^ b)

    __rxor__ = __xor__

    # -- comparisons
    def __lt__(self, o):
        return self._cmp(o, lambda a, b: a < b)

    def __le__(self, o):
        return self._cmp(o, lambda a, b: a <= b)

    def __gt__(self, o):
        return self._cmp(o, lambda a, b: a > b)

    def __ge__(self, o):
        return self._cmp(o, lambda a, b: a >= b)

    def __eq__(self, o):
        r = self._cmp(o, lambda a, b: a == b)
        return False if r is NotImplemented else r

    def __ne__(self, o):
        r = self._cmp(o, lambda a, b: a != b)
        return True if r is NotImplemented else r

    def __bool__(self):
        return self.ex.decide(self.t != 0)

    def __index__(self):
        # used as a list index / range bound: fork over the feasible concrete values (bounded)
        if self.mode == 'int':
            return self.ex.concretize_int(self.t, 64, 'int used as index')
        return llsym.signed(self.ex.concretize(self.t, BVW, 64, 'int used as index'), BVW)

    def __int__(self):
        raise llsym.Unsupported('int() of a symbolic int')

    __hash__ = None

    def __repr__(self):
        return 'SymInt(%s)' % self.t


class PyExplorer(llsym.Executor):
    """Decision-tree explorer for proxy execution.  With logic='QF_NIA' every query is sent to a
    fresh z3 solver for that logic (nlsat decides the division obligations in < 1 s where the
    default incremental core answers unknown)."""

    def __init__(self, solver_timeout_ms=120000, logic=None):
        llsym.Executor.__init__(self, [], {}, solver_timeout_ms=solver_timeout_ms)
        self.logic = logic

    def fresh_int(self, name):
        self.fresh_n += 1
        return z3.Int('%s!%d' % (name, self.fresh_n))

    def add_definition(self, c):
        """constraint defining fresh variables (always satisfiable): no feasibility check"""
        self.solver.add(c)
        self.pc.append(c)
        self._model = None

    def _fresh(self, *extra):
        import time
        s = z3.SolverFor(self.logic)
        s.set('timeout', self.solver_timeout_ms)
        for c in self.pc:
            s.add(c)
        for c in extra:
            s.add(c)
        t = time.time()
        self.stats['queries'] += 1
        r = s.check()
        self.stats['solver_s'] += time.time() - t
        return r, s

    def _feas(self, c):
        if self.logic is None:
            return llsym.Executor._feas(self, c)
        return self._fresh(c)[0]

    def sat(self, cond):
        if self.logic is None:
            return llsym.Executor.sat(self, cond)
        if cond is False:
            return None
        r, s = self._fresh(*([] if cond is True else [cond]))
        if r == z3.sat:
            return s.model()
        if r == z3.unsat:
            return None
        raise llsym.Unsupported('solver returned unknown (%s)' % s.reason_unknown())

    def model(self):
        if self.logic is None:
            return llsym.Executor.model(self)
        if self._model is None:
            r, s = self._fresh()
            if r != z3.sat:
                if r == z3.unknown:
                    raise llsym.Unsupported('solver unknown on path condition')
                return None
            self._model = s.model()
        return self._model

    def assume(self, cond):
        if self.logic is None:
            return llsym.Executor.assume(self, cond)
        if cond is True:
            return
        if cond is False:
            raise llsym.PathEnd()
        self.solver.add(cond)
        self.pc.append(cond)
        self._model = None
        r, s = self._fresh()
        if r == z3.unsat:
            raise llsym.PathEnd()
        if r == z3.unknown:
            raise llsym.Unsupported('solver unknown after assume')
        self._model = s.model()

    def concretize_int(self, t, limit, what):
        """fork over the feasible values of a z3 Int term (bounded)"""
        seen = 0
        while True:
            c = self.node.cval
            if c is None:
                m = self.model()
                if m is None:
                    raise llsym.PathEnd()
                c = self.node.cval = m.eval(t, model_completion=True).as_long()
            node_before = self.node
            if self.decide(t == c):
                return c
            if self.node is node_before:
                node_before.cval = None
                self._model = None
            seen += 1
            if seen > limit:
                raise llsym.UnwindBound('more than %d values for %s' % (limit, what))

    def sym_int(self, name, mode='int'):
        if mode == 'int':
            return SymInt(self, z3.Int(name), 'int')
        return SymInt(self, z3.BitVec(name, BVW), 'bv')
