"""Per-property registration data used to generate MANIFEST.json (vf/mkmanifest.py).
A property is listed under `checks` iff harness/<ID>.py exists and it has an entry in
CHECKS; otherwise it goes to not_applicable with the reason below."""

NOT_APPLICABLE = {
}

PENDING_REASON = ("check not built yet in this session (design in DESIGN.md section 4); "
                  "listed here until a sound solver-based harness is committed")

CHECKS = {}


def reg(pid, **kw):
    CHECKS[pid] = kw

reg('C02', engine='llsym',
    text='Bounded symbolic execution (own LLVM-IR executor + z3) of the real bit-field kernels with symbolic width, '
         'shift, storage word and Python int: every obligation of the statement (range-exact accept/reject, '
         'round-trip, isolation, read == C semantics) is a solver query over all values; no sampling. The placement (bit shift / width) of two-member aggregates of bit-fields, struct and union, is decided by the obligations of C01, run here as well.',
    note='Trusted: clang-14 IR of src/c/_cffi_backend.c at -O0+mem2reg, llsym semantics (validated concretely '
         'against the real build on every run), CPython API contracts in vf/pystubs.py, placement invariant '
         'bitshift+bitsize<=8*size (established by C01). _Bool limited to width 1.',
    technique='symbolic execution of LLVM IR, SMT (z3 bit-vectors), counterexample replay on the real build')

reg('C03', engine='llsym',
    text='Bounded symbolic execution of the three real integer store kernels (convert_from_object, the API-mode '
         '_cffi_to_c_<T> helpers, convert_from_object_fficallback) with the Python int and the previous memory '
         'content symbolic: accept iff in range, exact round-trip, OverflowError + unchanged memory on reject, '
         'whole ffi_arg written for callback results -- each a z3 query over all values.',
    note='Trusted: clang IR at -O0+mem2reg, llsym semantics (validated concretely against the real build each run), '
         'CPython contracts in vf/pystubs.py. Not covered: argument routing inside generated wrappers, non-int '
         'initializers, the _cffi_to_c_int macro for typedef-ed types.',
    technique='symbolic execution of LLVM IR, SMT (z3 bit-vectors), counterexample replay on the real build')

reg('C17', engine='llsym',
    text='Bounded symbolic execution of cdata_richcompare/cdata_hash/convert_to_object with symbolic type flags, '
         'addresses and primitive bytes: pointer-like comparisons equal unsigned address comparison for all six '
         'operators, mixed comparisons return NotImplemented, primitive cdata delegate to PyObject_RichCompare / '
         'PyObject_Hash with exactly the converted value, pointer hashes are a function of the address.',
    note='Trusted: clang IR, llsym semantics, CPython contracts (PyObject_RichCompare/Hash uninterpreted). '
         'long double/complex/wide-char primitives not covered.',
    technique='symbolic execution of LLVM IR, SMT (z3 bit-vectors + FP + uninterpreted functions)')

reg('C18', engine='llsym',
    text='Differential bounded symbolic execution: the real b_unpack (every casenum fast path) and the real '
         'convert_to_object are run on the same symbolic memory; z3 proves element i of the result equals p[i] '
         '(or both raise the same exception) for all item bytes, any alignment field, every misalignment 0..7.',
    note='Trusted: clang IR, llsym semantics, CPython constructor contracts (PyLong_From*, PyFloat_FromDouble, '
         'PyList_New, PyBytes_FromStringAndSize, PyUnicode_*). Length bounded (2 quick / 8 thorough; 4 for wide characters); '
         'char16_t/char32_t items are compared with the element-wise reads decoded as UTF-16/UTF-32; long double and complex '
         'item types not covered.',
    technique='differential symbolic execution of LLVM IR, SMT (z3 bit-vectors + FP)')

reg('C09', engine='pysym',
    text='The real Parser._parse_constant/_c_div are executed symbolically (proxy ints over z3 Int / 160-bit vectors, path forking '
         'through the solver) on every operator and on depth-2 shapes with arbitrary leaves, against a relational statement of C '
         'semantics wherever C defines the value; literal text (decimal/octal/hex/binary/suffixes/character constants with escapes) is '
         'a symbolic string (SymStr proxies, exact model of int()) constrained to the C constant grammar, against a reference evaluator.',
    note='Trusted: pysym proxy semantics of Python int operators, the C-semantics oracle in harness/C09.py, the SymStr model of str '
         'methods and int(). Operands typed as long long (unsigned-suffix modular arithmetic outside); literal length bounded '
         '(4 quick / 6 thorough). Where true division makes the proxy give up, solver-chosen boundary models are run on the real code.',
    technique='proxy symbolic execution of the real Python function (symbolic ints and strings), SMT (z3 Int/BV)')

reg('C35', engine='pysym',
    text='The real flags_from_pkgconfig/merge_flags/call are executed on symbolic tokens (SymStr proxies: '
         'every ASCII string of each length), symbolic exit status and a decode() that may fail; every decision '
         'the code takes forks through z3 and the result is proved equal to an independent reference translation.',
    note='Trusted: pysym/SymStr proxy semantics (validated against CPython), the reference in harness/C35.py; '
         'pkg-config output modelled as its token list, subprocess.Popen stubbed. Bounds: <=2+1(2) tokens of <=3(4) '
         'characters per package, 2 packages; package lists naming a package repeatedly (up to 4/5 entries).',
    technique='symbolic execution of the real Python functions via proxy strings, SMT (z3 bit-vectors)')

reg('C30', engine='pysym + llsym',
    text='Python side: the real _process_macros/_add_integer_constant/_parse_constant/convert_pycparser_error run on '
         'symbolic strings (every ASCII string up to the bound), symbolic ints and symbolic line numbers through '
         'proxy values with solver-guided forking; any path ending in an exception class other than the cffi ones is '
         'a violation; Parser._declare on every declared identifier up to 13/14 characters. C side: the real IR of '
         'parse_c_type.c on every byte string up to the bound with a bounds monitor on the input and output buffers, and '
         '_ffi_type on a str object of up to 3/4 arbitrary BMP code points with PyUnicode_AsUTF8 following its contract.',
    note='Trusted: pysym/SymStr proxy semantics incl. the model of int() and the regex NFA (validated against '
         'CPython on each change), llsym semantics. Not covered: exceptions raised inside pycparser itself, '
         'non-ASCII text, longer inputs.',
    technique='symbolic execution via proxy values (Python) and of LLVM IR (C), SMT (z3)')

reg('C25', engine='llsym+pysym',
    text='Bounded symbolic execution of the real search_sorted on a symbolic sorted table (names of symbolic '
         'content and length) and a symbolic search string: found index <=> exact equality, -1 <=> no entry equal, '
         'no read outside the strings, for all tables/strings within the bounds. The precondition (tables strictly '
         'increasing in byte order) is decided on the generator: the real Recompiler.collect_type_table / collect_step_tables '
         'run on declarations whose identifier names are symbolic strings, with and without the implicit FILE, C and Python targets.',
    note='Trusted: clang IR, llsym/pysym semantics, strncmp contract. Bounds: <=4 (9) entries, names <=3 (5) bytes; generator: two '
         'typedefs, one struct, one function of the listed name lengths.',
    technique='symbolic execution of LLVM IR and of the real Python generator via proxy strings, SMT (z3 bit-vectors)')

reg('C16', engine='llsym',
    text='Bounded symbolic execution of the real indexing, slicing, slice-assignment and pointer-arithmetic kernels '
         'with symbolic index/bounds (any Python int), length, item size and data address: accepted iff in range, '
         'IndexError without touching memory otherwise, exact addresses and view lengths, exactly j-i values for '
         'slice assignment, (p+i)-p==i and (p+i)[j]==p[i+j].',
    note='Trusted: clang IR, llsym semantics, CPython contracts in vf/pystubs.py. One step per operation from an '
         'arbitrary cdata (histories by induction). ffi.addressof/offsetof index forms not covered.',
    technique='symbolic execution of LLVM IR, SMT (z3 bit-vectors)')

reg('C19', engine='llsym',
    text='Bounded symbolic execution of the real minibuffer index/slice read and write paths, direct_from_buffer and '
         'b_memmove against a bytearray model written in z3: every index/slice bound (any int or None), every '
         'content, every buffer size up to the bound with an exact-size region so that any stray access is reported; '
         'from_buffer length arithmetic for any exporter length/item size; memmove for every overlap. The window ffi.buffer(cdata[, size]) creates (b_buffer_new) starts at the cdata and has the explicit size (0 included) or the natural size, for every array length and size.',
    note='Trusted: clang IR, llsym semantics, CPython contracts (PySlice_Unpack/AdjustIndices, buffer export '
         'counting) in vf/pystubs.py. Buffer size <= 3 (5) bytes; b_buffer_new size derivation not covered.',
    technique='symbolic execution of LLVM IR, SMT (z3 bit-vectors)')

reg('C15', engine='llsym',
    text='Bounded symbolic execution of the real string->array conversion and ffi.string paths for char, char16_t '
         'and char32_t with every code point symbolic (all storage kinds of CPython str, lone surrogates, astral '
         'characters) and symbolic previous array content: units == UTF-16/32 encoding, exactly one terminator when '
         'shorter, nothing past it touched, too-long rejected untouched, decode(encode(s)) == s.',
    note='Trusted: clang IR, llsym semantics, CPython str layout/contracts in vf/pystubs.py. Strings <= 2 (3) code '
         'points, arrays <= 4 (5) elements.',
    technique='symbolic execution of LLVM IR, SMT (z3 bit-vectors)')

reg('C04', engine='llsym',
    text='Bounded symbolic execution of the real do_cast/cast_to_integer_or_char for every integer/char target type '
         'and every source kind with the source value symbolic (Python int of any magnitude, every finite double, '
         'bytes, str code point, pointer address): the cast never fails and the stored bytes equal the value truncated '
         'toward zero reduced modulo 2**bits (0/1 for _Bool); pointer -> uintptr_t -> pointer keeps the address.',
    note='Trusted: clang IR, llsym semantics (incl. z3 FP for float sources), CPython contracts in vf/pystubs.py, '
         'the float.__int__ model described in the assumptions. Primitive cdata sources and __int__ protocol objects '
         'not covered.',
    technique='symbolic execution of LLVM IR, SMT (z3 bit-vectors + floating point)')

reg('C05', engine='llsym',
    text='Bounded symbolic execution (z3 floating-point theory) of the real float/complex/long-double store, read and '
         'cast kernels with all 64 bits of the source double symbolic: stored float bits == round-to-nearest-even '
         'narrowing, doubles stored identically, infinities/NaN preserved, complex parts independent, long double '
         'copies preserve all 80 value bits.',
    note='Trusted: clang IR, llsym semantics, z3 FP. The numeric long double <-> double conversion is not claimed.',
    technique='symbolic execution of LLVM IR, SMT (z3 floating point + bit-vectors)')

reg('C01', engine='llsym',
    text='Bounded symbolic execution of the real struct/union completion code on field sequences whose sizes, '
         'alignments, bit widths and named/anonymous flags are symbolic, proved equal (offsets, bit positions, '
         'sizeof, alignof, var-array flag, no rejection) to an independent statement of the SysV/GCC layout rule '
         'that is itself validated against gcc on random structs at every run; members of a nested *anonymous* struct/union are '
         'copied into the enclosing aggregate with their offset shifted and their bit position, width and ctor flag kept.',
    note='Trusted: clang IR, llsym semantics, the reference model (validated vs gcc), CPython contracts. Field count '
         '<= 3 (4); nesting represented inductively; cdef-to-backend plumbing only through replays.',
    technique='differential symbolic execution of LLVM IR against a reference model, SMT (z3 bit-vectors)')

reg('C10', engine='pysym + llsym',
    text='The real EnumType.build_baseinttype and Parser._build_enum_type run on symbolic enumerator values (proxy '
         'ints, solver-guided forking) against GCC\'s underlying-type rule and C\'s increment rule; the real '
         'b_new_enum_type/convert_cdata_to_enum_string run in llsym with an abstract dict: ffi.string gives the first '
         'declared name with that value or the decimal number.; API mode: the _cffi_prim_int/_cffi_prim_float macros map every (size, sign) to the fixed-width type of that size and sign; '
         'out-of-line ABI mode: every enumerator value in [-2**63, 2**64) comes back exactly through the module\'s _globals unpacking, and '
         'the module\'s enum entry denotes the integer type of the enum\'s size and signedness for each of the 8 rows.',
    note='Trusted: pysym proxies, llsym semantics, GCC\'s enum rule as stated, abstract dict model. API-mode enum '
         'size/sign (taken from the compiler) not covered.',
    technique='symbolic execution via proxy values (Python) and of LLVM IR (C), SMT (z3)')

reg('C33', engine='llsym+pysym',
    text='Differential symbolic execution of the two builds of the same (cdef, C source), both generated at run time by the '
         'working tree and compiled to IR: the verify() CPython engine\'s wrappers and constant functions (vengine_cpy, with its '
         'own conversion macros) against the set_source() ones (Recompiler, _cffi_include.h) over the same backend IR -- same '
         'acceptance, same value handed to C, same result object, same exception for every Python int / double over 17 integer '
         'types, _Bool, float, double and two multi-argument functions; integer constants of 10 types in checked / unchecked / '
         'static-const form for every compiler value; the generic engine\'s constant shim + the real _load_constant (symbolic '
         'ints) rebuild the compiler\'s value; its calls go through the libffi path (C13\'s obligation, cross-included); the '
         'layout list of a partial struct reaches tp.fixedlayout unchanged in both engines and model.finish_backend_type hands every '
         'field to the backend under its own name, declared type (a [...] array with the implied length) and reported offset; '
         'complete structs are accepted iff every reported number agrees; an enum is accepted iff the source matches the cdef; '
         'the integer type verify() guesses for an enum equals the compiler\'s choice for every pair of values.',
    note='Partial: pointer/char/struct/enum/callback arguments, global variables, non-integer constants, complete-struct checks '
         'and everything that needs compiling/importing the artefacts (done by the real replays for one function and two '
         'constants) are outside. Trusted: clang IR, llsym/pysym semantics, CPython contracts.',
    technique='differential symbolic execution of LLVM IR of two generated modules and of Python via proxy values, SMT (z3), '
              'counterexamples replayed by building all three artefacts with the real tool chain')

reg('C34', engine='llsym+pysym',
    text='Bounded symbolic execution of the real delegation code behind ffi.include(): _realize_c_struct_or_union / '
         '_fetch_external_struct_or_union, ffi_fetch_int_constant and lib_build_and_cache_attr over include graphs of up to 4 '
         'FFI/Lib objects whose tables have symbolic names and flags, under the representation invariant that Parser.include '
         'and the Recompiler establish: the ctype / value / lib attribute seen through the includer IS the defining module\'s '
         'object (pointer identity, both realization orders, cached, reference held); Parser.include on a symbolic '
         'declaration key shares exactly the type declarations as the same model object. Enum types are found NOT to be '
         'shared in generated modules (known finding).',
    note='Trusted: clang IR, llsym semantics, CPython contracts (tuple/dict/str), the stated table invariant (sorted, includers '
         're-list aggregates as external, one definer per tag). Import-time wiring (make_included_tuples) and in-line FFIs '
         'are exercised by the real-module replays only.',
    technique='symbolic execution of LLVM IR over symbolic module tables and of Python via proxy values, SMT (z3), '
              'counterexamples replayed on real generated modules')

reg('C36', engine='llsym',
    text='Bounded symbolic execution of the real thread-state protocol of misc_thread_common.h / misc_thread_posix.h '
         '(gil_ensure, gil_release, thread_canary_register / free_zombies / dealloc / make_zombie, cffi_thread_shutdown, '
         'get_cffi_tls): one step of each operation (callback twice in a row, thread exit, canary deallocation, zombie '
         'reclamation) from an arbitrary state satisfying the representation invariant (zombie list of up to 2/3 exited '
         'threads in any order, 0..1/2 live foreign threads, the caller in 4 situations, every gilstate_counter), which each '
         'step re-establishes -- so histories of any length are covered: the callback runs with a live, current thread state; '
         'a foreign thread\'s state and its dict survive the call and are found again by the next one; exited threads\' states '
         'are cleared and deleted exactly once; no freed memory is touched; shared links are only touched under the zombie lock.',
    note='Trusted: clang IR, llsym semantics, and the CPython / pthread CONTRACTS written in the harness (PyGILState_*, '
         'PyThreadState_Clear/Delete, TLS keys): the claim is cffi\'s side of the protocol. Leak / double-free / lock-discipline '
         'violations are reported from the model (no deterministic real-world symptom); behavioural ones are replayed with real '
         'foreign threads.',
    technique='symbolic execution of LLVM IR, inductive step from an arbitrary invariant-satisfying state, SMT (z3)')

reg('C37', engine='llsym',
    text='Bounded symbolic execution of the real in-line library accessors and of ffi_dlclose/lib_getattr/lib_setattr/'
         'cdlopen_fetch from the closed state (and of close from the open state with any handle and cached entries): '
         'no dlsym/dlclose call and no access to the unmapped library memory after a close, errors raised, closing '
         'again harmless; each step preserves the closed state, so any history is covered.',
    note='Trusted: clang IR, llsym semantics, abstract dict model, dlsym/dlclose stubs; lib_build_and_cache_attr is '
         'represented by its call to the real cdlopen_fetch. The Python wrapper in api.py is not covered.',
    technique='symbolic execution of LLVM IR from an arbitrary closed/open state, SMT (z3)')

reg('C20', engine='llsym',
    text='Bounded symbolic execution of the real ffi.new path: the size arithmetic (add_varsize_length, ffi.new("T[]", n)) '
         'accepts exactly the sizes that fit Py_ssize_t and never records a wrapped value; fresh memory is zero; '
         'ffi.new(T, init) succeeds iff ffi.new(T) + assignment does and leaves the same bytes, for list initializers, a '
         'struct and a union ending in a flexible array and a nested var-sized struct given as cdata; dict initializers set exactly the named '
         'fields (unknown key: KeyError), sequences fill leading fields in order, a union sequence sets its first member only, the rest stays zero; '
         'ffi.sizeof(p[0]) of a var-sized struct/union is the allocated size.',
    note='Trusted: clang IR, llsym semantics, calloc/malloc contracts, CPython contracts. Partial: small initializers, '
         'four aggregate shapes; custom allocators not covered.',
    technique='symbolic execution of LLVM IR, SMT (z3 bit-vectors)')

reg('C23', engine='pysym',
    text='The real _make_c_or_py_source runs on symbolic old/new contents (SymStr proxies) over a model POSIX file '
         'system with a symbolic crash point (every mutating operation, any written prefix): identical content leaves '
         'the file untouched and returns False; otherwise the target holds exactly old or exactly new at every crash '
         'point and exactly new with no temporary left when there is no crash.  Determinism: the real Recompiler and cdef parser '
         'run with `set` rebound to a subclass whose iteration order is chosen by the explorer (what PYTHONHASHSEED changes); the '
         'emitted C and Python texts of three cdefs are identical for every order.',
    note='Trusted: pysym/SymStr proxies, the POSIX file-system model (atomic rename that does not fail). Other sources of '
         'nondeterminism than set iteration order are not modelled (dicts are insertion-ordered).',
    technique='symbolic execution of the real Python function via proxies over a model file system with symbolic crash index, SMT (z3)')

reg('C24', engine='pysym',
    text='The real read_sources/exec_python/generate_c_source/write_c_source/find_ffi_in_python_script run on symbolic '
         'Unicode texts (cdef, prelude, module name, generated text, output argument, --ffi-var) with FFI replaced by '
         'a recorder whose emit_c_code is the real FFI.emit_c_code -> recompile -> make_c_source (only the Recompiler class '
         'writes an uninterpreted text): the FFI receives exactly the inputs, exactly the generated text reaches stdout -- and '
         'nothing else, the generator\'s own print() included -- iff the output is "-", else a file opened with encoding '
         'utf-8; io.StringIO newline modes are modelled; name/type errors are the documented ones.',
    note='Trusted: pysym/SymStr proxies; the text generator proper is uninterpreted (a fresh symbolic text); argparse and real '
         'files are covered by the tool replay only.',
    technique='symbolic execution of the real Python functions via proxy strings, SMT (z3)')

reg('C32', engine='pysym',
    text='The real flatten/_flatten and Verifier.__init__ key/name construction run on symbolic strings (str-subclass '
         'tokens expanded back into symbolic character lists): z3 proves flatten injective over all pairs of bounded value '
         'shapes, independent of dict insertion order, the joined key injective for NUL-free components and the name '
         'injective in the two CRC values; violations found (NUL inside a component, list/tuple, True/1) are known findings.',
    note='Trusted: pysym/SymStr/Tok proxies, CRC32 uninterpreted. Bounded shapes; int leaves from a fixed set.',
    technique='symbolic execution of the real Python functions via proxy strings, SMT (z3)')

reg('C26', engine='pysym + llsym',
    text='Rely/guarantee: the real FFI.init_once (Python, via proxies) and ffi_init_once (C, LLVM IR) are executed for ONE '
         'thread while the shared per-tag state is moved, at every yield point, to any state the rely condition allows '
         '(solver-forked); the thread\'s own writes are proved to be rely steps (guarantee), so the per-thread obligations '
         '(f only under the tag lock and never after a completion, result returned == published, exception propagates and '
         'caches nothing, the tag entry and its lock are never removed, lock released on every path) hold for any number of '
         'threads and any schedule.',
    note='Trusted: the rely condition printed in the evidence, atomicity of dict/lock primitives, lock fairness for '
         'termination. One tag; tags with re-entrant __eq__ not covered.',
    technique='rely/guarantee symbolic execution of one thread against a havocking environment, SMT-guided path forking (z3)')

reg('C11', engine='pysym + llsym',
    text='Partial: the serialisation codec of out-of-line ABI modules. The Python encoder (byte expressions taken from the '
         'AST of format_four_bytes, as_python_bytes on symbolic op/arg) and the C decoder (cdl_4bytes/cdl_opcode, IR) are '
         'proved inverse for every opcode the generator can emit; integer constants survive ffiobj_init -> '
         '_cdl_realize_global_int -> realize_global_int for every Python int in [-2**63, 2**64); the struct/union, field, enum and '
         'typename literals produced by the real encoder classes of recompiler.py (4-byte fields symbolic) are decoded by the real '
         'ffiobj_init into exactly the same numbers, names and flags; the name an aggregate gets in-line (cparser + model, '
         're-compiled from source with lifted literals) equals the name the out-of-line module realizes, for every tag / typedef '
         'alias of <=2 characters (known finding: tagged aggregate with a typedef alias).',
    note='Trusted: pysym/llsym semantics, CPython contracts. Whole-module equivalence (types, functions, globals through '
         'the import machinery) is NOT decided.',
    technique='symbolic execution via proxy values (Python AST) and of LLVM IR (C), SMT (z3 bit-vectors)')

reg('C21', engine='llsym',
    text='Partial: one symbolic step of every operation of cffi\'s finaliser state machine from an arbitrary object state '
         '(destructor/origobj present or not, destructor returning or raising): called iff set, at most once, with the '
         'original object, fields cleared before the call; release idempotent; never after gc(p, None); from_buffer exports '
         'released once; tp_traverse functions visit exactly the owned references; from_handle(new_handle(x)) is x.',
    note='Trusted: clang IR, llsym semantics; CPython runs tp_dealloc/tp_finalize once and collects cycles through tp_traverse. '
         'GC histories themselves are not explored.',
    technique='symbolic execution of LLVM IR, one step from an arbitrary object state (solver-forked)')

reg('C22', engine='llsym',
    text='Partial, rely/guarantee style: the real errno get/set functions and the real call brackets (cdata_call, '
         'invoke_callback, cffi_call_python, global-variable fetch) run with errno and the saved value as this thread\'s '
         'symbolic cells and errno havocked at every point where other code of the thread can run (incl. an extern "Python" function '
         'with no code attached, which must leave the caller\'s errno alone): errno at C entry == '
         'value assigned, ffi.errno afterwards == errno at C return, for every value including 0; the saved cell must be '
         'thread_local in the IR.',
    note='Trusted: per-thread storage of __thread variables and errno (compiler/libc); generated API-mode wrappers use the same '
         'exported save/restore pair.',
    technique='symbolic execution of LLVM IR with environment havoc of errno, SMT (z3 bit-vectors)')

reg('C13', engine='llsym',
    text='Partial: (a) the real fb_build/fb_fill_type run twice as fb_prepare_cif does, with symbolic size/alignment per '
         'argument: offsets aligned, areas disjoint and inside exchange_size, second pass writes exactly the counted bytes; '
         '(c) wrappers generated at run time by the working tree\'s Recompiler for a family of identity functions are '
         'compiled to IR and executed together with the backend IR: the C function receives exactly the value the libffi '
         'path\'s convert_from_object stores for the same Python object, same exceptions, errno bracket in place; in two multi-argument wrappers every argument reaches its own parameter, and with two invalid arguments (a pointer before / after an integer) the left-most one is reported, as on the libffi path; a struct argument with '
         '(multi-dimensional) array fields is flattened exactly into libffi\'s elements[].',
    note='Trusted: clang IR of backend and generated code, llsym semantics, CPython contracts. libffi itself, struct-by-value, '
         'variadic calls, pointer/char arguments and dlopen paths are not covered.',
    technique='symbolic execution of LLVM IR (backend + run-time generated module), differential against the libffi-path kernel, SMT (z3)')

reg('C12', engine='llsym',
    text='The checking kernels of API mode: (1) a module generated at run time by the working tree\'s Recompiler, whose '
         'constants are extern objects in the C source (the compiler\'s value is symbolic): the generated _cffi_const_K plus '
         'realize_global_int raise FFIError iff a stated cdef value differs from the compiler\'s, and otherwise return exactly '
         'the compiler\'s value (always so for unchecked "static const" constants); (2) b_complete_struct_or_union in '
         'compiler-provided mode with symbolic offsets/sizeof/alignof: with the check flag FFIError iff some number differs '
         'from what the cdef implies, with "..." the compiler\'s numbers are recorded verbatim; (3) detect_custom_layout; (4) the same constants used as an array length in a type string (parse_c_type): accepted iff the cdef agrees with the compiler and the value is non-negative, with the compiler\'s value. (5) structurally: every enum that has a C name takes its size and signedness from the compiler (sizeof / sign expression), not from the enumerators the cdef lists.',
    note='Trusted: clang IR, llsym semantics, CPython contracts. Functions/variables plumbing is C13; import machinery, '
         'verify() and the compile step are outside.',
    technique='symbolic execution of LLVM IR (backend + run-time generated module) with the C compiler\'s answers as symbolic inputs, SMT (z3)')

reg('C14', engine='llsym',
    text='The real prepare_callback_info_tuple + general_invoke_callback + convert_from_object_fficallback in both decoding '
         'modes (libffi void*[] / extern "Python" 8-byte slots) with the Python function and onerror as nondeterministic '
         'stubs (value | unconvertible | raises | None): arguments reach Python exactly; a convertible result reaches C exactly '
         '(widened to a whole ffi_arg through libffi); otherwise C receives the error= value (or onerror\'s convertible value); '
         'no exception is pending on return; swallowed exceptions are reported.  Plus the extern "Python" wrappers generated at '
         'run time by the working tree\'s Recompiler, executed with cffi_call_python and the above; a struct result whose onerror '
         'value fails to convert after some fields were written: C receives exactly the error= value.',
    note='Trusted: clang IR, llsym semantics, CPython contracts (PyErr_Fetch/Restore, unraisable hook). libffi closure '
         'trampoline, long double/pointer signatures, sub-interpreter refresh are outside.',
    technique='symbolic execution of LLVM IR (backend + run-time generated module) with nondeterministic Python-function stubs, SMT (z3)')

reg('C06', engine='llsym',
    text='The real new_primitive_type on every NUL-free byte string up to 22 bytes: succeeds iff the string is a key of '
         'model.ALL_PRIMITIVE_TYPES, and the ctype then has gcc\'s size/alignment and the kind/signedness gcc and model.py report; '
         'search_standard_typename on every byte string up to 24 bytes returns i iff the string is the name PRIMITIVE_TO_INDEX maps '
         'to i; build_primitive_type(num) for every int num names exactly PRIMITIVE_TO_INDEX^-1(num); parse_c_type on every table name '
         'yields OP_PRIMITIVE with the same index; the constant tables of parse_c_type.h and cffi_opcode.py are compared directly.',
    note='Trusted: clang IR (sizes are baked in by the compiler: compared with gcc\'s run-time answers), llsym, z3. '
         'The Python tables and gcc facts are reference data read at run time from the working tree / the platform compiler.',
    technique='symbolic execution of LLVM IR over symbolic name strings, SMT (z3); reference tables from the working tree and gcc')

reg('C08', engine='llsym+pysym',
    text='Name-building kernels: for every type name (symbolic characters) and hole position satisfying the name invariant, the real '
         'new_pointer_type / new_array_type / fb_prepare_ctype insert exactly the declarator text C requires (" *", "(*)" for arrays, '
         '"[N]", "(*)(args)") at the hole, move the hole correctly and keep the invariant; ffi_getctype (compiled FFI), b_getcname and '
         'the real FFI.getctype of api.py (proxy execution with symbolic strings, its string constants lifted) produce '
         'name[:pos] + D(text) + name[pos:] with the same parenthesis/space rule for every replace_with text over the declarator alphabet.',
    note='Trusted: clang IR, llsym/pysym semantics, SymStr model of str.strip/startswith. Re-parsing the text is not decided here '
         '(C07/C30); that insertion at the hole denotes the derived type is C\'s declarator grammar.',
    technique='symbolic execution of LLVM IR and proxy symbolic execution of api.FFI.getctype over symbolic names/texts, SMT (z3)')

reg('C29', engine='llsym',
    text='Inductive step on the real closure allocator: from every state of a chunk of M blocks with a symbolic free list and live '
         'set satisfying the representation invariant, cffi_closure_alloc returns a free (hence not live) block, cffi_closure_free '
         'returns exactly the given block, both keep the invariant and write no live block; more_core establishes the invariant '
         'inside an exact-size mapping for several page sizes/growth steps and fails cleanly; b_callback binds exactly the allocated '
         'block to invoke_callback with its own (ctype, function) tuple and cdataowninggc_dealloc hands that block back.',
    note='Trusted: clang IR, llsym, the ffi_prep_closure contract stub (libffi writes only the given closure). One inductive step '
         'covers histories of any length provided INV is the right invariant (it is established by more_core and kept by both steps).',
    technique='symbolic execution of LLVM IR from an arbitrary invariant-satisfying heap state (inductive step), SMT (z3)')

reg('C27', engine='llsym',
    text='Inductive steps on the real unique-type cache: from every cache state (symbolic key bytes, each weakref alive or dead) '
         'satisfying the representation invariant, get_unique_type returns the live ctype cached under this key or inserts x '
         'under it and keeps the invariant; ctypedescr_dealloc removes exactly the dying ctype\'s own dead entry and leaves '
         'live/replaced entries alone; and the keys built by the real new_pointer_type / new_array_type / new_function_type for two '
         'symbolic parameter choices are equal iff the two C types are the same (array lengths with every item size including 0, '
         'array arguments decayed to pointers).',
    note='Trusted: clang IR, llsym, contracts for PyDict_*/PyWeakref_* (3.13 API level). The Python-level model.global_cache '
         'memo is outside; primitive keys are table-row addresses (C06).',
    technique='symbolic execution of LLVM IR from an arbitrary invariant-satisfying cache state (inductive step) + two-run key injectivity, SMT (z3)')

reg('C07', engine='llsym',
    text='Token-level differential of the two type-string parsers: the real C parser (parse_c_type/parse_complete/parse_sequel) is '
         'executed symbolically over *every token sequence* of three bounded families (specifier orderings; pointers/arrays/parentheses; '
         'function types with void/ellipsis/const) -- token kinds are solver variables, the accepted sequences and their opcodes fall out of '
         'the accepting paths -- and compared with the real cparser.Parser.parse_type evaluated on every sequence of the same families; '
         'parse-level disagreements are re-run through both FFIs on the real build and only real differences are reported. The real '
         'lexer\'s keyword table is decided on symbolic identifier bytes.',
    note='Trusted: clang IR, llsym, lexer/peek stubs (stated), the opcode -> type-tree decoder mirroring realize_c_type. The Python '
         'parser is evaluated exhaustively within the same bounds, not symbolically (pycparser LALR tables).',
    technique='symbolic execution of LLVM IR over symbolic token sequences (SMT, z3) vs exhaustive bounded evaluation of the Python parser; residual disagreements replayed on the real build')

reg('C31', engine='pysym',
    text='Proxy symbolic execution of the real cparser._preprocess (with _remove_line_directives, _put_back_line_directives, '
         '_preprocess_extern_python, _warn_for_string_literal) on symbolic source text: at every token gap of four base cdefs a '
         'separator is inserted whose characters are solver variables (blanks, /* */ and // comments with arbitrary bodies, '
         'backslash-newline inside #define, # N "file" directives); the module\'s compiled regexes are simulated as Thompson NFAs '
         'over the symbolic characters (finditer/sub included); the preprocessed text must have the same tokens and macros as '
         'for the base, for every separator content.',
    note='Trusted: the SymRegex translation (validated against re on concrete mutated sources every run), SymStr model of str '
         'methods, lifted string constants. pycparser and everything after _preprocess see identical token streams.',
    technique='proxy symbolic execution of Python source with symbolic strings and NFA-simulated regexes, SMT (z3)')

reg('C28', engine='llsym',
    text='Rely/guarantee on the real start-up code of an embedding module generated at run time by the working tree\'s Recompiler '
         '(_cffi_start_and_call_python, _cffi_start_python, _cffi_carefully_make_gil, _cffi_acquire/release_reentrant_mutex): one '
         'thread\'s code runs against an environment that, at every compare-and-swap, blocking call and release, makes any step other '
         'threads of this and other libraries are allowed; obligations: Py_InitializeEx only under the process-wide lock and once; the '
         'mutex created once under its CAS word; the init code once, under the mutex, after "called" is set; fast path published only after '
         'a successful init and a write barrier; the extern "Python" function entered only after a successful init (or re-entrantly), '
         'zeroed result after a failed one; all locks released on every path; re-entrant call from the init code does not block.',
    note='Trusted: clang IR, llsym, the rely R (each obligation is also every other thread\'s guarantee: circular rely/guarantee), '
         'sequential consistency per access, fairness of lock holders. Cross-library init cycles and the init code body are outside.',
    technique='symbolic execution of LLVM IR of the run-time generated module under a nondeterministic environment (rely/guarantee), SMT (z3)')
