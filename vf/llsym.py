"""llsym -- bounded symbolic executor for LLVM IR (DESIGN.md 2.1), path mode.

Exploration is depth-first by *re-execution*: the harness function is run once per path;
every branch on a symbolic condition goes through `decide`, which consults a decision
tree that remembers which sides are feasible (incremental z3 query under the current path
condition) and which sub-trees are exhausted.  Stubs are plain Python functions that may
call `decide` themselves.

Values: a Python int (concrete, already reduced modulo 2**width) or a z3 bit-vector.
float/double/x86_fp80 values are carried as their IEEE bit patterns (BV32/BV64/BV80) and
converted to z3 FP sorts only inside arithmetic/conversion/compare instructions.
Memory: byte-addressed, concrete region bases; symbolic offsets inside one region are
supported by ite-expansion, after the solver has shown that the access cannot leave the
region (otherwise it is reported through `on_oob`)."""
import bisect, time, sys
import z3

from .llparse import parse_module, Function


class PathEnd(Exception):
    """Current path is finished (infeasible assumption, harness called ex.stop())."""


class Unsupported(Exception):
    pass


class UnwindBound(Exception):
    pass


class OutOfBounds(Exception):
    def __init__(self, what, model=None):
        Exception.__init__(self, what)
        self.model = model


class CheckFailed(Exception):
    def __init__(self, name, model):
        Exception.__init__(self, name)
        self.name, self.model = name, model


# ------------------------------------------------------------------------------------
# value helpers

def is_c(v):
    return isinstance(v, int)


def mask(w):
    return (1 << w) - 1


def bv(v, w):
    """to z3 bit-vector of width w"""
    if isinstance(v, int):
        return z3.BitVecVal(v, w)
    return v


def width_of(v, default=None):
    if isinstance(v, int):
        return default
    return v.size()


def simp(e):
    """simplify a z3 expr; return python int if it became a constant"""
    if isinstance(e, int):
        return e
    e = z3.simplify(e)
    if z3.is_bv_value(e):
        return e.as_long()
    return e


def signed(v, w):
    v &= mask(w)
    return v - (1 << w) if v >> (w - 1) else v


def zext(v, w_from, w_to):
    if is_c(v):
        return v
    return z3.ZeroExt(w_to - w_from, v)


def sext(v, w_from, w_to):
    if is_c(v):
        return signed(v, w_from) & mask(w_to)
    return z3.SignExt(w_to - w_from, v)


def trunc(v, w_to):
    if is_c(v):
        return v & mask(w_to)
    return simp(z3.Extract(w_to - 1, 0, v))


def ite(c, a, b, w):
    if c is True:
        return a
    if c is False:
        return b
    if is_c(a) and is_c(b) and a == b:
        return a
    return z3.If(c, bv(a, w), bv(b, w))


def bool_of(v):
    """i1 value -> python bool or z3 Bool"""
    if is_c(v):
        return bool(v & 1)
    if z3.is_bool(v):
        return v
    return v == 1


def i1(c):
    """python bool / z3 Bool -> i1 value"""
    if c is True:
        return 1
    if c is False:
        return 0
    return z3.If(c, z3.BitVecVal(1, 1), z3.BitVecVal(0, 1))


def b_and(*cs):
    out = []
    for c in cs:
        if c is False:
            return False
        if c is True:
            continue
        out.append(c)
    if not out:
        return True
    return out[0] if len(out) == 1 else z3.And(*out)


def b_or(*cs):
    out = []
    for c in cs:
        if c is True:
            return True
        if c is False:
            continue
        out.append(c)
    if not out:
        return False
    return out[0] if len(out) == 1 else z3.Or(*out)


def b_not(c):
    if c is True:
        return False
    if c is False:
        return True
    return z3.Not(c)


def eq(a, b, w):
    if is_c(a) and is_c(b):
        return a == b
    return bv(a, w) == bv(b, w)


def ult(a, b, w):
    if is_c(a) and is_c(b):
        return a < b
    return z3.ULT(bv(a, w), bv(b, w))


def ule(a, b, w):
    if is_c(a) and is_c(b):
        return a <= b
    return z3.ULE(bv(a, w), bv(b, w))


def slt(a, b, w):
    if is_c(a) and is_c(b):
        return signed(a, w) < signed(b, w)
    return bv(a, w) < bv(b, w)


def sle(a, b, w):
    if is_c(a) and is_c(b):
        return signed(a, w) <= signed(b, w)
    return bv(a, w) <= bv(b, w)


FSORT = {32: z3.Float32(), 64: z3.Float64()}


def to_fp(bits, w):
    return z3.fpBVToFP(bv(bits, w), FSORT[w])


def from_fp(f):
    return simp(z3.fpToIEEEBV(f))


# ------------------------------------------------------------------------------------
# memory

class Region(object):
    __slots__ = ('base', 'size', 'name', 'kind', 'init', 'freed', 'readonly', 'info')

    def __init__(self, base, size, name, kind):
        self.base, self.size, self.name, self.kind = base, size, name, kind
        self.init = None       # lazy initializer callable(region) -> None
        self.freed = False
        self.readonly = False
        self.info = None

    def __repr__(self):
        return '<region %s %s @%#x +%d>' % (self.kind, self.name, self.base, self.size)


class LazyByte(object):
    """byte `i` of the n-byte little-endian value v (symbolic)"""
    __slots__ = ('v', 'i', 'n')

    def __init__(self, v, i, n):
        self.v, self.i, self.n = v, i, n

    def get(self):
        return simp(z3.Extract(8 * self.i + 7, 8 * self.i, self.v))


class Memory(object):
    GUARD = 0x1000

    def __init__(self, ex):
        self.ex = ex
        self.bytes = {}
        self.regions = []      # sorted by base
        self.bases = []
        self.next_base = 0x100000
        self.fresh_counter = 0
        self.log = None        # when a list: (kind, addr, size, value) of every store

    def alloc(self, size, name, kind, align=16, fill=None):
        """fill: None -> unconstrained fresh bytes on first read; int -> that byte value"""
        base = (self.next_base + align - 1) // align * align
        # keep regions far apart so that symbolic offsets cannot run into a neighbour silently
        self.next_base = base + max(size, 1) + self.GUARD
        self.next_base = (self.next_base + 0xfff) // 0x1000 * 0x1000
        r = Region(base, size, name, kind)
        self.regions.append(r)
        self.bases.append(base)
        if fill is not None and size <= 1 << 16:
            b = self.bytes
            for a in range(base, base + size):
                b[a] = fill
        elif fill is not None:
            r.info = ('fill', fill)
        return r

    def region_of(self, addr):
        i = bisect.bisect_right(self.bases, addr) - 1
        if i >= 0:
            r = self.regions[i]
            if r.base <= addr < r.base + max(r.size, 1):
                return r
            if addr == r.base + r.size:
                return r      # one-past-the-end pointer (no access allowed, caller checks size)
        return None

    def _touch(self, r):
        if r.init is not None:
            f = r.init
            r.init = None
            f(r)

    def _resolve(self, addr, n, what):
        """concrete addr -> region; raises through ex.oob on failure"""
        r = self.region_of(addr)
        if r is None or addr + n > r.base + r.size or r.freed:
            self.ex.oob('%s of %d bytes at %#x: %s' % (
                what, n, addr, 'outside every region' if r is None else
                ('freed region ' if r.freed else 'past the end of ') + repr(r)))
            return None
        self._touch(r)
        return r

    def load_byte(self, a, r=None):
        b = self.bytes.get(a)
        if b is None:
            if r is None:
                r = self.region_of(a)
            if r is not None and r.info and r.info[0] == 'fill':
                b = r.info[1]
            else:
                self.fresh_counter += 1
                b = z3.BitVec('undef_%x_%d' % (a, self.fresh_counter), 8)
            self.bytes[a] = b
        return b

    def load(self, addr, n):
        """returns the little-endian value of n bytes (python int or BV(8n))"""
        ex = self.ex
        if not is_c(addr):
            addr = simp(addr)
        if not is_c(addr):
            return self._load_sym(addr, n)
        r = self._resolve(addr, n, 'load')
        if r is None:
            raise PathEnd()
        bs = [self.load_byte(addr + i, r) for i in range(n)]
        return self._combine(bs, n)

    def _combine(self, bs, n):
        if all(isinstance(b, int) for b in bs):
            v = 0
            for i, b in enumerate(bs):
                v |= b << (8 * i)
            return v
        b0 = bs[0]
        if isinstance(b0, LazyByte) and b0.i == 0 and b0.n == n and \
                all(isinstance(b, LazyByte) and b.v is b0.v and b.i == i for i, b in enumerate(bs)):
            return b0.v
        parts = []
        for b in bs:
            if isinstance(b, LazyByte):
                b = b.get()
            parts.append(bv(b, 8))
        if n == 1:
            return simp(parts[0])
        return simp(z3.Concat(*reversed(parts)))

    def store(self, addr, v, n):
        ex = self.ex
        if not is_c(addr):
            addr = simp(addr)
        if not is_c(addr):
            return self._store_sym(addr, v, n)
        r = self._resolve(addr, n, 'store')
        if r is None:
            raise PathEnd()
        if r.readonly:
            ex.oob('store to read-only %r' % r)
            raise PathEnd()
        if self.log is not None:
            self.log.append(('store', addr, n, v))
        if is_c(v):
            for i in range(n):
                self.bytes[addr + i] = (v >> (8 * i)) & 0xff
        else:
            for i in range(n):
                self.bytes[addr + i] = LazyByte(v, i, n)

    def byte_expr(self, a):
        b = self.load_byte(a)
        if isinstance(b, LazyByte):
            b = b.get()
        return b

    # ---- symbolic address inside one region -------------------------------------
    def _sym_region(self, addr, n, what):
        ex = self.ex
        tries = 0
        while True:
            a0 = ex.node.cval
            if a0 is None:
                m = ex.model()
                if m is None:
                    raise PathEnd()
                a0 = ex.node.cval = m.eval(addr, model_completion=True).as_long()
            r = self.region_of(a0)
            if r is None or r.size < n:
                ex.oob('%s of %d bytes through a symbolic pointer that can be %#x (%s)'
                       % (what, n, a0, 'outside every region' if r is None else 'too close to the end of %r' % r),
                       ex.model())
                raise PathEnd()
            inside = z3.And(z3.UGE(addr, r.base), z3.ULE(addr, r.base + r.size - n))
            node_before = ex.node
            if ex.decide(inside):
                break
            if ex.node is node_before:
                node_before.cval = None
                ex._model = None
            tries += 1
            if tries > 8:
                raise Unsupported('symbolic pointer may point into more than 8 regions')
        if r.freed:
            ex.oob('%s through symbolic pointer into freed %r' % (what, r))
            raise PathEnd()
        if r.size > ex.max_sym_region:
            raise Unsupported('symbolic-offset %s in region of %d bytes (%s)' % (what, r.size, r.name))
        self._touch(r)
        return r

    def _load_sym(self, addr, n):
        r = self._sym_region(addr, n, 'load')
        off = simp(addr - r.base)
        res = None
        # possible offsets: 0 .. size-n
        for k in range(r.size - n, -1, -1):
            val = bv(self._combine([self.load_byte(r.base + k + i, r) for i in range(n)], n), 8 * n)
            res = val if res is None else z3.If(off == k, val, res)
        return simp(res)

    def _store_sym(self, addr, v, n):
        r = self._sym_region(addr, n, 'store')
        if r.readonly:
            self.ex.oob('store to read-only %r' % r)
            raise PathEnd()
        if self.log is not None:
            self.log.append(('store', addr, n, v))
        off = simp(addr - r.base)
        v = bv(v, 8 * n)
        vb = [simp(z3.Extract(8 * i + 7, 8 * i, v)) for i in range(n)]
        for k in range(r.size):
            old = bv(self.byte_expr(r.base + k), 8)
            new = old
            for i in range(n):
                if 0 <= k - i <= r.size - n:
                    new = z3.If(off == (k - i), bv(vb[i], 8), new)
            self.bytes[r.base + k] = simp(new)


# ------------------------------------------------------------------------------------
# decision tree

class Node(object):
    __slots__ = ('feas', 'kids', 'done', 'cval')

    def __init__(self):
        self.feas = None      # (feasible_true, feasible_false)
        self.kids = [None, None]
        self.done = False
        self.cval = None      # deterministic choice made at this node (concretize / region pick)


class Frame(object):
    __slots__ = ('fn', 'vals', 'visits', 'allocas')

    def __init__(self, fn):
        self.fn = fn
        self.vals = {}
        self.visits = {}
        self.allocas = []


class Executor(object):
    def __init__(self, modules, stubs=None, loop_bound=64, max_depth=40, solver_timeout_ms=60000,
                 max_steps=400000):
        if not isinstance(modules, (list, tuple)):
            modules = [modules]
        self.modules = modules
        self.mod = modules[0] if modules else None
        self.stubs = dict(stubs or {})
        self.loop_bound = loop_bound
        self.max_depth = max_depth
        self.max_steps = max_steps
        self.max_sym_region = 512
        self.solver = z3.Solver()
        self.solver.set('timeout', solver_timeout_ms)
        self.solver_timeout_ms = solver_timeout_ms
        self.stats = {'paths': 0, 'queries': 0, 'solver_s': 0.0, 'steps': 0, 'ub': 0}
        self.ub_events = {}       # key -> description (first occurrence)
        self.oob_events = []
        self.called = set()       # names of IR functions executed
        self.stub_calls = set()
        self.on_oob = None
        self.trace_calls = None   # when a list: (name, args) for every call to a stub
        self.func_addr = {}
        self.addr_func = {}
        self._fa_next = 0x7f000000
        self.global_regions = {}
        self._reset_path(None)

    # ---- path state -------------------------------------------------------
    def _reset_path(self, root):
        self.mem = Memory(self)
        self.global_regions = {}
        self.pc = []
        self.pc_ids = {}
        self.node = root
        self.trail = []
        self.depth = 0
        self.steps = 0
        self.ghost = {}
        self._model = None
        self.fresh_n = 0
        if self.trace_calls is not None:
            self.trace_calls = []

    def fresh(self, name, w):
        self.fresh_n += 1
        return z3.BitVec('%s!%d' % (name, self.fresh_n), w)

    # ---- solver helpers ----------------------------------------------------
    def _check(self, *extra):
        t = time.time()
        self.stats['queries'] += 1
        r = self.solver.check(*extra)
        self.stats['solver_s'] += time.time() - t
        return r

    def sat(self, cond):
        """model of pc /\\ cond, or None if unsat; raises Unsupported on unknown"""
        if cond is False:
            return None
        self.solver.push()
        try:
            if cond is not True:
                self.solver.add(cond)
            r = self._check()
            if r == z3.sat:
                return self.solver.model()
            if r == z3.unsat:
                return None
            raise Unsupported('solver returned unknown (%s)' % self.solver.reason_unknown())
        finally:
            self.solver.pop()

    def _feas(self, c):
        self.solver.push()
        self.solver.add(c)
        r = self._check()
        self.solver.pop()
        return r

    def model(self):
        if self._model is None:
            r = self._check()
            if r != z3.sat:
                if r == z3.unknown:
                    raise Unsupported('solver unknown on path condition')
                return None
            self._model = self.solver.model()
        return self._model

    def assume(self, cond):
        if cond is True:
            return
        if cond is False:
            raise PathEnd()
        c = z3.simplify(cond)
        if z3.is_true(c):
            return
        if z3.is_false(c):
            raise PathEnd()
        self.solver.add(c)
        self.pc.append(c)
        self._model = None
        r = self._check()
        if r == z3.unsat:
            raise PathEnd()
        if r == z3.unknown:
            raise Unsupported('solver unknown after assume')

    def decide(self, cond):
        """Branch on a condition; returns a python bool, forking the exploration."""
        if cond is True or cond is False:
            return cond
        if is_c(cond):
            return bool(cond)
        c = z3.simplify(cond)
        if z3.is_true(c):
            return True
        if z3.is_false(c):
            return False
        node = self.node
        cid = c.get_id()
        if cid in self.pc_ids:
            return self.pc_ids[cid][1]
        if node.feas is None:
            # one side may already be witnessed by the cached model of the path condition
            ft = ff = None
            m = self._model
            if m is not None:
                try:
                    v = m.eval(c, model_completion=True)
                    if z3.is_true(v):
                        ft = z3.sat
                    elif z3.is_false(v):
                        ff = z3.sat
                except z3.Z3Exception:
                    pass
            if ft is None:
                ft = self._feas(c)
            if ff is None:
                ff = self._feas(z3.Not(c))
            if ft == z3.unknown or ff == z3.unknown:
                raise Unsupported('solver unknown in branch feasibility')
            node.feas = (ft == z3.sat, ff == z3.sat)
            if not node.feas[0] and not node.feas[1]:
                raise PathEnd()
        for side in (0, 1):
            if not node.feas[side]:
                continue
            kid = node.kids[side]
            if kid is None:
                kid = node.kids[side] = Node()
            if kid.done:
                continue
            both = node.feas[0] and node.feas[1]
            if both:
                lit = c if side == 0 else z3.Not(c)
                self.solver.add(lit)
                self.pc.append(lit)
                m = self._model
                if m is not None:
                    try:
                        v = m.eval(c, model_completion=True)
                        if not ((side == 0 and z3.is_true(v)) or (side == 1 and z3.is_false(v))):
                            self._model = None
                    except z3.Z3Exception:
                        self._model = None
            self.pc_ids[cid] = (c, side == 0)     # keeps c alive: z3 reuses ids of dead ASTs
            self.trail.append((node, side))
            self.node = kid
            return side == 0
        raise PathEnd()    # everything below already explored (should not happen)

    def concretize(self, v, w, limit=64, what='value'):
        """Fork over the feasible concrete values of v (at most `limit`)."""
        if is_c(v):
            return v
        v = simp(v)
        if is_c(v):
            return v
        seen = 0
        while True:
            c = self.node.cval
            if c is None:
                m = self.model()
                if m is None:
                    raise PathEnd()
                c = self.node.cval = m.eval(v, model_completion=True).as_long()
            node_before = self.node
            if self.decide(v == c):
                return c
            if self.node is node_before:
                # the answer came from the path condition (no tree node was consumed): this
                # candidate is already excluded, pick another one from a fresh model
                node_before.cval = None
                self._model = None
            seen += 1
            if seen > limit:
                raise UnwindBound('more than %d concrete values for %s' % (limit, what))

    # ---- exploration --------------------------------------------------------
    def explore(self, fn, on_path_end=None, max_paths=100000, time_limit=None):
        """Run fn(ex) once per feasible path.  Returns dict with stats; exceptions
        Unsupported/UnwindBound are collected in result['problems']."""
        root = Node()
        problems = []
        t0 = time.time()
        npaths = 0
        while not root.done:
            self.solver.reset()
            self.solver.set('timeout', self.solver_timeout_ms)
            self._reset_path(root)
            status = 'ok'
            try:
                fn(self)
            except PathEnd:
                status = 'end'
            except Unsupported as e:
                status = 'unsupported'
                problems.append('UNSUPPORTED ' + str(e))
            except UnwindBound as e:
                status = 'unwind'
                problems.append('UNWIND ' + str(e))
            npaths += 1
            self.stats['paths'] += 1
            if on_path_end:
                on_path_end(self, status)
            # mark leaf done and propagate
            self.node.done = True
            for node, side in reversed(self.trail):
                alldone = True
                for s in (0, 1):
                    if node.feas[s] and not (node.kids[s] is not None and node.kids[s].done):
                        alldone = False
                if alldone:
                    node.done = True
                else:
                    break
            if not self.trail:
                root.done = True
            if len(problems) > 20:
                problems.append('too many problems, exploration stopped')
                break
            if npaths >= max_paths:
                problems.append('path limit %d reached' % max_paths)
                break
            if time_limit and time.time() - t0 > time_limit:
                problems.append('time limit %ds reached after %d paths' % (time_limit, npaths))
                break
        return {'paths': npaths, 'problems': problems, 'seconds': time.time() - t0}

    # ---- obligations ----------------------------------------------------------
    def prove(self, prop):
        """None if pc => prop, else a model of pc /\\ not prop."""
        if prop is True:
            return None
        return self.sat(b_not(prop))

    # ---- diagnostics -----------------------------------------------------------
    def oob(self, what, model=None):
        self.oob_events.append(what)
        if self.on_oob:
            self.on_oob(self, what, model)
        else:
            raise OutOfBounds(what, model)

    def ub(self, key, what, cond=True):
        """Undefined behaviour reachable under cond on this path."""
        if key in self.ub_events:
            return
        m = self.sat(cond) if cond is not True else self.model()
        if m is not None:
            self.ub_events[key] = (what, m)
            self.stats['ub'] += 1

    # ---- addresses of functions / globals ------------------------------------------
    def faddr(self, name):
        a = self.func_addr.get(name)
        if a is None:
            a = self.func_addr[name] = self._fa_next
            self.addr_func[a] = name
            self._fa_next += 16
        return a

    def find_function(self, name):
        for m in self.modules:
            f = m.functions.get(name)
            if f is not None and not f.declared_only:
                return f, m
        return None, None

    def find_global(self, name):
        for m in self.modules:
            g = m.globals.get(name)
            if g is not None and not g.external:
                return g, m
        for m in self.modules:
            g = m.globals.get(name)
            if g is not None:
                return g, m
        return None, None

    def gaddr(self, name):
        r = self.global_regions.get(name)
        if r is not None:
            return r.base
        for m in self.modules:
            if name in m.functions:
                return self.faddr(name)
        g, m = self.find_global(name)
        if g is None or g.external:
            h = self.stubs.get('@' + name)
            if h is None:
                h = self.stubs.get('@*')
            if h is None:
                raise Unsupported('external global @%s has no model' % name)
            r = h(self, name, g, m)
            self.global_regions[name] = r
            return r.base
        t = g.ty
        try:
            size = m.sizeof(t)
        except ValueError:
            size = 64
        r = self.mem.alloc(size, '@' + name, 'global', align=16)
        r.readonly = False
        self.global_regions[name] = r
        if g.init is not None:
            init, ty = g.init, g.ty

            def do_init(region, init=init, ty=ty, m=m):
                self._write_const(region.base, ty, init, m)
            r.init = do_init
        return r.base

    def _write_const(self, addr, ty, val, m):
        mem = self.mem.bytes
        ty = m.resolve(ty)
        k = val[0]
        if k == 'zero' or k == 'undef':
            for a in range(addr, addr + m.sizeof(ty)):
                mem[a] = 0
            return
        if k == 'bytes':
            for i, b in enumerate(val[1]):
                mem[addr + i] = b
            return
        if k == 'agg':
            if ty[0] == 'struct':
                offs, size, align = m.struct_layout(ty)
                for a in range(addr, addr + size):
                    mem.setdefault(a, 0)
                for (et, ev), off in zip(val[1], offs):
                    self._write_const(addr + off, et, ev, m)
            else:
                es = m.sizeof(ty[2])
                for i, (et, ev) in enumerate(val[1]):
                    self._write_const(addr + i * es, et, ev, m)
            return
        v = self.const_value(ty, val, m)
        n = m.sizeof(ty)
        if ty[0] == 'fp80':
            n = 10
            for a in range(addr + 10, addr + 16):
                mem[a] = 0
        if not is_c(v):
            raise Unsupported('symbolic constant initializer')
        for i in range(n):
            mem[addr + i] = (v >> (8 * i)) & 0xff

    def const_value(self, ty, val, m):
        k = val[0]
        if k == 'int':
            w = ty[1] if ty[0] == 'int' else 64
            return val[1] & mask(w)
        if k == 'global':
            return self.gaddr(val[1])
        if k in ('undef', 'zero'):
            if ty[0] in ('struct', 'array', 'named'):
                rt = m.resolve(ty)
                if rt[0] == 'struct':
                    return [self.const_value(f, ('zero',), m) for f in rt[1]]
                if rt[0] == 'array':
                    return [self.const_value(rt[2], ('zero',), m) for _ in range(rt[1])]
            return 0
        if k == 'fp':
            import struct
            if ty[0] == 'float':
                return struct.unpack('<I', struct.pack('<f', val[1]))[0]
            return struct.unpack('<Q', struct.pack('<d', val[1]))[0]
        if k == 'hexfp':
            s = val[1]
            if s.startswith('0xK'):
                return int(s[3:], 16)
            bits = int(s[2:], 16)
            if ty[0] == 'float':
                import struct
                d = struct.unpack('<d', struct.pack('<Q', bits))[0]
                return struct.unpack('<I', struct.pack('<f', d))[0]
            return bits
        if k == 'cexpr':
            op = val[1]
            if op in ('bitcast', 'ptrtoint', 'inttoptr', 'addrspacecast'):
                v = self.const_value(val[2], val[3], m)
                if val[4][0] == 'int':
                    v &= mask(val[4][1])
                return v
            if op == 'getelementptr':
                ops = val[3]
                base = self.const_value(ops[0][0], ops[0][1], m)
                idx = [self.const_value(t, v, m) for t, v in ops[1:]]
                idx_t = [t for t, v in ops[1:]]
                return self.gep(m, val[2], base, idx, idx_t)
            if op in ('trunc', 'zext', 'sext'):
                v = self.const_value(val[2], val[3], m)
                return self.cast(op, v, val[2], val[4])
            if op in ('add', 'sub', 'mul', 'and', 'or', 'xor', 'shl', 'lshr'):
                a = self.const_value(val[2], val[3], m)
                b = self.const_value(val[2], val[4], m)
                return self.binop(op, a, b, val[2][1] if val[2][0] == 'int' else 64, None)
            raise Unsupported('constant expression %s' % op)
        if k == 'agg':
            return [self.const_value(t, v, m) for t, v in val[1]]
        raise Unsupported('constant %r' % (val,))

    # ---- instruction semantics ---------------------------------------------------------
    def gep(self, m, basety, base, idx, idx_t):
        """idx: list of values (ints or BVs of their own width)"""
        addr = base
        ty = basety
        first = True
        for v, t in zip(idx, idx_t):
            w = t[1]
            if first:
                scale = m.sizeof(ty)
                first = False
            else:
                ty = m.resolve(ty)
                if ty[0] == 'struct':
                    if not is_c(v):
                        raise Unsupported('symbolic struct index')
                    offs, _, _ = m.struct_layout(ty)
                    addr = self._add64(addr, offs[v])
                    ty = ty[1][v]
                    continue
                elif ty[0] in ('array', 'vector'):
                    ty = ty[2]
                    scale = m.sizeof(ty)
                else:
                    raise Unsupported('gep into %r' % (ty,))
            if is_c(v):
                addr = self._add64(addr, (signed(v, w) * scale) & mask(64))
            else:
                vv = sext(v, w, 64) if w < 64 else v
                addr = self._add64(addr, vv * scale if scale != 1 else vv)
        return addr

    @staticmethod
    def _add64(a, b):
        if is_c(a) and is_c(b):
            return (a + b) & mask(64)
        if is_c(b) and b == 0:
            return a
        if is_c(a) and a == 0:
            return b
        return simp(bv(a, 64) + bv(b, 64))

    def binop(self, op, a, b, w, ins):
        ca, cb = is_c(a), is_c(b)
        M = mask(w)
        if ca and cb:
            if op == 'add':
                return (a + b) & M
            if op == 'sub':
                return (a - b) & M
            if op == 'mul':
                return (a * b) & M
            if op == 'and':
                return a & b
            if op == 'or':
                return a | b
            if op == 'xor':
                return a ^ b
            if op in ('shl', 'lshr', 'ashr'):
                if b >= w:
                    self.ub(('shift', id(ins)), 'shift count %d >= width %d in %s' % (
                        b, w, ins.text.strip() if ins else '?'))
                    b &= w - 1
                if op == 'shl':
                    return (a << b) & M
                if op == 'lshr':
                    return a >> b
                return (signed(a, w) >> b) & M
            if op in ('udiv', 'urem', 'sdiv', 'srem'):
                if b == 0:
                    self.ub(('div', id(ins)), 'division by zero in %s' % (ins.text.strip() if ins else '?'))
                    raise PathEnd()
                if op == 'udiv':
                    return a // b
                if op == 'urem':
                    return a % b
                sa, sb = signed(a, w), signed(b, w)
                q = abs(sa) // abs(sb)
                if (sa < 0) != (sb < 0):
                    q = -q
                if op == 'sdiv':
                    if q == 1 << (w - 1):
                        self.ub(('div', id(ins)), 'signed division overflow')
                    return q & M
                return (sa - q * sb) & M
            raise Unsupported('binop ' + op)
        za, zb = bv(a, w), bv(b, w)
        if op == 'add':
            if cb and b == 0:
                return a
            if ca and a == 0:
                return b
            r = za + zb
        elif op == 'sub':
            if cb and b == 0:
                return a
            r = za - zb
        elif op == 'mul':
            r = za * zb
        elif op == 'and':
            if (cb and b == 0) or (ca and a == 0):
                return 0
            r = za & zb
        elif op == 'or':
            r = za | zb
        elif op == 'xor':
            r = za ^ zb
        elif op in ('shl', 'lshr', 'ashr'):
            if not cb:
                self.ub(('shift', id(ins)), 'shift count >= width %d possible in %s' % (
                    w, ins.text.strip() if ins else '?'), z3.UGE(zb, w))
                zb = zb & (w - 1)     # x86-64 behaviour, so that models replay on the real build
            if op == 'shl':
                r = za << zb
            elif op == 'lshr':
                r = z3.LShR(za, zb)
            else:
                r = za >> zb
        elif op in ('udiv', 'urem', 'sdiv', 'srem'):
            if not cb:
                self.ub(('div', id(ins)), 'division by zero possible in %s' % (
                    ins.text.strip() if ins else '?'), zb == 0)
                self.assume(zb != 0)
            if op in ('sdiv', 'srem'):
                self.ub(('divovf', id(ins)), 'signed division overflow possible',
                        z3.And(za == (1 << (w - 1)), zb == M))
            if op == 'udiv':
                r = z3.UDiv(za, zb)
            elif op == 'urem':
                r = z3.URem(za, zb)
            elif op == 'sdiv':
                r = za / zb
            else:
                r = z3.SRem(za, zb)
        else:
            raise Unsupported('binop ' + op)
        return simp(r)

    def fbinop(self, op, a, b, w):
        fa, fb = to_fp(a, w), to_fp(b, w)
        rm = z3.RNE()
        if op == 'fadd':
            r = z3.fpAdd(rm, fa, fb)
        elif op == 'fsub':
            r = z3.fpSub(rm, fa, fb)
        elif op == 'fmul':
            r = z3.fpMul(rm, fa, fb)
        elif op == 'fdiv':
            r = z3.fpDiv(rm, fa, fb)
        else:
            raise Unsupported('float op ' + op)
        return from_fp(r)

    def icmp(self, pred, a, b, w):
        if pred == 'eq':
            return eq(a, b, w)
        if pred == 'ne':
            return b_not(eq(a, b, w))
        if pred == 'ult':
            return ult(a, b, w)
        if pred == 'ule':
            return ule(a, b, w)
        if pred == 'ugt':
            return ult(b, a, w)
        if pred == 'uge':
            return ule(b, a, w)
        if pred == 'slt':
            return slt(a, b, w)
        if pred == 'sle':
            return sle(a, b, w)
        if pred == 'sgt':
            return slt(b, a, w)
        if pred == 'sge':
            return sle(b, a, w)
        raise Unsupported('icmp ' + pred)

    def fcmp(self, pred, a, b, w):
        fa, fb = to_fp(a, w), to_fp(b, w)
        uno = z3.Or(z3.fpIsNaN(fa), z3.fpIsNaN(fb))
        table = {
            'oeq': lambda: z3.fpEQ(fa, fb), 'ogt': lambda: z3.fpGT(fa, fb), 'oge': lambda: z3.fpGEQ(fa, fb),
            'olt': lambda: z3.fpLT(fa, fb), 'ole': lambda: z3.fpLEQ(fa, fb),
            'one': lambda: z3.And(z3.Not(uno), z3.Not(z3.fpEQ(fa, fb))),
            'ord': lambda: z3.Not(uno), 'uno': lambda: uno,
            'ueq': lambda: z3.Or(uno, z3.fpEQ(fa, fb)), 'une': lambda: z3.Or(uno, z3.Not(z3.fpEQ(fa, fb))),
            'ugt': lambda: z3.Or(uno, z3.fpGT(fa, fb)), 'uge': lambda: z3.Or(uno, z3.fpGEQ(fa, fb)),
            'ult': lambda: z3.Or(uno, z3.fpLT(fa, fb)), 'ule': lambda: z3.Or(uno, z3.fpLEQ(fa, fb)),
            'true': lambda: True, 'false': lambda: False,
        }
        r = table[pred]()
        if r is True or r is False:
            return r
        r = z3.simplify(r)
        if z3.is_true(r):
            return True
        if z3.is_false(r):
            return False
        return r

    _FPW = {'float': 32, 'double': 64, 'fp80': 80}

    def cast(self, op, v, st, dt):
        if op in ('bitcast', 'inttoptr', 'ptrtoint', 'addrspacecast'):
            sw = self.tywidth(st)
            dw = self.tywidth(dt)
            if isinstance(v, list):
                return v
            if dw < sw:
                return trunc(v, dw)
            if dw > sw:
                return zext(v, sw, dw)
            return v
        if op == 'trunc':
            return trunc(v, dt[1])
        if op == 'zext':
            return zext(v, st[1], dt[1])
        if op == 'sext':
            return sext(v, st[1], dt[1])
        sw = self._FPW.get(st[0])
        dw = self._FPW.get(dt[0])
        if op == 'fpext' or op == 'fptrunc':
            if sw == 80 or dw == 80:
                h = self.stubs.get('!' + op + '80')
                if h is not None:
                    return h(self, v, sw, dw)
                # x87 extended precision as z3's FPSort(15, 64); the explicit integer bit is the canonical one
                # (unnormals / pseudo-denormals are not modelled)
                X = z3.FPSort(15, 64)
                if sw == 80:
                    b = bv(v, 80)
                    f = z3.fpFP(z3.Extract(79, 79, b), z3.Extract(78, 64, b), z3.Extract(62, 0, b))
                    if dw == 80:
                        return v
                    return from_fp(z3.fpToFP(z3.RNE(), f, FSORT[dw]))
                f = z3.fpToFP(z3.RNE(), to_fp(v, sw), X)
                ie = z3.fpToIEEEBV(f)                       # 79 bits: sign, 15 exponent bits, 63 fraction bits
                sign, ex_, fr = z3.Extract(78, 78, ie), z3.Extract(77, 63, ie), z3.Extract(62, 0, ie)
                intbit = z3.If(ex_ == 0, z3.BitVecVal(0, 1), z3.BitVecVal(1, 1))
                return simp(z3.Concat(sign, ex_, intbit, fr))
            return from_fp(z3.fpToFP(z3.RNE(), to_fp(v, sw), FSORT[dw]))
        if op in ('sitofp', 'uitofp'):
            if dw == 80:
                h = self.stubs.get('!' + op + '80')
                if h is None:
                    raise Unsupported(op + ' to x86_fp80 without a model')
                return h(self, v, st[1], dw)
            x = bv(v, st[1])
            if op == 'sitofp':
                return from_fp(z3.fpSignedToFP(z3.RNE(), x, FSORT[dw]))
            return from_fp(z3.fpUnsignedToFP(z3.RNE(), x, FSORT[dw]))
        if op in ('fptosi', 'fptoui'):
            if sw == 80:
                h = self.stubs.get('!' + op + '80')
                if h is None:
                    raise Unsupported(op + ' from x86_fp80 without a model')
                return h(self, v, sw, dt[1])
            f = to_fp(v, sw)
            if op == 'fptosi':
                return simp(z3.fpToSBV(z3.RTZ(), f, z3.BitVecSort(dt[1])))
            return simp(z3.fpToUBV(z3.RTZ(), f, z3.BitVecSort(dt[1])))
        raise Unsupported('cast ' + op)

    def tywidth(self, t):
        k = t[0]
        if k == 'int':
            return t[1]
        if k == 'ptr':
            return 64
        if k == 'float':
            return 32
        if k == 'double':
            return 64
        if k == 'fp80':
            return 80
        raise Unsupported('width of %r' % (t,))

    def store_size(self, m, t):
        t = m.resolve(t)
        if t[0] == 'fp80':
            return 10
        if t[0] == 'int':
            return (t[1] + 7) // 8
        return m.sizeof(t)

    # ---- typed memory access (handles aggregates) ---------------------------------
    def load_typed(self, m, t, addr):
        t = m.resolve(t)
        if t[0] == 'struct':
            offs, _, _ = m.struct_layout(t)
            return [self.load_typed(m, ft, self._add64(addr, o)) for ft, o in zip(t[1], offs)]
        if t[0] in ('array', 'vector'):
            es = m.sizeof(t[2])
            return [self.load_typed(m, t[2], self._add64(addr, i * es)) for i in range(t[1])]
        n = self.store_size(m, t)
        v = self.mem.load(addr, n)
        if t[0] == 'int' and t[1] % 8:
            v = trunc(v, t[1])
        return v

    def store_typed(self, m, t, v, addr):
        t = m.resolve(t)
        if t[0] == 'struct':
            offs, _, _ = m.struct_layout(t)
            for ft, o, fv in zip(t[1], offs, v):
                self.store_typed(m, ft, fv, self._add64(addr, o))
            return
        if t[0] in ('array', 'vector'):
            es = m.sizeof(t[2])
            for i in range(t[1]):
                self.store_typed(m, t[2], v[i], self._add64(addr, i * es))
            return
        n = self.store_size(m, t)
        if t[0] == 'int' and t[1] % 8:
            v = zext(v, t[1], 8 * n)
        self.mem.store(addr, v, n)

    # ---- calls -------------------------------------------------------------------------
    def call(self, name, args, argtys=None):
        """Call IR function or stub by name with already-evaluated argument values."""
        h = self.stubs.get(name)
        if h is not None:
            self.stub_calls.add(name)
            if self.trace_calls is not None:
                self.trace_calls.append((name, list(args)))
            return h(self, *args)
        f, m = self.find_function(name)
        if f is None:
            if name.startswith('llvm.'):
                return self.intrinsic(name, args)
            raise Unsupported('call to %s: no definition and no stub' % name)
        return self.run_function(f, m, args)

    def intrinsic(self, name, args):
        if name.startswith('llvm.dbg.') or name.startswith('llvm.lifetime.') or \
                name.startswith('llvm.var.annotation') or name.startswith('llvm.donothing'):
            return None
        if name.startswith('llvm.expect.'):
            return args[0]
        if name.startswith('llvm.assume'):
            return None
        if name.startswith('llvm.memcpy.') or name.startswith('llvm.memmove.'):
            self.memcpy(args[0], args[1], args[2], name)
            return None
        if name.startswith('llvm.memset.'):
            self.memset(args[0], args[1], args[2])
            return None
        if name.startswith('llvm.objectsize.'):
            return mask(64) if (is_c(args[1]) and args[1] == 0) else 0
        if name.startswith('llvm.fabs.'):
            w = 64 if name.endswith('f64') else 32
            return simp(bv(args[0], w) & mask(w - 1))
        if name in ('llvm.stacksave', 'llvm.stackrestore'):
            return 0
        if name.startswith('llvm.trap'):
            raise PathEnd()
        raise Unsupported('intrinsic ' + name)

    def memcpy(self, dst, src, n, what='memcpy', limit=None):
        n = self.concretize(n, 64, limit or self.loop_bound, what + ' length')
        if n > (1 << 20):
            raise Unsupported('%s of %d bytes' % (what, n))
        if n == 0:
            return
        dst, src = simp(dst), simp(src)
        if is_c(dst) and is_c(src):
            mem = self.mem
            rs = mem._resolve(src, n, 'load(' + what + ')')
            rd = mem._resolve(dst, n, 'store(' + what + ')')
            if rs is None or rd is None:
                raise PathEnd()
            if rd.readonly:
                self.oob('store to read-only %r' % rd)
                raise PathEnd()
            if 'memcpy' in what and dst != src and dst < src + n and src < dst + n:
                self.ub(('memcpy-overlap', what), 'memcpy() called with overlapping buffers (%#x, %#x, %d)' % (dst, src, n))
            bs = [mem.load_byte(src + i, rs) for i in range(n)]
            if mem.log is not None:
                mem.log.append(('copy', dst, n, src))
            for i, b in enumerate(bs):
                mem.bytes[dst + i] = b
            return
        bs = [self.mem.load(self._add64(src, i), 1) for i in range(n)]
        for i, b in enumerate(bs):
            self.mem.store(self._add64(dst, i), b, 1)

    def memset(self, dst, c, n):
        n = self.concretize(n, 64, self.loop_bound, 'memset length')
        if n > (1 << 20):
            raise Unsupported('memset of %d bytes' % n)
        c = trunc(c, 8) if not is_c(c) else c & 0xff
        dst = simp(dst)
        if is_c(dst):
            if n == 0:
                return
            r = self.mem._resolve(dst, n, 'store(memset)')
            if r is None:
                raise PathEnd()
            if self.mem.log is not None:
                self.mem.log.append(('set', dst, n, c))
            for i in range(n):
                self.mem.bytes[dst + i] = c
            return
        for i in range(n):
            self.mem.store(self._add64(dst, i), c, 1)

    def run_function(self, f, m, args):
        if isinstance(f, str):
            f, m = self.find_function(f)
        self.called.add(f.name)
        self.depth += 1
        if self.depth > self.max_depth:
            self.depth -= 1
            raise UnwindBound('call depth %d exceeded at %s' % (self.max_depth, f.name))
        fr = Frame(f)
        vals = fr.vals
        if len(args) < len(f.params):
            raise Unsupported('call of %s with %d args, expected %d' % (f.name, len(args), len(f.params)))
        for (t, pn), a in zip(f.params, args):
            vals[pn] = a
        if f.vararg:
            vals['!varargs'] = list(args[len(f.params):])
        try:
            return self._run(fr, f, m)
        finally:
            self.depth -= 1
            for r in fr.allocas:
                r.freed = True

    def val(self, fr, m, t, v):
        k = v[0]
        if k == 'local':
            try:
                return fr.vals[v[1]]
            except KeyError:
                raise Unsupported('use of undefined %%%s in %s' % (v[1], fr.fn.name))
        if k == 'int':
            if t[0] == 'int':
                return v[1] & mask(t[1])
            return v[1] & mask(64)
        if k == 'undef' and t[0] in ('int', 'ptr', 'float', 'double'):
            return self.fresh('undef', self.tywidth(t))
        return self.const_value(t, v, m)

    def _run(self, fr, f, m):
        label = f.entry
        prev = None
        vals = fr.vals
        val = self.val
        while True:
            cnt = fr.visits.get(label, 0) + 1
            fr.visits[label] = cnt
            if cnt > self.loop_bound:
                raise UnwindBound('block %%%s of %s entered more than %d times' % (label, f.name, self.loop_bound))
            block = f.blocks[label]
            # phis first, evaluated simultaneously
            i = 0
            if block and block[0].op == 'phi':
                newvals = []
                while i < len(block) and block[i].op == 'phi':
                    ins = block[i]
                    for v, lbl in ins.args:
                        if lbl == prev:
                            newvals.append((ins.dest, val(fr, m, ins.ty, v)))
                            break
                    else:
                        raise Unsupported('phi without incoming for %s in %s' % (prev, f.name))
                    i += 1
                for d, v in newvals:
                    vals[d] = v
            nxt = None
            for ins in block[i:]:
                self.steps += 1
                if self.steps > self.max_steps:
                    raise UnwindBound('more than %d instructions on one path' % self.max_steps)
                op = ins.op
                if op == 'load':
                    vals[ins.dest] = self.load_typed(m, ins.ty, val(fr, m, ('ptr',), ins.args[0]))
                elif op == 'getelementptr':
                    base = val(fr, m, ('ptr',), ins.args[0])
                    idx = [val(fr, m, t, v) for t, v in ins.args[1]]
                    vals[ins.dest] = self.gep(m, ins.ty, base, idx, [t for t, v in ins.args[1]])
                elif op == 'icmp':
                    t = ins.ty
                    w = 64 if t[0] == 'ptr' else t[1]
                    vals[ins.dest] = i1(self.icmp(ins.extra, val(fr, m, t, ins.args[0]),
                                                  val(fr, m, t, ins.args[1]), w))
                elif op == 'br':
                    a = ins.args
                    if len(a) == 1:
                        nxt = a[0]
                    else:
                        c = bool_of(val(fr, m, ('int', 1), a[0]))
                        nxt = a[1] if self.decide(c) else a[2]
                    break
                elif op == 'call':
                    r = self._call_ins(fr, m, ins)
                    if ins.dest is not None:
                        vals[ins.dest] = r
                elif op == 'store':
                    t = ins.ty
                    self.store_typed(m, t, val(fr, m, t, ins.args[0]), val(fr, m, ('ptr',), ins.args[1]))
                elif op in ('bitcast', 'trunc', 'zext', 'sext', 'ptrtoint', 'inttoptr', 'fpext', 'fptrunc',
                            'sitofp', 'uitofp', 'fptosi', 'fptoui', 'addrspacecast'):
                    vals[ins.dest] = self.cast(op, val(fr, m, ins.extra, ins.args[0]), ins.extra, ins.ty)
                elif op in ('add', 'sub', 'mul', 'and', 'or', 'xor', 'shl', 'lshr', 'ashr',
                            'udiv', 'sdiv', 'urem', 'srem'):
                    t = ins.ty
                    if t[0] != 'int':
                        raise Unsupported('vector arithmetic')
                    vals[ins.dest] = self.binop(op, val(fr, m, t, ins.args[0]), val(fr, m, t, ins.args[1]),
                                                t[1], ins)
                elif op == 'select':
                    c = bool_of(val(fr, m, ('int', 1), ins.args[0]))
                    a = val(fr, m, ins.ty, ins.args[1])
                    b = val(fr, m, ins.ty, ins.args[2])
                    if c is True:
                        vals[ins.dest] = a
                    elif c is False:
                        vals[ins.dest] = b
                    elif isinstance(a, list):
                        vals[ins.dest] = a if self.decide(c) else b
                    else:
                        cs = z3.simplify(c)
                        if z3.is_true(cs):
                            vals[ins.dest] = a
                        elif z3.is_false(cs):
                            vals[ins.dest] = b
                        else:
                            vals[ins.dest] = simp(ite(cs, a, b, self.tywidth(ins.ty)))
                elif op == 'ret':
                    if ins.args:
                        return val(fr, m, ins.ty, ins.args[0])
                    return None
                elif op == 'alloca':
                    n = val(fr, m, ins.extra[0], ins.args[0])
                    n = self.concretize(n, ins.extra[0][1], 64, 'alloca count')
                    size = m.sizeof(ins.ty) * n
                    r = self.mem.alloc(size, '%s.%s' % (f.name, ins.dest), 'stack', align=ins.extra[1] or 16)
                    fr.allocas.append(r)
                    vals[ins.dest] = r.base
                elif op == 'switch':
                    t = ins.ty
                    v = val(fr, m, t, ins.args[0])
                    nxt = None
                    if is_c(v):
                        for cv, lbl in ins.args[2]:
                            if (cv & mask(t[1])) == v:
                                nxt = lbl
                                break
                    else:
                        for cv, lbl in ins.args[2]:
                            if self.decide(v == (cv & mask(t[1]))):
                                nxt = lbl
                                break
                    if nxt is None:
                        nxt = ins.args[1]
                    break
                elif op in ('fadd', 'fsub', 'fmul', 'fdiv'):
                    w = self._FPW[ins.ty[0]]
                    vals[ins.dest] = self.fbinop(op, val(fr, m, ins.ty, ins.args[0]),
                                                 val(fr, m, ins.ty, ins.args[1]), w)
                elif op == 'fneg':
                    w = self._FPW[ins.ty[0]]
                    v = val(fr, m, ins.ty, ins.args[0])
                    vals[ins.dest] = simp(bv(v, w) ^ (1 << (w - 1)))
                elif op == 'fcmp':
                    w = self._FPW[ins.ty[0]]
                    if w == 80:
                        h = self.stubs.get('!fcmp80')
                        if h is None:
                            raise Unsupported('fcmp on x86_fp80 without a model')
                        vals[ins.dest] = i1(h(self, ins.extra, val(fr, m, ins.ty, ins.args[0]),
                                              val(fr, m, ins.ty, ins.args[1])))
                    else:
                        vals[ins.dest] = i1(self.fcmp(ins.extra, val(fr, m, ins.ty, ins.args[0]),
                                                      val(fr, m, ins.ty, ins.args[1]), w))
                elif op == 'extractvalue':
                    v = val(fr, m, ins.ty, ins.args[0])
                    for k in ins.args[1]:
                        v = v[k]
                    vals[ins.dest] = v
                elif op == 'insertvalue':
                    v = val(fr, m, ins.ty, ins.args[0])
                    e = val(fr, m, ins.extra, ins.args[1])
                    vals[ins.dest] = self._insert(v, e, ins.args[2])
                elif op == 'unreachable':
                    raise PathEnd()
                elif op == 'cmpxchg':
                    h = self.stubs.get('!cmpxchg')
                    t = ins.ty
                    n = self.store_size(m, t)
                    p = val(fr, m, ('ptr',), ins.args[0])
                    cmpv = val(fr, m, t, ins.args[1])
                    newv = val(fr, m, t, ins.args[2])
                    if h is not None:
                        vals[ins.dest] = h(self, p, cmpv, newv, n)
                    else:
                        old = self.mem.load(p, n)
                        if self.decide(eq(old, cmpv, 8 * n)):
                            self.mem.store(p, newv, n)
                            vals[ins.dest] = [old, 1]
                        else:
                            vals[ins.dest] = [old, 0]
                elif op == 'fence':
                    h = self.stubs.get('!fence')
                    if h is not None:
                        h(self)
                elif op == 'freeze':
                    vals[ins.dest] = val(fr, m, ins.ty, ins.args[0])
                elif op == 'phi':
                    raise Unsupported('phi in the middle of a block')
                else:
                    raise Unsupported('%s in %s: %s' % (ins.extra if op == 'unsupported' else op, f.name,
                                                        ins.text.strip()[:80]))
            if nxt is None:
                raise Unsupported('block %%%s of %s falls through' % (label, f.name))
            prev, label = label, nxt

    def _insert(self, agg, e, idx):
        agg = list(agg)
        if len(idx) == 1:
            agg[idx[0]] = e
        else:
            agg[idx[0]] = self._insert(agg[idx[0]], e, idx[1:])
        return agg

    def _call_ins(self, fr, m, ins):
        callee, args = ins.args
        if callee[0] == 'global':
            name = callee[1]
        else:
            fv = self.val(fr, m, ('ptr',), callee)
            fv = simp(fv)
            if not is_c(fv):
                raise Unsupported('indirect call through symbolic pointer in %s' % fr.fn.name)
            name = self.addr_func.get(fv)
            if name is None:
                h = self.stubs.get('!indirect')
                if h is None:
                    raise Unsupported('indirect call to unknown address %#x in %s' % (fv, fr.fn.name))
                return h(self, fv, [self.val(fr, m, t, v) for t, v in args if t != ('metadata',)])
        if name.startswith('llvm.dbg.') or name.startswith('llvm.lifetime.'):
            return None
        if name == 'llvm.va_start' or name == 'llvm.va_end' or name == 'llvm.va_copy':
            h = self.stubs.get('!' + name)
            if h is None:
                raise Unsupported(name + ' without a model')
            return h(self, fr, *[self.val(fr, m, t, v) for t, v in args])
        a = [self.val(fr, m, t, v) for t, v in args if t != ('metadata',)]
        return self.call(name, a)


# ------------------------------------------------------------------------------------
# libc models (bounded); registered by harnesses through  stubs.update(LIBC)

def _strlen(ex, p):
    n = 0
    while True:
        b = ex.mem.load(ex._add64(p, n), 1)
        if ex.decide(eq(b, 0, 8)):
            return n
        n += 1
        if n > ex.loop_bound * 4:
            raise UnwindBound('strlen longer than %d' % (ex.loop_bound * 4))


def _strcmp_n(ex, a, b, limit):
    i = 0
    while limit is None or i < limit:
        x = ex.mem.load(ex._add64(a, i), 1)
        y = ex.mem.load(ex._add64(b, i), 1)
        if not ex.decide(eq(x, y, 8)):
            if ex.decide(ult(x, y, 8)):
                return mask(32)      # -1
            return 1
        if ex.decide(eq(x, 0, 8)):
            return 0
        i += 1
        if i > ex.loop_bound * 4:
            raise UnwindBound('strcmp longer than %d' % (ex.loop_bound * 4))
    return 0


def _strcmp(ex, a, b):
    return _strcmp_n(ex, a, b, None)


def _strncmp(ex, a, b, n):
    n = ex.concretize(n, 64, 64, 'strncmp length')
    return _strcmp_n(ex, a, b, n)


def _memcmp(ex, a, b, n):
    n = ex.concretize(n, 64, 64, 'memcmp length')
    for i in range(n):
        x = ex.mem.load(ex._add64(a, i), 1)
        y = ex.mem.load(ex._add64(b, i), 1)
        if not ex.decide(eq(x, y, 8)):
            if ex.decide(ult(x, y, 8)):
                return mask(32)
            return 1
    return 0


def _memcpy(ex, d, s, n):
    ex.memcpy(d, s, n, 'memcpy')
    return d


def _memmove(ex, d, s, n):
    ex.memcpy(d, s, n, 'memmove')
    return d


def _memset(ex, d, c, n):
    ex.memset(d, c, n)
    return d


def _memchr(ex, p, c, n):
    n = ex.concretize(n, 64, 64, 'memchr length')
    c = trunc(c, 8) if not is_c(c) else c & 0xff
    for i in range(n):
        x = ex.mem.load(ex._add64(p, i), 1)
        if ex.decide(eq(x, c, 8)):
            return ex._add64(p, i)
    return 0


def _strcpy(ex, d, s_):
    n = _strlen(ex, s_)
    ex.memcpy(d, s_, n + 1, 'strcpy')
    return d


def _strcat(ex, d, s_):
    n = _strlen(ex, d)
    m = _strlen(ex, s_)
    ex.memcpy(ex._add64(d, n), s_, m + 1, 'strcat')
    return d


def _abort(ex, *a):
    raise PathEnd()


def c_string(ex, p, limit=4096):
    """concrete NUL-terminated string at p (Unsupported if a byte is symbolic)"""
    out = []
    p = simp(p)
    for i in range(limit):
        b = simp(ex.mem.load(ex._add64(p, i), 1))
        if not is_c(b):
            raise Unsupported('symbolic byte in a string that must be concrete')
        if b == 0:
            return bytes(out)
        out.append(b)
    raise UnwindBound('string longer than %d' % limit)


def _sprintf(ex, dst, fmt, *args):
    """sprintf for concrete formats and concrete integer / string arguments (%d %u %ld %lu %lld %llu %zd %zu %s %c %%)"""
    import re
    f = c_string(ex, fmt).decode('latin1')
    args = list(args)
    out = []
    pos = 0
    for m in re.finditer(r'%(%|[0-9.]*(?:hh|h|ll|l|z|j|t)?[duxXcs])', f):
        out.append(f[pos:m.start()].encode('latin1'))
        pos = m.end()
        spec = m.group(1)
        if spec == '%':
            out.append(b'%')
            continue
        a = simp(args.pop(0))
        conv = spec[-1]
        if conv == 's':
            out.append(c_string(ex, a))
            continue
        if not is_c(a):
            raise Unsupported('sprintf of a symbolic integer')
        width = 64 if ('ll' in spec or 'l' in spec or 'z' in spec or 'j' in spec or 't' in spec) else 32
        a &= mask(width)
        if conv == 'd':
            a = signed(a, width)
            out.append(str(a).encode())
        elif conv == 'u':
            out.append(str(a).encode())
        elif conv in 'xX':
            out.append((('%x' if conv == 'x' else '%X') % a).encode())
        else:
            out.append(bytes([a & 255]))
    out.append(f[pos:].encode('latin1'))
    data = b''.join(out)
    for i, b in enumerate(data):
        ex.mem.store(ex._add64(dst, i), b, 1)
    ex.mem.store(ex._add64(dst, len(data)), 0, 1)
    return len(data)


LIBC = {
    'strlen': _strlen, 'strcmp': _strcmp, 'strncmp': _strncmp, 'memcmp': _memcmp,
    'memcpy': _memcpy, 'memmove': _memmove, 'memset': _memset, 'memchr': _memchr,
    'abort': _abort, 'sprintf': _sprintf, 'strcpy': _strcpy, 'strcat': _strcat,
}
